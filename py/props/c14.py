"""C14 — replacement, conversion, patch, derive and map-type settings apply everywhere;
none of them (nor the builder flag) changes what the remaining types accept or emit.

Deciding method
  * Coq (Props/C14.v): theorems on the IR / emission model (derives everywhere, per-type patch
    derives, map type everywhere except String->JsonValue, the is_empty path, replacement lookup
    by sanitised name, de/ser never read the settings record) and the PROVEN validator
    `wire_equiv` with `C14_wire_equiv_sound` (same acceptance, same deserialised value, same
    serialisation for EVERY JSON instance).
  * every run: documents (curated corpus + seeded grammar + repository fixtures) x settings
    assignments whose targets are drawn from the document itself.
      - syntactic obligations evaluated directly on the emitted code (syn scan) and the dumped IR
        with an oracle that reads the SCHEMA (schema-directed walk of the IR): this is the
        failing-input search;
      - behavioural obligation: for every definition that neither is nor contains a replaced /
        converted type, (a) `wire_equiv` evaluated by Coq on the two REAL dumps (default settings
        vs. sigma) is true and the kernel accepts the instantiated soundness theorem, and (b) the
        compiled modules answer identically (accept / reject / round-trip value) on generated
        instances, boundary variants and single-constraint mutants;
      - correspondence: the Gallina `type_ident` / `skip_path` / `derives_of` evaluated on the
        real dump = the field types, skip_serializing_if paths and derive lists of the syn scan.
"""
import collections
import copy
import glob
import json
import os
import random
import re

import schemagen
import tocoq
import vlib
import world

THEOREMS = [
    "C14_derives_everywhere",
    "C14_derives_are_full_paths",
    "C14_patch_derives",
    "C14_patch_derives_survive_default",
    "C14_patch_apply",
    "C14_patch_rename_verbatim",
    "C14_patch_use_sites",
    "C14_map_type_everywhere",
    "C14_map_json_exception",
    "C14_map_constrained_keys_use_map_type",
    "C14_json_map_only_string_any",
    "C14_map_is_empty_path",
    "C14_type_ident_settings",
    "C14_replace_lookup",
    "C14_replace_entry",
    "C14_replace_lookup_ignores_title",
    "C14_replace_key_suggested_differs",
    "C14_convert_lookup_ignores_annotations",
    "C14_convert_everywhere_partial",
    "C14_conversion_lookup_ignores_annotations_everywhere",
    "C14_convert_ignores_nested_annotations",
    "C14_top_level_strip_misses",
    "C14_box_option_incomplete",
    "C14_settings_irrelevant_de",
    "C14_settings_irrelevant_ser",
    "C14_builder_flag_irrelevant",
    "C14_wire_equiv_sound",
    "C14_wire_equiv_all_sound",
]

MUT = os.environ.get("C14_MUTATE", "")
CORPUS = os.path.join(vlib.ROOT, "corpus", "C14")
FIXTURE_DIR = os.path.join(vlib.REPO, "typify", "tests", "schemas")
FIXTURES_QUICK = ["maps.json", "arrays-and-tuples.json"]
FIXTURES_THOROUGH = FIXTURES_QUICK + ["merged-schemas.json", "simple-types.json", "various-enums.json", "types-with-more-impls.json",
                                      "type-with-modified-generation.json", "id-or-name.json", "deny-list.json",
                                      "noisy-types.json", "reflexive.json"]

ANNOT = ("title", "description", "default", "deprecated", "readOnly", "writeOnly", "examples", "$id")
MAP_TYPES = ["::std::collections::HashMap", "::std::collections::BTreeMap", "std::collections::BTreeMap"]
INDEXMAP = "::indexmap::IndexMap"
JSON_MAP = "::serde_json::Map<::std::string::String,::serde_json::Value>"
# replacement / conversion types: std types that implement every trait a containing
# generated type can derive here (Clone Debug Serialize Deserialize PartialEq Eq Hash Default)
REPL_TYPES = [
    ("::std::string::String", ["Display", "FromStr", "Default"]),
    ("u64", ["Display", "FromStr", "Default"]),
    ("bool", ["Display", "FromStr", "Default"]),
    ("::std::collections::BTreeSet<u8>", ["Default"]),
    ("::std::vec::Vec<::std::string::String>", ["Default"]),
]
DERIVE_ERROR_CODES = {"E0277", "E0204", "E0369", "E0119", "E0184", "E0599"}


def squash(s):
    return re.sub(r"\s+", "", s or "")


def strip_meta(s):
    if isinstance(s, dict):
        return {k: v for k, v in s.items() if k not in ANNOT}
    return s


SUBSCHEMA_KEYS = ("items", "additionalProperties", "additionalItems", "not", "contains", "propertyNames", "if", "then",
                  "else")


def deep_strip(s):
    """annotations removed at EVERY level (strip_meta is what typify does: the top level only)"""
    if isinstance(s, list):
        return [deep_strip(x) for x in s]
    if not isinstance(s, dict):
        return s
    out = {}
    for k, v in strip_meta(s).items():
        if k in ("properties", "patternProperties", "definitions") and isinstance(v, dict):
            out[k] = {pk: deep_strip(pv) for pk, pv in v.items()}
        elif k in SUBSCHEMA_KEYS or k in ("allOf", "anyOf", "oneOf"):
            out[k] = deep_strip(v)
        else:
            out[k] = v
    return out


def strip_pn_free(s):
    """deep_strip everywhere EXCEPT inside propertyNames (what the regressed comparison ignores)"""
    if isinstance(s, list):
        return [strip_pn_free(x) for x in s]
    if not isinstance(s, dict):
        return s
    out = {}
    for k, v in strip_meta(s).items():
        if k == "propertyNames":
            out[k] = v
        elif k in ("properties", "patternProperties") and isinstance(v, dict):
            out[k] = {pk: strip_pn_free(pv) for pk, pv in v.items()}
        elif k in SUBSCHEMA_KEYS or k in ("allOf", "anyOf", "oneOf"):
            out[k] = strip_pn_free(v)
        else:
            out[k] = v
    return out


class tok_re:
    """occurrences of identifier `name` as a type of THIS module: a whole token that is not a segment of an
    external path (`::serde_json::Value` does not mention a definition called Value; `super::Value` does)"""

    def __init__(self, name):
        self.rx = re.compile(r"(?<!\w)%s(?!\w)" % re.escape(name))       # \w is Unicode-aware: Gr\u00f6\u00dfe, \u00c9

    def search(self, text):
        for m in self.rx.finditer(text):
            before = text[:m.start()].rstrip()
            if before.endswith("::"):
                seg = re.search(r"(\w+)\s*::$", before)
                if not seg or seg.group(1) not in ("super", "self", "crate", "Self"):
                    continue
            return m
        return None


def case_of(doc, settings=None, extra_steps=None):
    return {"settings": settings or {}, "steps": [{"op": "root", "doc": doc}] + list(extra_steps or [])}


# a derive no generated type has by itself (string enums / string newtypes already derive PartialEq, Eq, Hash,
# Ord ...: a dropped per-type `PartialEq` would be invisible on them).  Not compilable: scan-only stream.
MARK = "::c14_marker::Marker"
MARK2 = "::c14_marker::Global"
# derives whose LAST path segment equals a derive typify adds by itself, under a foreign path: different macros
# (`::rkyv::Serialize`, `::stable_hash::Hash` ...).  Derive strings are identified only when equal as strings.
BUILTIN_SEGMENTS = ["Serialize", "Deserialize", "Clone", "Debug", "Copy", "PartialEq", "Eq", "PartialOrd", "Ord", "Hash",
                    "Default"]


# rename targets of every identifier shape (all valid Rust identifiers: typify uses the requested name
# VERBATIM, util.rs type_patch; C14_patch_rename_verbatim, C14_patch_apply, C14F_type_patch, C14F_patch_entry)
RENAME_ASCII = ["IP{n}", "HTTP{n}Server", "{n}_V2", "_{n}", "{l}_case", "V2{n}", "{n}2", "{lc}Bar", "{n}Rn", "{n}_"]
RENAME_SCAN_ONLY = RENAME_ASCII + ["Gr\u00f6\u00dfe{n}", "{n}\u00c9"]
RENAME_ONCE = ["T", "Self_", "x", "IPAddr", "HTTPServer", "Address_V2", "_Private", "snake_case", "fooBar"]
PATCH_THEOREMS = ["C14_patch_rename_verbatim", "C14_patch_apply", "C14_patch_use_sites", "C14F_type_patch",
                  "C14F_patch_entry", "C14F_patch_old_name_gone"]


def rename_target(rnd, name, taken, scan_only=False):
    """a fresh rename target for type `name` in one of the identifier shapes; None if none is free"""
    pool = list(RENAME_SCAN_ONLY if scan_only else RENAME_ASCII)
    rnd.shuffle(pool)
    cands = []
    if rnd.random() < 0.25:
        cands += rnd.sample(RENAME_ONCE, 2)
    cands += [t.format(n=name, l=name.lower(), lc=name[:1].lower() + name[1:]) for t in pool]
    for c in cands:
        if c not in taken and c != name:
            taken.add(c)
            return c
    return None


def last_segment(d):
    return squash(d).split("::")[-1]


def colliding_markers(gen=None, prefix="::c14_other::"):
    segs = list(BUILTIN_SEGMENTS)
    if gen is not None:
        for it in root_items(gen["render"]["scan"]):
            for d in it["derives"]:
                if last_segment(d) not in segs:
                    segs.append(last_segment(d))       # whatever typify derives by itself on this tree
    return [prefix + x for x in segs]


def emulate_dedup_by_last_segment(derives, requested):
    """what `strings_to_derives` would emit if derives were keyed on their last path segment (built-ins first)"""
    builtin = [d for d in derives if d not in requested]
    seen = {last_segment(d) for d in builtin}
    out = list(builtin)
    for d in derives:
        if d in requested and last_segment(d) not in seen:
            seen.add(last_segment(d))
            out.append(d)
    return out


def gen_ok(g):
    return g.get("r") == "done" and g.get("all_ok") and g.get("render", {}).get("r") == "ok"


# --------------------------------------------------------------------------
# the IR dump as a graph
# --------------------------------------------------------------------------
class Dump:
    def __init__(self, dump):
        self.d = dump
        self.e = {int(k): v for k, v in dump["entries"].items()}
        self.ref = {k[2:]: v for k, v in dump["ref_to_id"].items() if k.startswith("#/")}

    def ent(self, i):
        return self.e.get(i)

    def children(self, i):
        e = self.e.get(i)
        if e is None:
            return []
        k = e["kind"]
        if k in ("option", "box", "vec", "set", "array", "reference"):
            return [e["id"]]
        if k == "map":
            return [e["key"], e["value"]]
        if k == "tuple":
            return list(e["ids"])
        if k == "newtype":
            return [e["type_id"]]
        if k == "native":
            return list(e["params"])
        if k == "struct":
            return [p["type_id"] for p in e["props"]]
        if k == "enum":
            out = []
            for v in e["variants"]:
                d = v["details"]
                if d["k"] == "item":
                    out.append(d["id"])
                elif d["k"] == "tuple":
                    out += d["ids"]
                elif d["k"] == "struct":
                    out += [p["type_id"] for p in d["props"]]
            return out
        return []

    def reach(self, i):
        seen, st = set(), [i]
        while st:
            x = st.pop()
            if x in seen:
                continue
            seen.add(x)
            st += self.children(x)
        return seen

    def name(self, i):
        e = self.e.get(i) or {}
        return e.get("name") if e.get("kind") in ("struct", "enum", "newtype") else None

    def named(self):
        return {e["name"]: i for i, e in self.e.items() if e["kind"] in ("struct", "enum", "newtype")}

    def is_json_map(self, e):
        k, v = self.e.get(e["key"]), self.e.get(e["value"])
        return k is not None and v is not None and k["kind"] == "string" and v["kind"] == "json"

    def render_ty(self, i, M, type_mod=None, value_only=False, depth=0):
        """How the type with id i must be spelled (white space removed) under map type M: every
        Map(key, value) entry is `M<key,value>` with the KEY type spelled out, except key == plain
        String and value == JsonValue (`::serde_json::Map<String, Value>`).  None = cannot tell.
        value_only=True renders what a test on the value alone would give (emulated regression)."""
        e = self.e.get(i)
        if e is None or depth > 40:
            return None
        k = e["kind"]
        r = lambda x: self.render_ty(x, M, type_mod, value_only, depth + 1)
        if k in ("struct", "enum", "newtype"):
            return (type_mod + "::" if type_mod else "") + e["name"]
        if k == "option":
            x = r(e["id"])
            ie = self.e.get(e["id"])
            if x is None:
                return None
            return x if ie and ie["kind"] == "option" else "::std::option::Option<%s>" % x
        if k in ("box", "vec", "set"):
            x = r(e["id"])
            pre = {"box": "::std::boxed::Box<", "vec": "::std::vec::Vec<", "set": "Vec<"}[k]
            return None if x is None else pre + x + ">"
        if k == "map":
            ke, ve = self.e.get(e["key"]), self.e.get(e["value"])
            if ke is None or ve is None:
                return None
            if ve["kind"] == "json" and (value_only or ke["kind"] == "string"):
                return JSON_MAP
            a, b = r(e["key"]), r(e["value"])
            return None if a is None or b is None else "%s<%s,%s>" % (M, a, b)
        if k == "array":
            x = r(e["id"])
            return None if x is None else "[%s;%dusize]" % (x, e["len"])
        if k == "tuple":
            xs = [r(t) for t in e["ids"]]
            if any(x is None for x in xs):
                return None
            return "(%s,)" % xs[0] if len(xs) == 1 else "(%s)" % ",".join(xs)
        if k == "native":
            xs = [r(t) for t in e["params"]]
            if any(x is None for x in xs):
                return None
            return squash(e["type_name"]) + ("<%s>" % "".join(x + "," for x in xs) if xs else "")
        if k == "unit":
            return "()"
        if k == "string":
            return "::std::string::String"
        if k == "boolean":
            return "bool"
        if k == "json":
            return "::serde_json::Value"
        if k in ("integer", "float"):
            return squash(e["name"])
        return None

    def map_nodes(self, i, depth=0, acc=None):
        """the Map entries of the anonymous type tree below id i: [(key entry, value entry)]"""
        acc = [] if acc is None else acc
        e = self.e.get(i)
        if e is None or depth > 40 or e["kind"] in ("struct", "enum", "newtype"):
            return acc
        if e["kind"] == "map":
            acc.append((self.e.get(e["key"]), self.e.get(e["value"])))
        for c in self.children(i):
            self.map_nodes(c, depth + 1, acc)
        return acc

    def count_maps(self, i, depth=0):
        """(configured-map nodes, serde_json::Map nodes) in the ANONYMOUS type tree below id i
        (what type_ident spells out: it stops at named types)."""
        e = self.e.get(i)
        if e is None or depth > 40:
            return 0, 0
        k = e["kind"]
        if k in ("struct", "enum", "newtype"):
            return 0, 0
        a = b = 0
        if k == "map":
            if self.is_json_map(e):
                return 0, 1
            a = 1
        for c in self.children(i):
            x, y = self.count_maps(c, depth + 1)
            a, b = a + x, b + y
        return a, b


# --------------------------------------------------------------------------
# schema-directed walk of the IR: which id did typify give to which subschema
# --------------------------------------------------------------------------
def nullable_parts(s):
    """(inner schema or None, index path) when s is `T|null` written as oneOf/anyOf"""
    for key in ("oneOf", "anyOf"):
        subs = s.get(key)
        if isinstance(subs, list) and len(subs) == 2:
            nn = [(k, x) for k, x in enumerate(subs) if strip_meta(x) != {"type": "null"}]
            if len(nn) == 1 and len(strip_meta(s)) == 1:
                return key, nn[0][0], nn[0][1]
    return None


class Walk:
    """positions: list of dict(path, schema, id, kind) — every schema position the walk could
    pair with an IR id.  kind in: definition property item tuple map-value variant option
    allof-member-property flattened"""

    def __init__(self, doc, dump):
        self.doc = doc
        self.D = dump
        self.pos = []
        self.unpaired = 0
        self.seen = set()
        for name in sorted(doc.get("definitions", {})):
            if name in dump.ref:
                self.visit("/definitions/" + name, doc["definitions"][name], dump.ref[name], "definition")

    def deref_box(self, i):
        n = 0
        while self.D.ent(i) is not None and self.D.ent(i)["kind"] == "box" and n < 5:
            i = self.D.ent(i)["id"]
            n += 1
        return i

    def visit(self, path, s, i, kind, optional=False):
        if not isinstance(s, dict) or len(path) > 400:
            return
        i = self.deref_box(i)
        e = self.D.ent(i)
        if e is None:
            return
        if optional and e["kind"] == "option" and not self.is_nullable(s):
            i = self.deref_box(e["id"])
            e = self.D.ent(i)
            if e is None:
                return
        alt = None
        if optional and e["kind"] == "option":
            alt = self.deref_box(e["id"])       # Option added for a non-required member around a nullable schema's type
        self.pos.append({"path": path, "schema": s, "id": i, "kind": kind, "alt": alt})
        if (path, i) in self.seen:
            return
        self.seen.add((path, i))
        if "$ref" in s:
            return
        self.descend(path, s, i, kind == "definition")

    def is_nullable(self, s):
        t = s.get("type")
        if isinstance(t, list) and "null" in t:
            return True
        if nullable_parts(s):
            return True
        if "$ref" in s and len(strip_meta(s)) == 1:
            tgt = self.doc.get("definitions", {}).get(s["$ref"].split("/")[-1])
            return isinstance(tgt, dict) and self.is_nullable(tgt) and False
        return False

    def props(self, path, props, s, kind="property", skip=()):
        sp = s.get("properties", {}) if isinstance(s.get("properties"), dict) else {}
        for p in props:
            rn = p["rename"]
            if rn["k"] == "flatten":
                ap = s.get("additionalProperties")
                me = self.D.ent(self.deref_box(p["type_id"]))
                if isinstance(ap, dict) and me is not None and me["kind"] == "map":
                    self.visit(path + "/additionalProperties", ap, me["value"], "flattened")
                continue
            wire = rn["s"] if rn["k"] == "rename" else p["name"]
            if wire in skip:
                continue
            if wire not in sp:
                self.unpaired += 1
                continue
            self.visit(path + "/properties/" + wire, sp[wire], p["type_id"], kind,
                       optional=p["state"]["k"] != "required")

    def variant(self, path, v, s):
        d = v["details"]
        if d["k"] == "item":
            self.visit(path, s, d["id"], "variant")
        elif d["k"] == "struct" and isinstance(s, dict) and "properties" in s:
            self.props(path, d["props"], s, "variant")
        elif d["k"] == "tuple" and isinstance(s, dict) and isinstance(s.get("items"), list):
            for k, (si, ti) in enumerate(zip(s["items"], d["ids"])):
                self.visit("%s/items/%d" % (path, k), si, ti, "variant")

    def descend(self, path, s, i, is_def):
        D = self.D
        e = D.ent(i)
        k = e["kind"]
        if k == "newtype" and e["constraints"]["k"] == "none":
            inner = self.deref_box(e["type_id"])
            ie = D.ent(inner)
            if ie is not None and ie["kind"] not in ("struct", "enum", "newtype"):
                self.descend(path, s, inner, False)
            return
        if k == "option":
            np = nullable_parts(s)
            if np:
                key, idx, inner = np
                self.visit("%s/%s/%d" % (path, key, idx), inner, e["id"], "option")
            elif isinstance(s.get("type"), list) and "null" in s["type"] and len(s["type"]) == 2:
                other = [t for t in s["type"] if t != "null"][0]
                ii = self.deref_box(e["id"])
                if D.ent(ii) is not None and D.ent(ii)["kind"] not in ("option",):
                    self.descend(path, dict(s, type=other), ii, False)
            return
        if "allOf" in s and isinstance(s["allOf"], list):
            subs = s["allOf"]
            if len(subs) == 1 and len(strip_meta(s)) == 1:
                self.visit(path + "/allOf/0", subs[0], i, "allof-single")
                return
            if k == "struct" and len(strip_meta(s)) == 1:
                owner = {}
                for n, m in enumerate(subs):
                    mp, ms = "%s/allOf/%d" % (path, n), m
                    if isinstance(m, dict) and "$ref" in m and len(strip_meta(m)) == 1:
                        nm = m["$ref"].split("/")[-1]
                        ms = self.doc.get("definitions", {}).get(nm)
                        mp = "%s/allOf/%d->/definitions/%s" % (path, n, nm)
                    if not isinstance(ms, dict) or "properties" not in ms or "allOf" in ms or "oneOf" in ms:
                        return
                    for pn in ms["properties"]:
                        owner.setdefault(pn, []).append((mp, ms))
                for p in e["props"]:
                    rn = p["rename"]
                    wire = rn["s"] if rn["k"] == "rename" else p["name"]
                    if rn["k"] == "flatten" or len(owner.get(wire, [])) != 1:
                        continue
                    mp, ms = owner[wire][0]
                    self.visit(mp + "/properties/" + wire, ms["properties"][wire], p["type_id"],
                               "allof-member-property", optional=p["state"]["k"] != "required")
            return
        if k == "struct":
            if "oneOf" in s or "anyOf" in s:
                return
            self.props(path, e["props"], s)
            return
        if k == "map":
            ap = s.get("additionalProperties")
            if isinstance(ap, dict) and not s.get("properties"):
                self.visit(path + "/additionalProperties", ap, e["value"], "map-value")
            return
        if k in ("vec", "set", "array"):
            if isinstance(s.get("items"), dict):
                self.visit(path + "/items", s["items"], e["id"], "item")
            return
        if k == "tuple":
            if isinstance(s.get("items"), list) and len(s["items"]) == len(e["ids"]):
                for n, (si, ti) in enumerate(zip(s["items"], e["ids"])):
                    self.visit("%s/items/%d" % (path, n), si, ti, "tuple")
            return
        if k == "enum":
            key = "oneOf" if "oneOf" in s else "anyOf" if "anyOf" in s else None
            if key is None or not isinstance(s[key], list):
                return
            subs = s[key]
            tag = e["tag"]
            vs = e["variants"]
            if tag["k"] == "untagged":
                if len(vs) == len(subs):
                    for n, (v, sub) in enumerate(zip(vs, subs)):
                        self.variant("%s/%s/%d" % (path, key, n), v, sub)
                return
            byraw = {v["raw"]: v for v in vs}
            for n, sub in enumerate(subs):
                if not isinstance(sub, dict) or not isinstance(sub.get("properties"), dict):
                    continue
                sp = sub["properties"]
                base = "%s/%s/%d" % (path, key, n)
                if tag["k"] == "external":
                    if len(sp) == 1:
                        (vn, vsch), = sp.items()
                        if vn in byraw:
                            self.variant(base + "/properties/" + vn, byraw[vn], vsch)
                elif tag["k"] == "internal":
                    tv = sp.get(tag["tag"], {}).get("enum") if isinstance(sp.get(tag["tag"]), dict) else None
                    if tv and len(tv) == 1 and tv[0] in byraw:
                        v = byraw[tv[0]]
                        if v["details"]["k"] == "struct":
                            self.props(base, v["details"]["props"], sub, "variant", skip=(tag["tag"],))
                elif tag["k"] == "adjacent":
                    tv = sp.get(tag["tag"], {}).get("enum") if isinstance(sp.get(tag["tag"]), dict) else None
                    if tv and len(tv) == 1 and tv[0] in byraw and tag["content"] in sp:
                        self.variant(base + "/properties/" + tag["content"], byraw[tv[0]], sp[tag["content"]])
            return


def type_positions(doc):
    """Schema-side enumeration (no IR): subschemas at positions where typify needs a type."""
    out = []

    def rec(path, s, depth=0):
        if not isinstance(s, dict) or depth > 12:
            return
        for pn, ps in (s.get("properties") or {}).items() if isinstance(s.get("properties"), dict) else []:
            out.append((path + "/properties/" + pn, ps))
            rec(path + "/properties/" + pn, ps, depth + 1)
        ap = s.get("additionalProperties")
        if isinstance(ap, dict):
            out.append((path + "/additionalProperties", ap))
            rec(path + "/additionalProperties", ap, depth + 1)
        it = s.get("items")
        if isinstance(it, dict):
            out.append((path + "/items", it))
            rec(path + "/items", it, depth + 1)
        elif isinstance(it, list):
            for n, x in enumerate(it):
                out.append(("%s/items/%d" % (path, n), x))
                rec("%s/items/%d" % (path, n), x, depth + 1)
        for key in ("oneOf", "anyOf", "allOf"):
            if isinstance(s.get(key), list):
                for n, x in enumerate(s[key]):
                    rec("%s/%s/%d" % (path, key, n), x, depth + 1)
    for name, s in sorted(doc.get("definitions", {}).items()):
        rec("/definitions/" + name, s)
    return out


# --------------------------------------------------------------------------
# settings assignments drawn from the document
# --------------------------------------------------------------------------
def doc_text_flags(doc):
    t = json.dumps(doc)
    return {
        "float": '"number"' in t,
        "maps": '"additionalProperties": {' in t or '"additionalProperties": true' in t or '"object"}' in t,
        "any": "{}" in t or ": true" in t,
    }


def conv_type_for(s):
    t = s.get("type")
    if t == "string":
        return ("::std::string::String", ["Display", "FromStr", "Default"])
    if t == "integer" and "enum" not in s:
        return ("i64", ["Display", "FromStr", "Default"])
    if t == "boolean":
        return ("bool", ["Display", "FromStr", "Default"])
    return ("::serde_json::Value", ["Default"])


def pick_settings(rnd, doc, base, force=None):
    """One settings assignment; targets come from the document / its base IR.
    Returns (settings, meta)."""
    D = Dump(base["dump"])
    defs = doc.get("definitions", {})
    names = D.named()
    st, meta = {}, {"replace": {}, "convert": [], "patch": {}}
    force = force or set()

    def want(k, p):
        return k in force or (not force and rnd.random() < p)

    # ---- replace: a definition -> an existing Rust type
    cands = [n for n in sorted(defs) if n in D.ref and D.name(D.ref[n])]
    if cands and want("replace", 0.55):
        n = rnd.choice(cands)
        ty, impls = rnd.choice(REPL_TYPES)
        decl = [x for x in impls if rnd.random() < 0.6] if rnd.random() < 0.6 else []
        if "String" in ty:
            decl = [x for x in decl if x != "FromStr"]
        key = D.name(D.ref[n])           # = sanitize(definition name, Pascal)
        st.setdefault("replace", {})[key] = {"type": ty, "impls": decl}
        meta["replace"][n] = {"key": key, "type": ty, "impls": decl}
    # ---- convert: a subschema of the document (type position), annotations varied
    pos = [(p, s) for p, s in type_positions(doc)
           if isinstance(s, dict) and strip_meta(s) not in ({}, {"type": "null"})
           and not p.endswith(("/properties/tagg", "/properties/t"))
           and not (isinstance(s.get("type"), list))
           and "default" not in s]
    if pos and want("convert", 0.55):
        p, s = rnd.choice(pos)
        cs = strip_meta(s)
        if "$ref" in cs and cs["$ref"].split("/")[-1] in meta["replace"]:
            pass
        else:
            ty, impls = conv_type_for(cs)
            sch = dict(cs)
            x = rnd.random()
            if x < 0.35:
                sch["description"] = "conversion schema (annotation differs from every occurrence)"
            elif x < 0.55:
                sch["title"] = "ConvTitle"
            decl = [i for i in impls if rnd.random() < 0.7 and not (i == "FromStr" and "String" in ty)]
            st.setdefault("convert", []).append({"schema": sch, "type": ty, "impls": decl})
            meta["convert"].append({"schema": cs, "type": ty, "impls": decl, "picked_at": p})
    # ---- patch: rename and/or derives on named types (definitions and inline types)
    replaced_keys = {m["key"] for m in meta["replace"].values()}
    for n in meta["replace"]:
        replaced_keys |= {D.name(i) for i in D.reach(D.ref[n]) if D.name(i)}
    pn = [n for n in sorted(names) if n not in replaced_keys]
    if pn and want("patch", 0.6):
        tgt = rnd.choice(pn)
        x = rnd.random()
        if x < 0.7:
            new = rename_target(rnd, tgt, set(names))
            if new is not None:
                meta["patch"][tgt] = {"rename": new, "derives": []}
        if x > 0.35:
            # PartialEq on the target and on every named type it contains by value (rustc needs
            # the field types to have it)
            for i in sorted(D.reach(names[tgt])):
                nm = D.name(i)
                if nm and nm not in replaced_keys:
                    meta["patch"].setdefault(nm, {"rename": None, "derives": []})
                    if "PartialEq" not in meta["patch"][nm]["derives"]:
                        meta["patch"][nm]["derives"].append("PartialEq")
        if meta["patch"]:
            st["patch"] = {k: {kk: vv for kk, vv in v.items() if vv} for k, v in meta["patch"].items()}
    # ---- global derives
    fl = doc_text_flags(doc)
    if want("derives", 0.5):
        opts = [["PartialEq"]]
        if not fl["float"] and not fl["maps"] and not fl["any"] and not meta["convert"]:
            opts.append(["PartialEq", "Eq", "Hash"])
        st["derives"] = rnd.choice(opts)
    # ---- map type, builder
    if want("map", 0.7):
        st["map_type"] = rnd.choice(MAP_TYPES)
    if want("builder", 0.4):
        st["struct_builder"] = True
    meta["derives"] = st.get("derives", [])
    meta["map_type"] = st.get("map_type", MAP_TYPES[0])
    return st, meta


def meta_from_settings(doc, base, st):
    """meta (what the obligations are evaluated against) for a hand-written settings object"""
    D = Dump(base["dump"])
    meta = {"replace": {}, "convert": [], "patch": {}, "derives": st.get("derives", []),
            "map_type": st.get("map_type", MAP_TYPES[0])}
    for key, r in (st.get("replace") or {}).items():
        for dn in sorted(doc.get("definitions", {})):
            if dn in D.ref and D.name(D.ref[dn]) == key:
                meta["replace"][dn] = {"key": key, "type": r["type"], "impls": r.get("impls", [])}
    for c in st.get("convert") or []:
        if any(deep_strip(m["schema"]) == deep_strip(c["schema"]) for m in meta["convert"]):
            continue        # "If the same schema is specified multiple times, the first one is honored"
        meta["convert"].append({"schema": strip_meta(c["schema"]), "type": c["type"], "impls": c.get("impls", [])})
    for key, p in (st.get("patch") or {}).items():
        meta["patch"][key] = {"rename": p.get("rename"), "derives": p.get("derives", [])}
    return meta


# --------------------------------------------------------------------------
# syntactic obligations (direct evaluation on the emitted code + IR)
# --------------------------------------------------------------------------
def root_items(scan):
    return [it for it in scan.get("items", []) if it["mod"] == "" and it["kind"] in ("struct", "enum")]


def type_strings(scan):
    """every place a TYPE is written in the root module: (where, text)"""
    out = []
    for it in scan.get("items", []):
        if it["mod"] != "":
            continue
        if it["kind"] == "struct":
            for f in it["fields"].get("fields", []):
                out.append(("%s.%s" % (it["name"], f.get("name", "0")), f["ty"]))
        elif it["kind"] == "enum":
            for v in it["variants"]:
                for f in v["fields"].get("fields", []):
                    out.append(("%s::%s.%s" % (it["name"], v["name"], f.get("name", "0")), f["ty"]))
    for im in scan.get("impls", []):
        if im["mod"] != "":
            continue
        out.append(("impl-for", im["for"]))
        if im.get("trait"):
            out.append(("impl-trait", im["trait"]))
    return out


def name_occurrences(scan, name, bodies=True):
    rx = tok_re(name)
    hits = []
    for it in scan.get("items", []):
        if it["kind"] in ("struct", "enum") and it["name"] == name:
            hits.append("item %s::%s" % (it["mod"], name))
    for where, t in type_strings(scan):
        if rx.search(t):
            hits.append("%s: %s" % (where, t))
    for it in scan.get("items", []):
        if it["kind"] == "struct":
            for f in it["fields"].get("fields", []):
                if rx.search(f["ty"]) and it["mod"] != "":
                    hits.append("%s::%s.%s: %s" % (it["mod"], it["name"], f.get("name", "0"), f["ty"]))
        if it["kind"] == "fn" and (rx.search(it.get("ret", "")) or (bodies and rx.search(it.get("body", "")))):
            hits.append("fn %s::%s" % (it["mod"], it["name"]))
    if bodies:
        for im in scan.get("impls", []):
            if rx.search(re.sub(r'"(\\.|[^"\\])*"', '""', im.get("body", ""))):
                hits.append("impl %s for %s (mod %s)" % (im.get("trait"), im["for"], im["mod"]))
    return hits


def check_syntactic(doc, st, meta, g, base, viol, counts):
    """Appends violation dicts to `viol`; updates counts."""
    scan = g["render"]["scan"]
    D = Dump(g["dump"])
    B = Dump(base["dump"])
    W = Walk(doc, D)
    counts["walk_positions"] += len(W.pos)
    for p in W.pos:
        counts["pos:" + p["kind"]] += 1
    items = {it["name"]: it for it in root_items(scan)}
    tys = type_strings(scan)

    def bad(kind, **kw):
        viol.append(dict(kind=kind, settings=st, document=doc, **kw))

    # ---- replacement
    for dn, r in meta["replace"].items():
        key, ty = r["key"], r["type"]
        rid = D.ref.get(dn)
        e = D.ent(rid)
        counts["replace_targets"] += 1
        if MUT == "replace-raw-name":
            e = B.ent(B.ref.get(dn))
        dschema = doc.get("definitions", {}).get(dn)
        title = dschema.get("title") if isinstance(dschema, dict) else None
        if title is not None:
            counts["replace_targets_with_title"] += 1
            counts["replace_target_title:" + ("same-as-name" if title == dn else
                                              "other-definition" if title in doc["definitions"] else "other")] += 1
            if MUT == "replace-key-from-title" and title != dn:
                e = B.ent(B.ref.get(dn))     # the lookup used the title: the replacement is silently ignored
        if not (e and e["kind"] == "native" and squash(e["type_name"]) == squash(ty)
                and sorted(e["impls"]) == sorted(r["impls"])):
            bad("replaced-definition-not-native", definition=dn, entry=e)
            continue
        if key in items:
            bad("replaced-definition-still-generated", definition=dn, item=key)
        occ = [h for h in name_occurrences(scan, key, bodies=False)]
        if occ:
            bad("replaced-name-still-mentioned", definition=dn, where=occ[:5])
        for p in W.pos:
            s = p["schema"]
            if "$ref" in s and len(strip_meta(s)) == 1 and s["$ref"].split("/")[-1] == dn:
                counts["replace_use_sites"] += 1
                counts["replace_use:" + p["kind"]] += 1
                pe = D.ent(p["id"])
                if p["kind"] == "definition" and pe["kind"] == "newtype" and W.deref_box(pe["type_id"]) == rid:
                    continue            # an alias definition: newtype around the replacement
                if p["id"] != rid:
                    bad("use-of-replaced-definition-has-other-type", definition=dn, path=p["path"],
                        entry=D.ent(p["id"]))
        # allOf members are merged structurally: same members as under default settings
        for name, s in doc.get("definitions", {}).items():
            if isinstance(s, dict) and isinstance(s.get("allOf"), list) and len(s["allOf"]) >= 2 and \
                    any(isinstance(m, dict) and m.get("$ref", "").split("/")[-1] == dn for m in s["allOf"]):
                counts["allof_merged_over_replaced"] += 1
                a, b = D.ent(D.ref.get(name)), B.ent(B.ref.get(name))
                if a is None or b is None or a["kind"] != b["kind"] or \
                        [(p["name"], p["rename"], p["state"]["k"]) for p in a.get("props", [])] != \
                        [(p["name"], p["rename"], p["state"]["k"]) for p in b.get("props", [])]:
                    bad("allof-over-replaced-definition-not-merged-structurally", definition=name)
    # ---- a definition that is NOT named in a replacement is generated (whatever its title says)
    rtypes = {squash(r["type"]) for r in meta["replace"].values()}
    ctypes = {squash(c["type"]) for c in meta["convert"]}
    for dn in sorted(doc.get("definitions", {})):
        if dn in meta["replace"] or dn not in D.ref or dn not in B.ref:
            continue
        e, eb = D.ent(D.ref[dn]), B.ent(B.ref[dn])
        if e is None or eb is None:
            continue
        counts["not_replaced_definitions"] += 1
        dschema = doc["definitions"][dn]
        if isinstance(dschema, dict) and dschema.get("title") in {r["key"] for r in meta["replace"].values()}:
            counts["not_replaced_definitions_titled_as_a_replacement_key"] += 1
            if MUT == "replace-key-from-title":
                e = {"kind": "native", "type_name": next(iter(rtypes)), "impls": []}
        if e["kind"] == "native" and eb["kind"] != "native" and squash(e["type_name"]) in rtypes - ctypes:
            bad("definition-not-named-in-a-replacement-was-replaced", definition=dn, entry=e)
        elif eb["kind"] in ("struct", "enum", "newtype") and e["kind"] in ("struct", "enum", "newtype") \
                and eb["name"] not in meta["patch"] and e["name"] != eb["name"]:
            bad("definition-generated-under-another-name", definition=dn, name=e["name"], default_name=eb["name"])
    # ---- conversion
    for c in meta["convert"]:
        cs, ty = c["schema"], c["type"]
        n_here = 0
        dcs = deep_strip(cs)
        for p in W.pos:
            if not isinstance(p["schema"], dict) or deep_strip(p["schema"]) != dcs:
                continue
            if p["kind"] == "definition" and p["path"].split("/")[-1] in meta["replace"]:
                continue        # a REPLACED definition is never converted: the replacement comes first (lib.rs:650)
            if strip_meta(p["schema"]) != strip_meta(cs):
                counts["convert_sites_nested_annotation"] += 1      # former finding C14-F1 (fix a0b7480)
                if MUT == "nested-annotations-matter":
                    bad("subschema-equal-to-conversion-schema-has-other-type", path=p["path"], schema=p["schema"],
                        conversion=c, entry={"emulated": True})
                    continue
            e = D.ent(p["id"])
            if MUT == "convert-skip-tuple" and p["kind"] == "tuple":
                e = {"kind": "string"}
            if MUT == "convert-annotations-matter" and p["schema"] != cs:
                e = {"kind": "string"}
            if MUT == "annotations-in-propertyNames-matter" and "propertyNames" in json.dumps(cs) and \
                    json.dumps(strip_pn_free(p["schema"]), sort_keys=True) != json.dumps(strip_pn_free(cs), sort_keys=True):
                e = {"kind": "struct", "name": "(emulated) not converted"}
            n_here += 1
            counts["convert_sites"] += 1
            counts["convert_site:" + p["kind"]] += 1
            if p["schema"] != cs:
                counts["convert_sites_with_annotations"] += 1
            ok = e["kind"] == "native" and squash(e["type_name"]) == squash(ty)
            if not ok and p.get("alt") is not None and MUT != "convert-skip-tuple":
                ae = D.ent(p["alt"])
                ok = ae is not None and ae["kind"] == "native" and squash(ae["type_name"]) == squash(ty)
            if not ok and p["kind"] == "definition" and e["kind"] == "newtype":
                ie = D.ent(W.deref_box(e["type_id"]))
                ok = ie is not None and ie["kind"] == "native" and squash(ie["type_name"]) == squash(ty)
            if not ok:
                bad("subschema-equal-to-conversion-schema-has-other-type", path=p["path"], schema=p["schema"],
                    conversion=c, entry=e)
        c["sites"] = n_here
    # ---- patch
    for key, p in meta["patch"].items():
        counts["patch_targets"] += 1
        new = p.get("rename") or key
        if MUT == "patch-derives-dropped":
            items = {k: dict(v, derives=[d for d in v["derives"] if d != "PartialEq" or k != new])
                     for k, v in items.items()}
        it = items.get(new)
        ent_new = D.ent(D.named().get(new, -1))
        if ent_new is not None:
            counts["patch_target_kind:%s:%s" % (ent_new["kind"] if ent_new["kind"] != "newtype" else
                                                "newtype-" + ent_new["constraints"]["k"],
                                                "default" if ent_new.get("default") is not None else "nodefault")] += 1
        if MUT == "patch-derives-dropped-with-default" and it is not None and ent_new is not None \
                and ent_new.get("default") is not None and ent_new["kind"] in ("enum", "newtype"):
            it = dict(it, derives=[d for d in it["derives"] if d not in p.get("derives", [])])
        if it is None:
            # a patch whose target is not generated (e.g. an inline type of a replaced definition)
            # is silently ignored, as documented; the target surviving under its OLD name is not
            renamed_keys = {k for k, q in meta["patch"].items() if q.get("rename")}
            requested = {q["rename"] for q in meta["patch"].values() if q.get("rename")}
            unexpected = sorted(set(D.named()) - ((set(B.named()) - renamed_keys) | requested))
            bid = B.named().get(key)
            same_id = D.ent(bid) if bid is not None and not meta["replace"] and not meta["convert"] else None
            if p.get("rename") and (key in items or key in D.named()):
                bad("patched-type-missing-under-new-name", key=key, new=new, theorems=PATCH_THEOREMS)
            elif p.get("rename") and same_id is not None and same_id.get("name") not in (None, new):
                # the type is generated, under a name that is neither the old nor the REQUESTED one
                bad("renamed-item-has-different-name", key=key, requested=new, found=same_id.get("name"),
                    theorems=PATCH_THEOREMS)
            elif p.get("rename") and key in B.named() and unexpected:
                bad("renamed-item-has-different-name", key=key, requested=new, found=unexpected,
                    theorems=PATCH_THEOREMS)
            else:
                counts["patch_target_not_generated"] += 1
            continue
        if p.get("rename"):
            shape = ("non-ascii" if not new.isascii() else "leading-underscore" if new.startswith("_") else
                     "lower-start" if new[:1].islower() else "underscore" if "_" in new else
                     "acronym" if re.match(r"[A-Z]{2,}", new) else "digit" if re.search(r"\d", new) else
                     "single-letter" if len(new) == 1 else "pascal")
            counts["rename_shape:" + shape] += 1
            if MUT == "rename-sanitised" and shape not in ("pascal",):
                bad("renamed-item-has-different-name", key=key, requested=new, found="(emulated) sanitize(%s)" % new,
                    theorems=PATCH_THEOREMS)
        if MUT == "derive-dedup-by-last-segment":
            it = dict(it, derives=emulate_dedup_by_last_segment(it["derives"], set(p.get("derives", [])) | set(meta["derives"])))
        for d in p.get("derives", []):
            if last_segment(d) in BUILTIN_SEGMENTS and "::c14_" in d:
                counts["colliding_patch_derives_checked"] += 1
        miss = [d for d in p.get("derives", []) if d not in it["derives"]]
        if miss:
            bad("patch-derives-missing", key=key, item=new, missing=miss, derives=it["derives"])
        if p.get("rename"):
            counts["patch_renames"] += 1
            # impl / fn bodies mention enum VARIANT identifiers (`Self::Name(..)`): when the old type name is also
            # a variant identifier of some enum (variant named after a title), bodies are not searched
            variant_idents = {v["name"] for it2 in scan.get("items", []) if it2["kind"] == "enum"
                              for v in it2["variants"]}
            occ = name_occurrences(scan, key, bodies=key not in variant_idents)
            if MUT == "rename-missed-at-use" and tys:
                occ = ["(emulated) field type still says " + key]
            if occ:
                bad("old-name-still-present-after-rename", key=key, new=new, where=occ[:5])
            e = D.ent(D.named().get(new, -1))
            if e is None:
                bad("patched-type-missing-in-IR", key=key, new=new)
    # ---- global derives on every generated type
    for it in root_items(scan):
        counts["derive_items"] += 1
        ds = it["derives"]
        if MUT == "global-derive-skips-newtypes" and it["kind"] == "struct" and it["fields"]["k"] == "tuple":
            ds = [d for d in ds if d not in meta["derives"]]
        if MUT == "derive-dedup-by-last-segment":
            ds = emulate_dedup_by_last_segment(ds, set(meta["derives"]) | {d for p in meta["patch"].values()
                                                                          for d in p.get("derives", [])})
        counts["colliding_global_derives_checked"] += len([d for d in meta["derives"]
                                                           if last_segment(d) in BUILTIN_SEGMENTS and "::c14_" in d])
        miss = [d for d in meta["derives"] if d not in ds]
        if miss:
            bad("global-derive-missing", item=it["name"], missing=miss, derives=it["derives"])
    # ---- map type at every map-typed member, and in the is_empty path
    M = squash(meta["map_type"])
    byname = D.named()
    for nm, i in byname.items():
        e = D.ent(i)
        it = items.get(nm)
        if it is None:
            continue
        members = []          # (label, type id, scan type text, serde attrs, optional)
        if e["kind"] == "struct" and it["kind"] == "struct" and it["fields"]["k"] == "named":
            sf = {f["name"]: f for f in it["fields"]["fields"]}
            for p in e["props"]:
                f = sf.get(p["name"]) or sf.get("r#" + p["name"])
                if f:
                    members.append((nm + "." + p["name"], p["type_id"], f["ty"], f["serde"], p["state"]["k"] == "optional"))
        elif e["kind"] == "newtype" and it["kind"] == "struct" and it["fields"]["k"] == "tuple":
            members.append((nm + ".0", e["type_id"], it["fields"]["fields"][0]["ty"], [], False))
        elif e["kind"] == "enum" and it["kind"] == "enum":
            sv = {v["name"]: v for v in it["variants"]}
            for v in e["variants"]:
                x = sv.get(v["ident"])
                d = v["details"]
                if not x:
                    continue
                fl = x["fields"].get("fields", [])
                if d["k"] == "item" and len(fl) == 1:
                    members.append(("%s::%s" % (nm, v["ident"]), d["id"], fl[0]["ty"], [], False))
                elif d["k"] == "tuple" and len(fl) == len(d["ids"]):
                    for t, f in zip(d["ids"], fl):
                        members.append(("%s::%s" % (nm, v["ident"]), t, f["ty"], [], False))
                elif d["k"] == "struct":
                    sf = {f["name"]: f for f in fl}
                    for p in d["props"]:
                        f = sf.get(p["name"]) or sf.get("r#" + p["name"])
                        if f:
                            members.append(("%s::%s.%s" % (nm, v["ident"], p["name"]), p["type_id"], f["ty"],
                                            f["serde"], p["state"]["k"] == "optional"))
        for label, tid, text, serde, optional in members:
            a, b = D.count_maps(tid)
            if a + b == 0:
                continue
            counts["map_members"] += 1
            t = squash(text)
            if MUT == "map-type-ignored-in-values" and t.count(M + "<") > 1:
                t = t.replace(M + "<", "::std::collections::HashMap<", 1) if M != squash(MAP_TYPES[0]) else t
            nj = t.count(JSON_MAP)
            rest = t.replace(JSON_MAP, "")
            nm_cfg = len(re.findall(r"(?<![A-Za-z0-9_:])" + re.escape(M) + "<", rest))
            others = len(re.findall(r"(HashMap|BTreeMap|IndexMap|::serde_json::Map)<", rest)) - nm_cfg
            if nm_cfg != a or nj != b or others != 0:
                bad("map-typed-member-does-not-use-configured-map-type", member=label, type_text=text,
                    expected_map=meta["map_type"], configured_nodes=a, json_map_nodes=b)
            # exact spelling of THIS member, decided from the IR: configured map type and the key type's own
            # name for every Map(key, value) with key != String or value != JsonValue; serde_json::Map only for
            # key == String and value == JsonValue
            want_ty = D.render_ty(tid, M)
            got_ty = squash(text)
            if MUT == "json-map-value-only":
                got_ty = D.render_ty(tid, M, value_only=True)
            for ke, ve in D.map_nodes(tid):
                if ke is None or ve is None:
                    continue
                shape = ("key:%s" % ("string" if ke["kind"] == "string" else "constrained:" + ke["kind"]),
                         "value:%s" % ("any" if ve["kind"] == "json" else "typed"))
                counts["map_node:%s,%s" % shape] += 1
            if want_ty is not None and got_ty != want_ty:
                bad("map-typed-member-not-spelled-as-the-IR-demands", member=label, type_text=text,
                    expected=want_ty, map_type=meta["map_type"],
                    maps=[(ke and ke.get("kind"), ve and ve.get("kind")) for ke, ve in D.map_nodes(tid)])
            te = D.ent(tid)
            if optional and te and te["kind"] == "map":
                counts["map_is_empty_paths"] += 1
                sk = [x[1] for x in serde if x[0] == "skip_serializing_if"]
                want = "::serde_json::Map::is_empty" if D.is_json_map(te) else M + "::is_empty"
                got = squash(sk[0]) if sk else None
                if MUT == "json-map-value-only" and D.ent(te["value"])["kind"] == "json":
                    got = "::serde_json::Map::is_empty"
                if MUT == "is-empty-default-map" and not D.is_json_map(te) and M != squash(MAP_TYPES[0]):
                    got = squash(MAP_TYPES[0]) + "::is_empty"
                if got != want:
                    bad("skip_serializing_if-does-not-use-configured-map-type", member=label, got=got, expected=want)
    return W


# --------------------------------------------------------------------------
# affected / unaffected definitions
# --------------------------------------------------------------------------
def affected_ids(D, meta):
    aff = set()
    tys = {squash(r["type"]) for r in meta["replace"].values()} | {squash(c["type"]) for c in meta["convert"]}
    for dn in meta["replace"]:
        if dn in D.ref:
            aff.add(D.ref[dn])
    for i, e in D.e.items():
        if e["kind"] == "native" and squash(e["type_name"]) in tys:
            aff.add(i)
    return aff


def box_option_reachable(D, i):
    """a Box<Option<T>> node below id i: break_cycles boxed a SHARED Option node (DESIGN 3.7; the
    member then has `#[serde(default)]` only and serialises null).  Whether the Option node is
    shared depends on the whole type space, hence on replace/convert settings: finding C14-F2."""
    for x in D.reach(i):
        e = D.ent(x)
        if e and e["kind"] == "box":
            ie = D.ent(e["id"])
            if ie and ie["kind"] == "option":
                return True
    return False


def unaffected_defs(doc, D, B, meta):
    aff = affected_ids(D, meta)
    out = []
    for dn in sorted(doc.get("definitions", {})):
        if dn not in D.ref or dn not in B.ref or dn in meta["replace"]:
            continue
        if D.reach(D.ref[dn]) & aff:
            continue
        out.append(dn)
    return out


# --------------------------------------------------------------------------
# Coq side
# --------------------------------------------------------------------------
def coq_wire_equiv(tag, jobs, instantiate, timeout=900):
    """jobs: list of (label, base_dump, sigma_dump, [(id0, id1)]).  Evaluates wire_equiv on the two
    real dumps with vm_compute; with `instantiate` the file also contains, per pair, the lemma
    `wire_equiv .. = true` and the corollary obtained from C14_wire_equiv_sound.
    Returns ({(job, k): bool}, ok, detail)."""
    d = os.path.join(vlib.WORK, "cases", tag)
    os.makedirs(d, exist_ok=True)
    for f in os.listdir(d):
        os.unlink(os.path.join(d, f))
    shards = [jobs[i:i + 12] for i in range(0, len(jobs), 12)]
    paths = []
    for k, sh in enumerate(shards):
        p = os.path.join(d, "we_%d.v" % k)
        with open(p, "w") as f:
            f.write(tocoq.COQ_HEADER)
            f.write("From Typify Require Import IR.Serde Check.WireEquiv Props.C14.\nOpen Scope string_scope.\n")
            exprs = []
            for j, (label, b, s, pairs) in enumerate(sh):
                n = k * 12 + j
                f.write("Definition b_%d : space := %s.\nDefinition s_%d : space := %s.\n" % (
                    n, tocoq.cspace(b), n, tocoq.cspace(s)))
                for m, (i0, i1) in enumerate(pairs):
                    exprs.append('(if wire_equiv b_%d %d%%N s_%d %d%%N then "1" else "0")' % (n, i0, n, i1))
            f.write("Definition vcases : list string := [%s]%%list.\n" % "; ".join(exprs))
            f.write("Set Printing Width 1000000.\nSet Printing Depth 1000000.\n")
            f.write('Eval vm_compute in (String.concat "" vcases).\n')
        paths.append(p)
    res = {}
    detail = ""
    ok = True
    from concurrent.futures import ThreadPoolExecutor

    def one(p):
        return vlib.coqc_file(p, timeout)
    with ThreadPoolExecutor(max_workers=vlib.NCPU) as ex:
        outs = list(ex.map(one, paths))
    for k, (sh, (rc, out, err)) in enumerate(zip(shards, outs)):
        m = re.search(r'= "([01]*)"', out)
        if rc != 0 or not m:
            ok = False
            detail += (out + err)[-1500:]
            continue
        bits = m.group(1)
        pos = 0
        for j, (label, b, s, pairs) in enumerate(sh):
            for mth in range(len(pairs)):
                res[(k * 12 + j, mth)] = bits[pos] == "1"
                pos += 1
    inst_ok, inst_detail, n_inst = True, "", 0
    if instantiate and ok:
        ipaths = []
        for k, sh in enumerate(shards):
            p = os.path.join(d, "inst_%d.v" % k)
            with open(p, "w") as f:
                f.write(tocoq.COQ_HEADER)
                f.write("From Typify Require Import IR.Serde Check.WireEquiv Props.C14.\n")
                for j, (label, b, s, pairs) in enumerate(sh):
                    n = k * 12 + j
                    if not any(res.get((n, m)) for m in range(len(pairs))):
                        continue
                    f.write("Definition b_%d : space := %s.\nDefinition s_%d : space := %s.\n" % (
                        n, tocoq.cspace(b), n, tocoq.cspace(s)))
                    for m, (i0, i1) in enumerate(pairs):
                        if not res.get((n, m)):
                            continue
                        f.write("Lemma we_%d_%d : wire_equiv b_%d %d%%N s_%d %d%%N = true.\n"
                                "Proof. vm_compute. reflexivity. Qed.\n"
                                "Definition all_%d_%d := fun re_match native_ok => "
                                "C14_wire_equiv_sound re_match native_ok b_%d s_%d %d%%N %d%%N we_%d_%d.\n"
                                % (n, m, n, i0, n, i1, n, m, n, n, i0, i1, n, m))
                        n_inst += 1
            ipaths.append(p)
        with ThreadPoolExecutor(max_workers=vlib.NCPU) as ex:
            for rc, out, err in ex.map(one, ipaths):
                if rc != 0:
                    inst_ok = False
                    inst_detail += (out + err)[-1500:]
    return res, ok, detail, inst_ok, inst_detail, n_inst


def coq_model_views(tag, gens):
    """Evaluate the Gallina model (type_ident per member, skip path, derives) on the dumps.
    Returns list (per gen) of parsed JSON."""
    exprs = []
    for g in gens:
        exprs.append("(show_settings_view %s)" % tocoq.cspace(g["dump"]))
    header = tocoq.COQ_HEADER + "From Typify Require Import Algo.Emit Algo.SettingsModel.\nOpen Scope string_scope.\n"
    out = vlib.coq_eval_strings(tag, header, exprs, shard=6, timeout=900)
    return [json.loads(x) for x in out]


def scan_settings_view(g):
    """The same view from the syn scan: per named root item, derives and member types/skip paths."""
    scan = g["render"]["scan"]
    D = Dump(g["dump"])
    items = {it["name"]: it for it in root_items(scan)}
    out = []
    for i in sorted(D.e):
        e = D.e[i]
        nm = D.name(i)
        if not nm or nm not in items:
            continue
        it = items[nm]
        mem = []
        if it["kind"] == "struct":
            for f in it["fields"].get("fields", []):
                sk = [x[1] for x in f.get("serde", []) if x[0] == "skip_serializing_if"]
                mem.append([squash(f["ty"]), squash(sk[0]) if sk else ""])
        else:
            for v in it["variants"]:
                for f in v["fields"].get("fields", []):
                    sk = [x[1] for x in f.get("serde", []) if x[0] == "skip_serializing_if"]
                    mem.append([squash(f["ty"]), squash(sk[0]) if sk else ""])
        out.append({"name": nm, "derives": it["derives"], "members": mem})
    return out


# --------------------------------------------------------------------------
# behaviour vectors
# --------------------------------------------------------------------------
def instances_for(seed, doc, name, n_inst):
    ref = {"$ref": "#/definitions/" + name}
    out, seen = [], set()

    def add(v):
        k = json.dumps(v, sort_keys=True)
        if len(k) < 2000 and k not in seen:
            seen.add(k)
            out.append(v)
    try:
        I = schemagen.Inst(seed, doc)
        for n in range(n_inst):
            v = I.gen(ref, minimal=(n == 0))
            add(v)
            for bv in schemagen.boundary_variants(seed + n, doc, ref, v)[:3]:
                add(bv)
            for kind, mv in schemagen.mutants(seed + n, doc, ref, v)[:8]:
                add(mv)
    except Exception:  # noqa  (fixtures outside the grammar: best effort)
        pass
    for v in (None, 0, "x", [], {}, {"__extra__": 1}):
        add(v)
    return out


def safe_query(w, reqs, chunk=400):
    """w.query, but a driver crash (stack overflow of a generated Deserialize on a type that is
    its own Option/Box/newtype) only costs the offending request."""
    try:
        return w.query(reqs)
    except RuntimeError:
        pass
    out = []
    for k in range(0, len(reqs), chunk):
        part = reqs[k:k + chunk]
        try:
            out += w.query(part)
        except RuntimeError:
            if len(part) == 1:
                out.append({"crash": True})
            else:
                out += safe_query(w, part, max(1, len(part) // 8))
    return out


def transparent_cycle(D, i):
    """does deserialising type i re-enter type i without consuming input (Option / Box / newtype /
    untagged variant / flattened member)?  Such a type overflows the stack on a mismatching input."""
    def edges(x):
        e = D.ent(x)
        if e is None:
            return []
        k = e["kind"]
        if k in ("option", "box"):
            return [e["id"]]
        if k == "newtype":
            return [e["type_id"]]
        if k == "enum" and e["tag"]["k"] == "untagged":
            return [v["details"]["id"] for v in e["variants"] if v["details"]["k"] == "item"]
        if k == "struct":
            return [p["type_id"] for p in e["props"] if p["rename"]["k"] == "flatten"]
        return []
    seen, st = set(), list(edges(i))
    while st:
        x = st.pop()
        if x == i:
            return True
        if x in seen:
            continue
        seen.add(x)
        st += edges(x)
    return False


def canon_answer(o):
    if "ok" in o:
        return ("ok", json.dumps(o["ok"], sort_keys=True))
    if "err" in o:
        return ("err",)
    return ("other", json.dumps(o, sort_keys=True)[:200])


# --------------------------------------------------------------------------
# ---- position-complete annotation sprinkling for conversion schemas
ANNOTATION_SETS = [{"description": "annotated occurrence"}, {"title": "Annotated Occurrence"}, {"default": 1},
                   {"examples": [1, "x"]}, {"readOnly": True}, {"writeOnly": True}, {"deprecated": True},
                   {"$id": "urn:c14:occurrence"}]
ALL_ANNOTATIONS = {k: v for a in ANNOTATION_SETS for k, v in a.items()}

# conversion schemas of every shape; between them every subschema position of the schemars AST occurs:
# properties.*, additionalProperties, propertyNames, patternProperties.*, items (single, tuple), additionalItems,
# contains, allOf / anyOf / oneOf members, not  (if/then/else: the harness cannot run them, see notes)
CONV_SHAPES = {
    "Scalar": {"type": "string", "format": "date"},
    "ObjProps": {"type": "object", "properties": {"a": {"type": "string"},
                                                 "b": {"type": "array", "items": {"type": "integer"}}},
                 "required": ["a"]},
    "Keyed": {"type": "object", "propertyNames": {"type": "string", "pattern": "^k"},
              "additionalProperties": {"type": "integer"}},
    "KeyedAny": {"type": "object", "propertyNames": {"pattern": "^[a-z]+$"}},
    "PatProps": {"type": "object", "patternProperties": {"^x": {"type": "string"}}, "additionalProperties": False},
    "Array": {"type": "array", "items": {"type": "object", "properties": {"q": {"type": "boolean"}}}},
    "Tuple": {"type": "array", "items": [{"type": "string"}, {"type": "integer"}],
              "additionalItems": {"type": "boolean"}, "minItems": 2},
    "Contains": {"type": "array", "contains": {"type": "integer"}},
    "Nested": {"type": "object", "properties": {"o": {"type": "object", "properties": {
        "i": {"type": "object", "propertyNames": {"maxLength": 3}, "additionalProperties": {"type": "string"}}}}}},
    "AllOf": {"allOf": [{"type": "object", "properties": {"m": {"type": "string"}}},
                        {"type": "object", "properties": {"n": {"type": "integer"}}}]},
    "AnyOf": {"anyOf": [{"type": "string"}, {"type": "integer"}]},
    "OneOf": {"oneOf": [{"type": "object", "properties": {"A": {"type": "integer"}}, "required": ["A"]},
                        {"type": "null"}]},
    "Not": {"type": "string", "not": {"enum": ["bad"]}},
}


def ann_positions(s, path=()):
    """paths of every subschema (dict) position inside schema s, the root included"""
    out = [path]
    if not isinstance(s, dict):
        return []
    for k, v in s.items():
        if k in ("properties", "patternProperties") and isinstance(v, dict):
            for n in sorted(v):
                out += ann_positions(v[n], path + (k, n))
        elif k in SUBSCHEMA_KEYS and isinstance(v, dict):
            out += ann_positions(v, path + (k,))
        elif k in ("items", "allOf", "anyOf", "oneOf") and isinstance(v, list):
            for i, x in enumerate(v):
                out += ann_positions(x, path + (k, i))
    return out


def annotate_at(s, path, ann):
    s = copy.deepcopy(s)
    cur = s
    for k in path:
        cur = cur[k]
    for k, v in ann.items():
        cur.setdefault(k, copy.deepcopy(v))
    return s


def occurrences_holder(shape):
    """an object definition with one property per subschema position of `shape`, carrying an annotation there
    (the kinds of annotation rotate over the positions), plus one occurrence annotated EVERYWHERE with everything"""
    props = {}
    poss = ann_positions(shape)
    for k, pth in enumerate(poss):
        props["o%d" % k] = annotate_at(shape, pth, ANNOTATION_SETS[k % len(ANNOTATION_SETS)])
        props["t%d" % k] = annotate_at(shape, pth, ANNOTATION_SETS[(k + 1) % 2])       # description / title
    everything = shape
    for pth in poss:
        everything = annotate_at(everything, pth, ALL_ANNOTATIONS)
    props["all"] = everything
    return {"type": "object", "properties": props}, len(poss)


def conv_position_case(doc, shapes):
    """(document', settings, meta): `doc` plus one holder definition per conversion schema"""
    d2 = copy.deepcopy(doc)
    conv, meta_conv = [], []
    for name, sh in shapes.items():
        holder, n = occurrences_holder(sh)
        d2.setdefault("definitions", {})["C14Occ" + name] = holder
        conv.append({"schema": copy.deepcopy(sh), "type": "::serde_json::Value", "impls": []})
        meta_conv.append({"schema": strip_meta(sh), "type": "::serde_json::Value", "impls": [], "positions": n})
    st = {"convert": conv}
    return d2, st, {"replace": {}, "convert": meta_conv, "patch": {}, "derives": [], "map_type": MAP_TYPES[0]}


KEY_SHAPES = [None, {"pattern": "^[a-z]+$"}, {"$ref": "#/definitions/C14Key"}, {"enum": ["ka", "kb"]},
              {"format": "uuid"}, {"type": "string", "maxLength": 4}]
VALUE_SHAPES = ["absent", True, {}, {"type": "integer"}, {"type": "string", "maxLength": 3}, "ref"]


def map_schema(rnd, doc, key=Ellipsis, value=Ellipsis):
    key = rnd.choice(KEY_SHAPES) if key is Ellipsis else key
    value = rnd.choice(VALUE_SHAPES) if value is Ellipsis else value
    m = {"type": "object"}
    if key is not None:
        m["propertyNames"] = copy.deepcopy(key)
        if "$ref" in key:
            doc["definitions"].setdefault("C14Key", {"type": "string", "pattern": "^k"})
    if value == "ref":
        names = [n for n in sorted(doc["definitions"]) if n != "C14Key"]
        value = {"$ref": "#/definitions/" + rnd.choice(names)} if names else {"type": "boolean"}
    if value != "absent":
        m["additionalProperties"] = copy.deepcopy(value)
    return m


def add_map_shapes(rnd, doc):
    """maps with constrained KEYS (propertyNames) and any / typed values at the places a map can occur:
    existing map schemas get propertyNames, and one holder definition shows the map as required member,
    optional member, item, Option inner, definition root and flattened additionalProperties"""
    defs = doc["definitions"]

    def rec(s, depth=0):
        if not isinstance(s, dict) or depth > 10:
            return
        if s.get("type") == "object" and "properties" not in s and "additionalProperties" in s \
                and "propertyNames" not in s and rnd.random() < 0.5:
            k = rnd.choice(KEY_SHAPES[1:])
            s["propertyNames"] = copy.deepcopy(k)
            if "$ref" in k:
                defs.setdefault("C14Key", {"type": "string", "pattern": "^k"})
            x = rnd.random()
            if x < 0.25:
                s.pop("additionalProperties")
            elif x < 0.4:
                s["additionalProperties"] = True
            elif x < 0.5:
                s["additionalProperties"] = {}
        for v in list(s.values()):
            if isinstance(v, dict):
                rec(v, depth + 1)
                for vv in v.values():
                    rec(vv, depth + 1)
            elif isinstance(v, list):
                for vv in v:
                    rec(vv, depth + 1)
    for n in sorted(defs):
        rec(defs[n])
    if rnd.random() < 0.7:
        key = rnd.choice(KEY_SHAPES[1:])
        val = rnd.choice(["absent", True, {}])
        m = lambda: map_schema(rnd, doc, key, val)
        defs["C14MapRoot"] = m()
        holder = {"type": "object", "properties": {"req": m(), "opt": m(), "vec": {"type": "array", "items": m()},
                                                   "nul": {"oneOf": [m(), {"type": "null"}]},
                                                   "other": map_schema(rnd, doc)}, "required": ["req"]}
        defs["C14MapHolder"] = holder
        flat = map_schema(rnd, doc, key, rnd.choice([{}, {"type": "integer"}]))
        flat["properties"] = {"named": {"type": "string"}}
        defs["C14MapFlat"] = flat


def add_type_defaults(rnd, doc):
    """a valid `default` annotation on definitions that become string enums, integer-enum newtypes and
    constrained-string newtypes (typify records it on the named type: convert_ref_type / id_for_schema)"""
    if rnd.random() < 0.7:
        vals = rnd.sample(["red", "green", "blue", "x-y", "UP"], 3)
        doc["definitions"]["C14EnumDflt"] = {"type": "string", "enum": vals, "default": rnd.choice(vals)}
        pat = rnd.choice(sorted(schemagen.PAT_SAMPLES))
        doc["definitions"]["C14StrDflt"] = rnd.choice([
            {"type": "string", "pattern": pat, "default": schemagen.PAT_SAMPLES[pat][0][0]},
            {"type": "string", "minLength": 1, "maxLength": 6, "default": "abc"}])
        doc["definitions"]["C14DfltUser"] = {"type": "object", "properties": {
            "e": {"$ref": "#/definitions/C14EnumDflt"}, "s": {"$ref": "#/definitions/C14StrDflt"},
            "list": {"type": "array", "items": {"$ref": "#/definitions/C14EnumDflt"}}}, "required": ["e"]}
    for n in sorted(doc["definitions"]):
        s = doc["definitions"][n]
        if not isinstance(s, dict) or "default" in s or rnd.random() > 0.6:
            continue
        t = s.get("type")
        if t in ("string", "integer") and isinstance(s.get("enum"), list) and s["enum"]:
            s["default"] = s["enum"][0]
        elif t == "string" and "pattern" in s and s["pattern"] in schemagen.PAT_SAMPLES and "enum" not in s:
            s["default"] = schemagen.PAT_SAMPLES[s["pattern"]][0][0]
        elif t == "string" and ("maxLength" in s or "minLength" in s) and "format" not in s and "enum" not in s:
            v = "a" * max(s.get("minLength", 0), 1)
            if len(v) <= s.get("maxLength", 99):
                s["default"] = v


def load_docs(ctx):
    quick = ctx.tier == "quick"
    docs = []
    for p in sorted(glob.glob(os.path.join(CORPUS, "*.json"))):
        c = json.load(open(p))
        docs.append({"src": "corpus:" + os.path.basename(p), "doc": c["doc"], "fixed_settings": c.get("settings"),
                     "expect": c.get("expect"), "scan_only": bool(c.get("scan_only")),
                     "extra_steps": c.get("extra_steps") or []})
    for fx in (FIXTURES_QUICK if quick else FIXTURES_THOROUGH):
        p = os.path.join(FIXTURE_DIR, fx)
        if os.path.exists(p):
            docs.append({"src": "fixture:" + fx, "doc": json.load(open(p))})
    n_gen = 9 if quick else 60
    for k in range(n_gen):
        g = schemagen.Gen(ctx.seed * 1000003 + 140000 + k)
        doc, tags = g.doc()
        # annotations on some occurrences: the conversion lookup must ignore them
        rnd = random.Random(ctx.seed * 31 + k)
        for pth, s in type_positions(doc):
            if isinstance(s, dict) and rnd.random() < 0.25 and "$ref" not in s:
                s["description"] = "occurrence at " + pth
        add_map_shapes(rnd, doc)
        add_type_defaults(rnd, doc)
        dnames = sorted(doc["definitions"])
        for dn in dnames:
            s = doc["definitions"][dn]
            if not isinstance(s, dict) or ("$ref" in s and len(s) == 1):
                continue
            x = rnd.random()
            if x < 0.2:
                s["title"] = "a hand rolled thing %d" % k          # sanitises to a name no definition has
            elif x < 0.3:
                s["title"] = dn                                     # = its own name
            elif x < 0.45 and len(dnames) > 1:
                s["title"] = rnd.choice([n for n in dnames if n != dn])   # = another definition's name
            elif x < 0.6:
                s["description"] = "definition " + dn
        docs.append({"src": "grammar:%d" % k, "doc": doc, "tags": tags})
    return docs


def run(ctx):
    # two C14 runs share the world name and the Coq case directories: serialise them
    with vlib.Lock("c14-run"):
        _run(ctx)


def _run(ctx):
    ctx.level = "proof"
    quick = ctx.tier == "quick"
    ctx.checker_cmd = ("make theories/Props/C14.vo; coqc work/cases/c14we_%s/*.v (wire_equiv on the real dumps + "
                       "instantiated C14_wire_equiv_sound); bin/check C14" % ctx.tier)
    ctx.trusted = [
        "Coq 8.16.1 kernel + vm_compute",
        "IR/Serde.v as the meaning of serde on generated types (shared model, K5-tied to compiled code by C02/C03)",
        "py/tocoq.py cspace (IR dump -> Gallina space), verif_dump hook, syn scan of the emitted code (harness)",
        "py/props/c14.py: schema-directed walk of the IR (pairs a subschema with the type id typify gave it)",
        "section variables of IR/Serde.v: re_match, native_ok (wire_equiv_sound holds for every instance of them)",
        "Gen/DeriveTable.v regenerated by C19's translator (derive lists)",
    ]
    ctx.assumptions = [
        "'ignoring annotations' = title, description, default, deprecated, readOnly, writeOnly, examples, $id of the "
        "subschema AND of every nested subschema (conversions.rs strips them at every depth since fix a0b7480)",
        "conversion / replacement use sites = positions where typify needs a type (property, item, tuple member, "
        "variant payload, map value, Option inner, definition); allOf members are merged, not referenced",
        "replacement, conversion and per-type derive choices are drawn from std types / derives that rustc accepts; "
        "modules that fail with a derive error (E0277/E0369..) are C19's subject and are skipped here",
        "wire_equiv requires equal Rust FIELD identifiers (they occur in Serde.v's rval); settings never change them",
    ]
    vlib.build_harness(bins=("vh",))
    rnd = random.Random(ctx.seed * 7919 + 14)
    docs = load_docs(ctx)

    # ---- phase 1: default settings (no code) to learn the names
    base0 = vlib.run_vh("gen", [dict(case_of(d["doc"], None, d.get("extra_steps")), code=False) for d in docs])
    n_sig = 3 if quick else 4
    cases, metas, owner, kinds = [], [], [], []
    so = []            # scan-only stream: (document index, settings, meta) — never compiled (marker derives)
    for di, (d, g) in enumerate(zip(docs, base0)):
        cases.append(case_of(d["doc"], None, d.get("extra_steps")))
        metas.append(None)
        owner.append(di)
        kinds.append("base")
        if not gen_ok(g) and not d.get("scan_only"):
            continue
        if d.get("fixed_settings") is not None:
            fixed = d["fixed_settings"]
            if quick and len(d["doc"].get("definitions", {})) > 50:
                fixed = fixed[::2]          # large curated documents: every other assignment in the quick tier
            for fs in fixed:
                if d.get("scan_only"):
                    gb = g if gen_ok(g) else {"dump": {"entries": {}, "ref_to_id": {}}}
                    so.append((di, fs, meta_from_settings(d["doc"], gb, fs), None))
                    continue
                cases.append(case_of(d["doc"], fs, d.get("extra_steps")))
                metas.append(meta_from_settings(d["doc"], g, fs))
                owner.append(di)
                kinds.append("sigma")
            continue
        # scan-only: EVERY named type of the document (definitions and inline types, every kind, with and
        # without a schema default) patched with a marker derive, a third of them renamed too
        names = Dump(g["dump"]).named()
        if names:
            pm = {}
            coll = colliding_markers(g)
            taken_names = set(names)
            for nm in sorted(names):
                pm[nm] = {"rename": None, "derives": [MARK] + rnd.sample(coll, 3)}
                if rnd.random() < 0.3:
                    pm[nm]["rename"] = rename_target(rnd, nm, taken_names, scan_only=True)
            st = {"patch": {k: {kk: vv for kk, vv in v.items() if vv} for k, v in pm.items()}}
            x = rnd.random()
            if x < 0.4:
                st["derives"] = [MARK2] + rnd.sample(colliding_markers(g, "::c14_global::"), 4)
            elif x < 0.7:
                st["derives"] = colliding_markers(g, "::c14_global::")
            so.append((di, st, {"replace": {}, "convert": [], "patch": pm, "derives": st.get("derives", []),
                                "map_type": MAP_TYPES[0]}, None))
        # scan-only: position-complete annotations for a conversion schema taken from the document and for one of
        # the curated shapes (own document: the holder definitions are added)
        tp = [sx for _, sx in type_positions(d["doc"]) if isinstance(sx, dict) and len(ann_positions(strip_meta(sx))) > 1
              and "$ref" not in json.dumps(sx) and not isinstance(sx.get("type"), list)]
        shapes = {}
        if tp:
            shapes["FromDoc"] = deep_strip(rnd.choice(tp))
        nm = rnd.choice(sorted(CONV_SHAPES))
        shapes[nm] = CONV_SHAPES[nm]
        d2, st2, meta2 = conv_position_case(d["doc"], shapes)
        so.append((di, st2, meta2, d2))
        forces = [{"replace", "map"}, {"convert", "map", "derives"}, {"patch", "builder"}]
        for k in range(n_sig):
            st, meta = pick_settings(rnd, d["doc"], g, force=forces[k] if k < len(forces) and rnd.random() < 0.5 else None)
            if not st:
                continue
            cases.append(case_of(d["doc"], st))
            metas.append(meta)
            owner.append(di)
            kinds.append("sigma")
    ctx.log("documents: %d, modules: %d" % (len(docs), len(cases)))
    w = world.World(ctx, "c14-" + ctx.tier, cases)
    w.build()
    base_idx = {owner[i]: i for i in range(len(cases)) if kinds[i] == "base"}

    counts = collections.Counter()
    viol = []
    skipped = collections.Counter()
    LISTED = {f["class"] for f in ctx.findings_for()}
    sig_ok = []
    for i in range(len(cases)):
        if kinds[i] != "sigma":
            continue
        b = base_idx[owner[i]]
        g, gb = w.gen[i], w.gen[b]
        if not gen_ok(gb):
            skipped["base-not-generated"] += 1
            continue
        if not gen_ok(g):
            skipped["rejected-under-sigma"] += 1
            counts["sigma_rejected"] += 1
            continue
        counts["sigma_modules"] += 1
        st = cases[i]["settings"]
        for k in st:
            counts["setting:" + k] += 1
        if st.get("map_type"):
            counts["map_type:" + st["map_type"]] += 1
        nv = len(viol)
        try:
            check_syntactic(docs[owner[i]]["doc"], st, metas[i], g, gb, viol, counts)
        except Exception as e:  # noqa
            import traceback
            ctx.oblige("syntactic evaluation ran on module %d" % i, False, traceback.format_exc()[-1500:])
        for v in viol[nv:]:
            v["src"] = docs[owner[i]]["src"]
        sig_ok.append(i)
        ctx.nontrivial.add(json.dumps([st, docs[owner[i]]["src"]], sort_keys=True))
    ctx.evaluations += counts["sigma_modules"]

    # ---- compile status: a sigma module must compile when the default one does
    comp_bad = []
    for i in sig_ok:
        b = base_idx[owner[i]]
        if w.status[b] == "ok" and w.status[i] == "compile-error":
            codes = {e[0] for e in w.compile_errors.get(i, [])}
            msgs = " ".join(str(e[1]) for e in w.compile_errors.get(i, []))
            if codes == {"E0119"} and "TryFrom<std::string::String>" in msgs:
                # newtype around a replacement / conversion type `String` declared FromStr: typify emits
                # both From<String> and TryFrom<String> (a C01 / C17 matter, reported in notes/C14.md)
                skipped["string-native-declared-FromStr-E0119"] += 1
            elif codes and codes <= DERIVE_ERROR_CODES:
                skipped["sigma-derive-not-derivable"] += 1
            else:
                comp_bad.append({"kind": "module-under-settings-does-not-compile", "settings": cases[i]["settings"],
                                 "document": docs[owner[i]]["doc"], "errors": w.compile_errors.get(i, [])[:4],
                                 "src": docs[owner[i]]["src"]})
    ctx.oblige("every module generated under a settings assignment compiles when the default one does (%d modules)"
               % len(sig_ok), not comp_bad, json.dumps(comp_bad[:2])[:1500])

    # ---- builder flag: the IR is identical up to the settings record
    flips = []
    for i in sig_ok + [base_idx[o] for o in sorted(base_idx)]:
        st = dict(cases[i]["settings"])
        st["struct_builder"] = not st.get("struct_builder", False)
        flips.append((i, dict(case_of(docs[owner[i]]["doc"], st, docs[owner[i]].get("extra_steps")), code=False)))
    fl_res = vlib.run_vh("gen", [c for _, c in flips]) if flips else []
    bf_bad = []
    for (i, c), r in zip(flips, fl_res):
        if not gen_ok(w.gen[i]):
            continue
        counts["builder_flips"] += 1
        a = copy.deepcopy(w.gen[i]["dump"])
        b = copy.deepcopy(r.get("dump") or {})
        if MUT == "builder-changes-ir" and b.get("entries"):
            k0 = sorted(b["entries"])[0]
            b["entries"][k0]["extra_derives"] = ["X"]
        for x in (a, b):
            if "settings" in x:
                x["settings"].pop("struct_builder", None)
        if a != b or not gen_ok(r):
            bf_bad.append({"kind": "builder-flag-changes-the-type-space", "settings": cases[i]["settings"],
                           "document": docs[owner[i]]["doc"]})
    ctx.oblige("builder flag: IR dump identical up to the settings record (%d pairs)" % counts["builder_flips"],
               not bf_bad, json.dumps(bf_bad[:1])[:1200])

    # ---- IndexMap spelled syntactically (no crate in the world: scan only)
    im_cases, im_meta = [], []
    for o in sorted(base_idx)[: (6 if quick else 30)]:
        if not gen_ok(w.gen[base_idx[o]]):
            continue
        if '"map"' not in json.dumps([e["kind"] for e in w.gen[base_idx[o]]["dump"]["entries"].values()]):
            continue
        st = {"map_type": INDEXMAP}
        im_cases.append(dict(case_of(docs[o]["doc"], st, docs[o].get("extra_steps")), code=False))
        im_meta.append((o, st))
    if im_cases:
        for (o, st), r in zip(im_meta, vlib.run_vh("gen", im_cases)):
            if not gen_ok(r):
                continue
            counts["indexmap_modules"] += 1
            meta = {"replace": {}, "convert": [], "patch": {}, "derives": [], "map_type": INDEXMAP}
            nv = len(viol)
            check_syntactic(docs[o]["doc"], st, meta, r, w.gen[base_idx[o]], viol, counts)
            for v in viol[nv:]:
                v["src"] = docs[o]["src"]

    # ---- scan-only stream (marker derives on every kind of named type; defaults present / absent)
    so_gens = []
    if so:
        res = vlib.run_vh("gen", [dict(case_of(dx if dx is not None else docs[o]["doc"], st, docs[o].get("extra_steps")),
                                       code=False) for o, st, _, dx in so])
        for (o, st, meta, dx), r in zip(so, res):
            gb = w.gen[base_idx[o]]
            if dx is not None or not gen_ok(gb):
                gb = r       # own document / default run rejected (exotic keywords): no default-settings twin
            if not gen_ok(r):
                skipped["scan-only-not-generated"] += 1
                if any("positions" in c for c in meta["convert"]):
                    # every occurrence should have been converted, so nothing in them can be rejected: find the
                    # occurrence(s) responsible, one document per occurrence
                    full = dx if dx is not None else docs[o]["doc"]
                    singles = []
                    for hn in sorted(full["definitions"]):
                        if not hn.startswith("C14Occ"):
                            continue
                        for pn in sorted(full["definitions"][hn]["properties"]):
                            d1 = {"definitions": {k: v for k, v in full["definitions"].items() if not k.startswith("C14Occ")}}
                            d1["definitions"][hn] = {"type": "object", "properties": {pn: full["definitions"][hn]["properties"][pn]}}
                            singles.append(d1)
                    singles = singles[:120]
                    found = False
                    for d1, r1 in zip(singles, vlib.run_vh("gen", [dict(case_of(d1, st), code=False) for d1 in singles])):
                        if gen_ok(r1):
                            nv = len(viol)
                            check_syntactic(d1, st, meta, r1, r1, viol, counts)
                        else:
                            nv = len(viol)
                            viol.append({"kind": "occurrence-of-conversion-schema-rejected-instead-of-converted",
                                         "settings": st, "document": d1, "steps": r1.get("steps")})
                        for v in viol[nv:]:
                            v["src"] = docs[o]["src"]
                            found = True
                    if not found:
                        viol.append({"kind": "document-with-converted-occurrences-rejected", "settings": st,
                                     "document": full, "src": docs[o]["src"], "steps": r.get("steps")})
                continue
            counts["scan_only_modules"] += 1
            nv = len(viol)
            before = counts["convert_sites"]
            check_syntactic(dx if dx is not None else docs[o]["doc"], st, meta, r, gb, viol, counts)
            want = sum(2 * c["positions"] + 1 for c in meta["convert"] if "positions" in c)
            if want:
                counts["annotated_occurrences_expected"] += want
                counts["annotated_occurrences_reached"] += counts["convert_sites"] - before
                if counts["convert_sites"] - before < want:
                    viol.append({"kind": "annotated-occurrences-not-reached-by-the-walk", "settings": st,
                                 "document": dx if dx is not None else docs[o]["doc"], "src": docs[o]["src"],
                                 "expected": want, "reached": counts["convert_sites"] - before})
            for v in viol[nv:]:
                v["src"] = docs[o]["src"]
            so_gens.append((st, r))
            ctx.nontrivial.add(json.dumps([st, docs[o]["src"]], sort_keys=True))
        ctx.evaluations += counts["scan_only_modules"]

    # ---- behavioural obligation on compiled code
    n_inst = 2 if quick else 4
    reqs, keys = [], []
    unaff = {}
    f2_defs = {}
    for i in sig_ok:
        b = base_idx[owner[i]]
        if w.status[i] != "ok" or w.status[b] != "ok":
            continue
        doc = docs[owner[i]]["doc"]
        D, B = Dump(w.gen[i]["dump"]), Dump(w.gen[b]["dump"])
        un = unaffected_defs(doc, D, B, metas[i])
        f2 = [dn for dn in un if box_option_reachable(D, D.ref[dn]) != box_option_reachable(B, B.ref[dn])]
        # Box<Option<T>> vs Option<Box<T>> (which Option node is shared depends on the settings): equal on the
        # wire since fix b9da3ef, so these definitions stay in the compiled comparison; the structural
        # validator cannot identify the two shapes and skips them (C14_box_option_incomplete)
        counts["box_option_shape_differs"] += len(f2)
        f2_defs[i] = set(f2)
        unaff[i] = un
        counts["unaffected_definitions"] += len(un)
        counts["affected_definitions"] += len(doc.get("definitions", {})) - len(un)
        for dn in un:
            tn, tb = D.name(D.ref[dn]), B.name(B.ref[dn])
            if not tn or not tb:
                continue
            if any(transparent_cycle(D, x) for x in D.reach(D.ref[dn])):
                skipped["transparent-recursive-type"] += 1
                continue
            for v in instances_for(ctx.seed * 7919 + owner[i], doc, dn, n_inst):
                txt = json.dumps(v)
                reqs.append({"m": i, "t": tn, "op": "de", "input": txt})
                reqs.append({"m": b, "t": tb, "op": "de", "input": txt})
                keys.append((i, dn, v))
    outs = safe_query(w, reqs) if reqs else []
    beh_bad = []
    acc = collections.Counter()
    for n, (i, dn, v) in enumerate(keys):
        a, b = canon_answer(outs[2 * n]), canon_answer(outs[2 * n + 1])
        if MUT == "behaviour-differs" and n == 7:
            a = ("err",)
        acc[b[0]] += 1
        if a != b:
            beh_bad.append({"kind": "unaffected-type-behaves-differently", "settings": cases[i]["settings"],
                            "document": docs[owner[i]]["doc"], "definition": dn, "instance": v,
                            "under_settings": outs[2 * n], "under_default": outs[2 * n + 1],
                            "src": docs[owner[i]]["src"]})
    ctx.evaluations += len(keys)
    counts["behaviour_pairs"] = len(keys)
    ctx.coverage["behaviour_answers_default"] = dict(acc)
    ctx.oblige("compiled behaviour: unaffected definitions answer identically under settings and under default "
               "(%d (type, instance) pairs, %d definitions)" % (len(keys), counts["unaffected_definitions"]),
               not [v for v in beh_bad if v["kind"] not in LISTED], json.dumps(beh_bad[:2])[:1500])

    # ---- Coq: theorems, wire_equiv on the real dumps, model correspondence
    coq_ok = False
    if not os.environ.get("C14_SKIP_COQ"):
        coq_ok = vlib.standard_coq_obligations(ctx, "Props.C14", THEOREMS, vlib.STD_AXIOMS)
        # "everywhere" with the schema quantifier closed on the converter fragment (Props/C14F.v over
        # Algo/ConvertS.v: replace / convert / patch in the converter model, tied to the real converter under
        # settings by K3 exact term equality)
        import convert_check
        convert_check.convert_obligations(ctx, "C14")
    we_bad = []
    if coq_ok:
        jobs, jidx = [], []
        for i in sig_ok:
            b = base_idx[owner[i]]
            if not gen_ok(w.gen[b]):
                continue
            doc = docs[owner[i]]["doc"]
            D, B = Dump(w.gen[i]["dump"]), Dump(w.gen[b]["dump"])
            un = unaff.get(i)
            if un is None:
                un = unaffected_defs(doc, D, B, metas[i])
            if not un:
                continue
            un = [dn for dn in un if dn not in f2_defs.get(i, ())]
            if not un:
                continue
            pairs = [(B.ref[dn], D.ref[dn]) for dn in un]
            if MUT == "wire-equiv-cross" and len(pairs) > 1:
                pairs[0] = (pairs[0][0], pairs[1][1])
            jobs.append((str(i), w.gen[b]["dump"], w.gen[i]["dump"], pairs))
            jidx.append((i, un))
        if not quick or True:
            try:
                res, ok, detail, iok, idetail, n_inst_thm = coq_wire_equiv("c14we_" + ctx.tier, jobs, True)
                if "inconsistent assumptions" in (detail + idetail):
                    # another check regenerated a Gen/*.v table between our build and this evaluation: rebuild, retry
                    vlib.coq_make(["theories/Props/C14.vo"])
                    res, ok, detail, iok, idetail, n_inst_thm = coq_wire_equiv("c14we_" + ctx.tier, jobs, True)
                ctx.oblige("wire_equiv evaluates on the real dumps (%d document x settings pairs)" % len(jobs), ok, detail)
                n_true = 0
                for j, (i, un) in enumerate(jidx):
                    for m, dn in enumerate(un):
                        if res.get((j, m)):
                            n_true += 1
                        elif (j, m) in res:
                            we_bad.append({"kind": "wire_equiv-false-on-unaffected-definition",
                                           "settings": cases[i]["settings"], "document": docs[owner[i]]["doc"],
                                           "definition": dn, "src": docs[owner[i]]["src"]})
                counts["wire_equiv_true"] = n_true
                ctx.evaluations += len(res)
                ctx.oblige("validator: wire_equiv(default IR, IR under settings) = true for all %d unaffected "
                           "definitions (Box<Option>/Option<Box> shape changes apart)" % len(res),
                           not [v for v in we_bad if v["kind"] not in LISTED], json.dumps(we_bad[:2])[:1500])
                ctx.oblige("kernel accepts `forall f v, de/ser agree` for %d (definition, settings) pairs "
                           "(C14_wire_equiv_sound instantiated on the real dumps)" % n_inst_thm, iok, idetail)
            except Exception as e:  # noqa
                ctx.oblige("wire_equiv evaluates on the real dumps", False, str(e)[-1500:])
        # model correspondence (K4): type_ident / skip path / derives of the Gallina model vs syn scan
        try:
            pick = [i for i in sig_ok if gen_ok(w.gen[i])]
            pick = pick[: (24 if quick else 200)]
            k4 = [(cases[i]["settings"], w.gen[i]) for i in pick] + so_gens[: (16 if quick else 120)]
            try:
                mv = coq_model_views("c14mv_" + ctx.tier, [g for _, g in k4])
            except RuntimeError as e:
                if "inconsistent assumptions" not in str(e):
                    raise
                vlib.coq_make(["theories/Props/C14.vo"])
                mv = coq_model_views("c14mv_" + ctx.tier, [g for _, g in k4])
            mism = []
            n_items = 0
            for (k4st, k4g), m in zip(k4, mv):
                sv = scan_settings_view(k4g)
                if MUT == "derive-dedup-by-last-segment":
                    for x in sv:
                        x["derives"] = sorted(emulate_dedup_by_last_segment(
                            x["derives"], {d for d in x["derives"] if "::c14_" in d}))
                if MUT == "patch-derives-dropped-with-default":
                    for x in sv:
                        e = [y for y in k4g["dump"]["entries"].values() if y.get("name") == x["name"]]
                        if e and e[0].get("default") is not None and e[0]["kind"] in ("enum", "newtype"):
                            x["derives"] = [d for d in x["derives"] if d != MARK]
                if MUT == "model-map-default" and sv:
                    m = json.loads(json.dumps(m).replace("BTreeMap", "HashMap"))
                mm = {x["name"]: x for x in m}
                for s in sv:
                    n_items += 1
                    x = mm.get(s["name"])
                    if x is None or x["derives"] != s["derives"] or x["members"] != s["members"]:
                        mism.append({"settings": k4st, "item": s, "model": x})
            counts["model_items_compared"] = n_items
            ctx.oblige("correspondence K4: Gallina type_ident / skip path / derives_of on the real dump = syn scan "
                       "(%d items of %d modules)" % (n_items, len(k4)), not mism, json.dumps(mism[:2])[:1500])
        except Exception as e:  # noqa
            ctx.oblige("model correspondence evaluates", False, str(e)[-1500:])

    # ---- findings / verdict
    listed = {f["class"]: f for f in ctx.findings_for()}
    unlisted = []
    for v in viol + comp_bad + bf_bad + beh_bad + we_bad:
        f = listed.get(v["kind"])
        if f is not None:
            ctx.known_finding(f["id"], "%s (%s)" % (f["summary"], v.get("src")))
        else:
            unlisted.append(v)
    ctx.oblige("direct evaluation: syntactic obligations hold on every module (%d modules; %d replaced definitions, "
               "%d use sites; %d conversion sites; %d patched types; %d derive items; %d map members)" % (
                   counts["sigma_modules"], counts["replace_targets"], counts["replace_use_sites"],
                   counts["convert_sites"], counts["patch_targets"], counts["derive_items"], counts["map_members"]),
               not [v for v in viol if v in unlisted], json.dumps([v for v in viol if v in unlisted][:2])[:1500])
    # curated expectations
    for d in docs:
        if d.get("expect") == "finding" and not ctx.known:
            pass

    ctx.coverage.update({
        "counts": dict(counts), "skipped": dict(skipped),
        "documents": len(docs), "streams": dict(collections.Counter(d["src"].split(":")[0] for d in docs)),
        "world_status": dict(collections.Counter(w.status)),
        "rule": "documents = curated corpus + repository fixtures + seeded grammar (all features, annotations "
                "sprinkled on occurrences); per document up to %d settings assignments drawn from its own "
                "definitions / subschemas / type names; distinct = distinct (settings, document)" % n_sig,
    })
    ctx.samples = [{"src": docs[owner[i]]["src"], "settings": cases[i]["settings"],
                    "unaffected": unaff.get(i)} for i in sig_ok[:: max(1, len(sig_ok) // 10)]]
    if unlisted:
        unlisted.sort(key=lambda v: len(json.dumps(v.get("document", ""))))
        v = unlisted[0]
        v["broken_obligations"] = [o[0] for o in ctx.broken()]
        v["other_violations"] = len(unlisted) - 1
        ctx.violation(v)
    elif ctx.broken():
        ctx.violation({"broken_obligations": [(o[0], o[2][:1500]) for o in ctx.broken()],
                       "note": "a theorem, the validator on a real IR, or a correspondence no longer checks; the "
                               "direct evaluation found no failing input"}, no_input=True)
    if ctx.tier == "thorough" and coq_ok:
        rc, out, err = vlib.sh("timeout 1500 coqchk -silent -o -Q theories Typify Typify.Props.C14", cwd=vlib.COQ,
                               timeout=1600)
        ctx.oblige("coqchk re-checks Props.C14 and dependencies", rc == 0, (out + err)[-1500:])
