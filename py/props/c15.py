"""C15 — macro, cargo subcommand and builder generate the same types.

Deciding method: Coq theorems over `Algo/Frontends.v` (crate-spec parsers
character by character, output_path / PathBuf::set_extension, the option
mappings of the three front-ends onto TypeSpaceSettings, TypeAndImpls, `main`),
tied to /repo on every run by
  (a) the parser correspondence: real `CrateSpec::from_str` (hook) vs the Coq
      parser on thousands of strings, the character class being *measured* from
      the implementation (it is a section variable with one hypothesis);
  (b) `set_extension_rs` vs std's PathBuf::set_extension, and the real binary's
      default output location;
  (c) `builder_settings` (Coq) vs the real setters (settings dump);
  (d) the three REAL front-ends executed on the same (schema, options):
      builder tokens, `cargo-typify` binary, `import_types!` expanded with
      -Zunpretty=expanded, compared item by item after syn parsing.
"""
import json
import os
import random
import re
import shutil
import subprocess
import time
from concurrent.futures import ThreadPoolExecutor

import vlib

THEOREMS = [
    "C15_cli_accepts_valid_spec",
    "C15_cli_accepts_valid_spec_refuted",
    "C15_cli_accepts_valid_spec_nodigit",
    "C15_cli_rejects_malformed",
    "C15_cli_accepted_shape",
    "C15_macro_accepts_valid_spec",
    "C15_output_path_spec",
    "C15_set_extension_spec",
    "C15_frontends_agree_cli",
    "C15_frontends_agree_cli_raw",
    "C15_frontends_agree_macro",
    "C15_frontends_agree_macro_order_dependent_refuted",
    "C15_macro_crates_complete",
    "C15_map_type_verbatim",
    "C15_cli_map_type_verbatim",
    "C15_macro_never_recorded",
    "C15_cli_default_builder_on",
    "C15_no_write_on_failure",
    "C15_write_once_on_success",
    "C15_effects_imply_success",
    "C15_type_and_impls_spec",
    "C15_type_and_impls_plain",
    "C15_type_and_impls_order_insensitive",
    "C15_encode_impls_roundtrip",
]

W = os.path.join(vlib.WORK, "c15")
TARGET_REPO = os.path.join(vlib.WORK, "target-repo")
CLI_REPO = os.environ.get("C15_CLI_REPO", vlib.REPO)
TARGET_CLI = TARGET_REPO if CLI_REPO == vlib.REPO else os.path.join(vlib.WORK, "target-repo-alt-cli")
CLI_BIN = os.path.join(TARGET_CLI, "debug", "cargo-typify")
# RUSTC_BOOTSTRAP=1 (needed for -Zunpretty) is a rerun-if-env-changed input of proc-macro2's build
# script: sharing one target dir with the plain workspace build rebuilds ~20 crates on every switch.
TARGET_EXPAND = os.path.join(vlib.WORK, "target-repo-expand" + (
    "" if os.environ.get("C15_MACRO_REPO", vlib.REPO) == vlib.REPO else "-alt"))
CORPUS = os.path.join(vlib.ROOT, "corpus", "C15")
SCHEMA_DIR = os.path.join(vlib.REPO, "typify", "tests", "schemas")

ENV = dict(vlib.ENV)
ENV.pop("RUSTFLAGS", None)

# Detection tests without touching /repo (other builders share it): the option named here is
# withheld from / altered for ONE real front-end, which is what that front-end dropping or
# mis-parsing the option would look like.  Values: cli-map-type-ignored, cli-no-builder-ignored,
# cli-unknown-ignored, macro-derives-dropped, macro-patch-dropped, spec-rename-dropped, spec-star-is-never,
# macro-impl-defaults-only-without-list, macro-never-crates-dropped, cli-map-type-absolutised.
EMU = os.environ.get("C15_EMULATE", "")


def emu_cli_flags(flags):
    out = []
    i = 0
    while i < len(flags):
        f = flags[i]
        if EMU == "cli-map-type-ignored" and f == "--map-type":
            i += 2
            continue
        if EMU == "cli-map-type-absolutised" and f == "--map-type":
            v = flags[i + 1].strip()
            out += [f, v if v.startswith("::") else "::" + v]
            i += 2
            continue
        if EMU == "cli-unknown-ignored" and f == "--unknown-crates":
            i += 2
            continue
        if EMU == "cli-no-builder-ignored" and f in ("-B", "--no-builder"):
            i += 1
            continue
        out.append(f)
        i += 1
    return out


def emu_macro_opts(o):
    if EMU == "macro-derives-dropped":
        return dict(o, derives=[])
    if EMU == "macro-patch-dropped":
        return {k: v for k, v in o.items() if k != "patch"}
    if EMU == "macro-never-crates-dropped":
        return dict(o, crates=[c for c in o["crates"] if c["version"] != "!"])
    return o


def emu_spec(r):
    r = json.loads(json.dumps(r))
    if EMU == "spec-rename-dropped" and r["res"]["r"] == "some":
        r["res"]["rename"] = None
    if EMU == "spec-star-is-never" and r["res"]["r"] == "some" and r["res"]["ver"] == "Any":
        r["res"]["ver"] = "Never"
    return r

HEADER = ("From Typify Require Import Algo.Frontends.\nFrom Coq Require Import NArith List String.\n"
          "Import ListNotations.\nOpen Scope N_scope.")


def U(s):
    return vlib.coq_ustring(s) if s else "(@nil N)"


def dec_u(txt):
    return "" if txt == "" else "".join(chr(int(x)) for x in txt.split(","))


# --------------------------------------------------------------------------
# real front-ends
# --------------------------------------------------------------------------

def build_cli(ctx):
    """The real cargo-typify binary from /repo's working tree (C15_CLI_REPO=/path/to/copy points the
    CLI leg at a copy of the repository: detection tests of changes to cargo-typify without editing /repo)."""
    with vlib.Lock("cargo-repo"):
        rc, out, err = vlib.sh(["cargo", "build", "--offline", "-p", "cargo-typify", "--bin", "cargo-typify",
                                "--target-dir", TARGET_CLI], cwd=CLI_REPO, timeout=1800, env=ENV)
    if rc != 0:
        raise vlib.HarnessBuildError("cargo-typify binary does not build:\n" + err[-4000:])


def run_cli(args, cwd=None, timeout=120):
    p = subprocess.run([CLI_BIN, "typify", *args], cwd=cwd, env=ENV, capture_output=True, text=True, timeout=timeout)
    return p.returncode, p.stdout, p.stderr


def rustfmt_text(text):
    """Formatting normal form: the same rustfmt applied to both sides (rustfmt makes a few
    AST-visible layout choices, e.g. `|e| { x }` -> `|e| x`, so `up to formatting` is
    decided by formatting both texts with ONE formatter and comparing the syn ASTs)."""
    p = subprocess.run(["rustfmt", "--edition", "2018", "--emit", "stdout"], cwd=vlib.HARNESS, env=ENV, input=text,
                       capture_output=True, text=True, timeout=120)
    if p.returncode != 0:
        raise RuntimeError("rustfmt failed: " + p.stderr[-500:])
    return p.stdout


def cli_flags(o, with_crates=True):
    f = []
    if o.get("builder_flag") == "explicit":
        f.append("--builder")
    if not o["struct_builder"]:
        f.append("-B" if o.get("short") else "--no-builder")
    for d in o["derives"]:
        f += ["-a" if o.get("short") else "--additional-derive", d]
    if o.get("map_type") is not None:
        f += ["--map-type", o["map_type"]]
    if o.get("unknown"):
        f += ["--unknown-crates", o["unknown"]]
    if with_crates:
        for c in o["crates"]:
            f += ["--crate", spec_string(c)]
    return f


def spec_string(c):
    s = "%s@%s" % (c["name"], c["version"])
    return ("%s=%s" % (c["rename"], s)) if c.get("rename") else s


def builder_settings_json(o):
    s = {"struct_builder": o["struct_builder"], "derives": o["derives"], "crates": o["crates"]}
    if o.get("map_type") is not None:
        s["map_type"] = o["map_type"]
    if o.get("unknown"):
        s["unknown_crates"] = o["unknown"]
    if o.get("patch"):
        s["patch"] = o["patch"]
    if o.get("replace"):
        s["replace"] = {k: {"type": r["type"], "impls": r["impls"]} for k, r in o["replace"].items()}
    if o.get("convert"):
        s["convert"] = [{"schema": c["schema"], "type": c["type"], "impls": c["impls"]} for c in o["convert"]]
    return s


def macro_tokens_of_json(v):
    """serde_tokenstream syntax of a JSON value (schema objects of `convert`)."""
    if isinstance(v, dict):
        return "{ " + ", ".join("%s = %s" % (k, macro_tokens_of_json(x)) for k, x in v.items()) + " }"
    if isinstance(v, list):
        return "[" + ", ".join(macro_tokens_of_json(x) for x in v) + "]"
    return json.dumps(v)


def impl_syntax(impls):
    parts = []
    if "FromStr" not in impls:
        parts.append("?FromStr")
    if "Display" not in impls:
        parts.append("?Display")
    if "Default" in impls:
        parts.append("Default")
    return (": " + " + ".join(parts)) if parts else ""


def spec_syntax(specs):
    """`: ?Display + Default` for [["?", "Display"], ["", "Default"]]; no colon for the empty list."""
    return (": " + " + ".join(m + t for m, t in specs)) if specs else ""


def emu_specs(specs):
    # what `defaults only when no list was written` would make of a non-empty list, expressed in real syntax
    if EMU == "macro-impl-defaults-only-without-list" and specs:
        return [["?", "FromStr"], ["?", "Display"]] + list(specs)
    return specs


def entry_syntax(r):
    if "specs" in r:
        return spec_syntax(emu_specs(r["specs"]))
    return impl_syntax(r["impls"])


def coq_specs(specs):
    t = {"FromStr": "Some IFromStr", "Display": "Some IDisplay", "Default": "Some IDefault"}
    return "[" + "; ".join("(%s, %s)" % ("MMaybe" if m == "?" else "MNone", t.get(n, "None")) for m, n in specs) + "]"


def macro_invocation(schema_path, o, order=None):
    parts = ['schema = "%s"' % schema_path]
    if o["derives"]:
        parts.append("derives = [%s]" % ", ".join(o["derives"]))
    if o["struct_builder"] or o.get("explicit_false"):
        parts.append("struct_builder = %s" % ("true" if o["struct_builder"] else "false"))
    if o.get("unknown"):
        parts.append("unknown_crates = %s" % o["unknown"].capitalize())
    if o["crates"]:
        ents = []
        for c in o["crates"]:
            if c.get("rename"):
                ents.append('"%s" = "%s@%s"' % (c["rename"], c["name"], c["version"]))
            else:
                ents.append('"%s" = "%s"' % (c["name"], c["version"]))
        parts.append("crates = { %s }" % ", ".join(ents))
    if o.get("map_type") is not None:
        parts.append('map_type = "%s"' % o["map_type"])
    if o.get("patch"):
        ents = []
        for k, p in o["patch"].items():
            inner = []
            if p.get("rename"):
                inner.append('rename = "%s"' % p["rename"])
            if p.get("derives"):
                inner.append("derives = [%s]" % ", ".join(p["derives"]))
            ents.append("%s = { %s }" % (k, ", ".join(inner)))
        parts.append("patch = { %s }" % ", ".join(ents))
    if o.get("replace"):
        ents = ["%s = %s%s" % (k, r["type"], entry_syntax(r)) for k, r in o["replace"].items()]
        parts.append("replace = { %s }" % ", ".join(ents))
    if o.get("convert"):
        ents = ["%s = %s%s" % (macro_tokens_of_json(c["schema"]), c["type"], entry_syntax(c))
                for c in o["convert"]]
        parts.append("convert = { %s }" % ", ".join(ents))
    return "typify::import_types!(\n        %s\n    );" % ",\n        ".join(parts)


# The macro leg can be pointed at a COPY of the repository (detection tests of changes to
# typify-macro without editing /repo, which other builders share): C15_MACRO_REPO=/path/to/copy
MACRO_REPO = os.environ.get("C15_MACRO_REPO", vlib.REPO)

CARGO_TOML = """[package]
name = "%s"
version = "0.0.0"
edition = "2021"

[workspace]

[dependencies]
typify = { path = "%s/typify" }
serde = { version = "1.0", features = ["derive"] }
serde_json = "1.0"
chrono = { version = "0.4", features = ["serde"] }
uuid = { version = "1", features = ["serde"] }
regress = "0.10"
schemars = "0.8"
"""

PRELUDE = """#![allow(warnings)]
pub struct MyFruit;
pub struct MyUuid;
pub struct MyHand;
pub struct MyId;
pub struct MyTok;
pub mod maps { pub use std::collections::BTreeMap as M; }
pub use std::collections::BTreeMap as M;
pub mod d { pub use schemars::JsonSchema as Js; }
pub mod d2 { pub use schemars::JsonSchema as Js2; }
"""


def scratch_crate(name, lib_rs, files=None):
    d = os.path.join(W, name)
    src = os.path.join(d, "src")
    os.makedirs(src, exist_ok=True)
    for f in os.listdir(src):
        os.unlink(os.path.join(src, f))

    def put(path, text):
        if not os.path.exists(path) or open(path).read() != text:
            open(path, "w").write(text)
    put(os.path.join(d, "Cargo.toml"), CARGO_TOML % (name, MACRO_REPO))
    put(os.path.join(d, "Cargo.lock"), open(os.path.join(vlib.REPO, "Cargo.lock")).read())
    put(os.path.join(d, "rust-toolchain.toml"), '[toolchain]\nchannel = "1.80.1"\n')
    for fn, text in (files or {}).items():
        put(os.path.join(src, fn), text)
    put(os.path.join(src, "lib.rs"), lib_rs)
    return d


def expand_crate(d, timeout=1500):
    """RUSTC_BOOTSTRAP=1 cargo rustc -- -Zunpretty=expanded ; returns (rc, expanded path, stderr)."""
    env = dict(ENV)
    env["RUSTC_BOOTSTRAP"] = "1"
    out = os.path.join(d, "expanded.rs")
    # force re-expansion (fresh rustc process, fresh HashMap seeds) even if nothing changed
    os.utime(os.path.join(d, "src", "lib.rs"))
    with vlib.Lock("cargo-repo"):
        p = subprocess.run(["cargo", "rustc", "--offline", "--target-dir", TARGET_EXPAND, "--", "-Zunpretty=expanded"],
                           cwd=d, env=env, capture_output=True, text=True, timeout=timeout)
    open(out, "w").write(p.stdout)
    return p.returncode, out, p.stderr


def errors_by_line(stderr, resolution=False):
    """rustc human output: {line number in src/lib.rs: [messages]}.  Errors with an
    E04xx code are name-resolution errors of the EXPANDED code (crates such as
    `::ren::Alpha` that do not exist in the scratch crate); they do not stop
    -Zunpretty=expanded from printing and are not front-end verdicts.  Errors
    without a code are what the proc macro itself emitted (compile_error!)."""
    res = {}
    cur = None
    for line in stderr.splitlines():
        m = re.match(r"^error(\[E\d+\])?: (.*)", line)
        if m:
            cur = (m.group(1), m.group(2))
            continue
        m = re.match(r"^\s*--> src/([\w.]+):(\d+):", line)
        if m and cur is not None:
            is_res = bool(cur[0]) and cur[0].startswith("[E04")
            if is_res == resolution and not cur[1].startswith("could not compile"):
                key = int(m.group(2)) if m.group(1) == "lib.rs" else "%s:%s" % (m.group(1), m.group(2))
                res.setdefault(key, []).append(cur[1])
            cur = None
    return res


# --------------------------------------------------------------------------
# generators
# --------------------------------------------------------------------------

VERSIONS_OK = ["1.0.0", "0.21.0", "0.21.7", "0.5.0", "2.0.0", "1.0.1-alpha.1", "10.20.30", "1.0.0+build5"]
VERSIONS_BAD = ["1.0", "1", "", "v1.0.0", "1.0.0 ", ">=1.0.0", "01.0.0", "1.0.0.0", "**", "!!", "1.0.0@"]
ALPHABET = ["a", "b", "Z", "1", "0", "-", "_", "@", "=", ".", "*", "!", " ", "é", "ß", "٣", "²",
            "Ⅷ", "中", "+", "/", "́", "\U0001d7d9"]


def gen_spec_strings(ctx, rnd):
    out = list(json.load(open(os.path.join(CORPUS, "specs.json")))["specs"])      # corpus first
    # exhaustive to length 4 over a reduced alphabet
    red = ["a", "1", "-", "@", "=", "*", "!"]
    cur = [""]
    for _ in range(4):
        cur = [p + c for p in cur for c in red]
        out += cur
    names = ["a", "ab", "a1", "base64", "crate-o-types", "my_util2", "x", "_", "-", "9", "A-Z_09", "été",
             "中", "a٣", "a b", "a.b", "", "a+b", "x²", "Ⅷ", "n\U0001d7d9"]
    vers = VERSIONS_OK + ["*", "!"] + VERSIONS_BAD
    for n in names:
        for v in vers:
            out.append("%s@%s" % (n, v))
    for r in names:
        for n in ["ab", "a1", "crate-o-types", "", "é"]:
            for v in ["1.0.0", "*", "!", "1.0"]:
                out.append("%s=%s@%s" % (r, n, v))
    out += ["a", "a=b", "a@", "@", "=", "=@", "=a@1.0.0", "a=@1.0.0", "a==b@1.0.0", "a=b=c@1.0.0", "a@b@1.0.0",
            "a@1.0.0@2.0.0", "a@1.0.0=b", "b@1.0.0=a@2.0.0", "a@=1.0.0", "r=a", "r=a@", "@1.0.0", "a@*", "a@!",
            "a@*!", "r=a@*", "a1@1.0.0", "r1=a@1.0.0", "a@1.0.0-rc.1+x.y", "a@1.0.0+a=b"]
    n_rand = 1500 if ctx.tier == "quick" else 12000
    for _ in range(n_rand):
        k = rnd.randint(1, 9)
        s = "".join(rnd.choice(ALPHABET) for _ in range(k))
        if rnd.random() < 0.6:
            s += "@" + rnd.choice(vers)
        if rnd.random() < 0.3:
            s = "".join(rnd.choice(ALPHABET[:9]) for _ in range(rnd.randint(0, 4))) + "=" + s
        out.append(s)
    seen = set()
    res = []
    for s in out:
        if s not in seen:
            seen.add(s)
            res.append(s)
    return res


def gen_paths(ctx, rnd):
    fixed = ["a/b.json", "schema", "a.b.c", ".hidden", "a/.hidden", "a/b.json/", "a/b.json/.", "a/..", "..", ".", "",
             "/", "a/", "a//b.x", "./x.json", "x.", "..a", "a..b", ".a.b", "a/./b.j", "./.", "a/b/..", "...", "/x.y.z",
             "été.json", "dir.d/file", "dir.d/file.tar.gz", "a/b.json//", "-", "x.rs", "a/.b/.", "././a"]
    alpha = ["a", "b", ".", "/", ".", "/", "j"]
    out = list(fixed)
    cur = [""]
    for _ in range(5 if ctx.tier == "quick" else 6):
        cur = [p + c for p in cur for c in ["a", ".", "/"]]
        out += cur
    for _ in range(400 if ctx.tier == "quick" else 3000):
        out.append("".join(rnd.choice(alpha) for _ in range(rnd.randint(1, 10))))
    return sorted(set(out))


def fixture_schemas():
    fx = [os.path.join(vlib.REPO, "example.json")]
    fx += sorted(os.path.join(SCHEMA_DIR, f) for f in os.listdir(SCHEMA_DIR) if f.endswith(".json"))
    fx.append(os.path.join(CORPUS, "xrt.json"))
    fx.append(os.path.join(CORPUS, "impls.json"))
    fx.append(os.path.join(CORPUS, "mapsx.json"))
    return fx


DERIVES = ["schemars::JsonSchema", "PartialEq", "Eq", "Hash", "PartialOrd", "Ord", "crate::d::Js"]
MAP_TYPES = ["::std::collections::BTreeMap", "std::collections::BTreeMap", "::std::collections::HashMap",
             "indexmap::IndexMap", "crate::maps::M", "super::M", "M"]
CRATE_NAMES_PLAIN = ["crate-o-types", "x", "std", "other_crate"]
CRATE_NAMES_DIGIT = ["base64", "my_util2"]
RENAMES_PLAIN = ["ren", "my-ren", "cot_x"]
RENAMES_DIGIT = ["r2", "cot_2"]
CRATE_VERSIONS = ["1.0.0", "0.21.0", "0.21.7", "0.5.0", "2.0.0", "*", "!", "1.0.1-alpha.1", "0.9.9"]


# macro trait lists (modifier, ident); `Hash` is not a TypeSpaceImpl name and is silently ignored
TRAIT_LISTS = [
    [], [["", "Default"]], [["?", "Display"]], [["", "FromStr"], ["?", "Display"]], [["", "Display"], ["", "Default"]],
    [["?", "FromStr"], ["?", "Display"]], [["?", "FromStr"]], [["?", "FromStr"], ["", "Default"]],
    [["?", "Display"], ["", "Display"]], [["", "Display"], ["?", "Display"]], [["", "Hash"]], [["", "Hash"], ["?", "FromStr"]],
    [["?", "Default"]], [["", "FromStr"], ["", "Display"], ["", "Default"]],
]


def impls_case(rspecs, cspecs):
    """replace + convert entries on corpus/C15/impls.json with explicit trait lists; `impls` is filled
    in later from the Coq model (impls_of_specs), never from a re-implementation in python."""
    return {"struct_builder": False, "derives": [], "crates": [],
            "replace": {"Id": {"type": "crate::MyId", "specs": rspecs, "impls": None}},
            "convert": [{"schema": {"type": "string", "format": "x-token"}, "type": "crate::MyTok", "specs": cspecs,
                         "impls": None}]}


# (schema, crate named by an x-rust-type in it, a version matching its requirement, one that does not)
XRT_CRATES = [("xrt.json", "crate-o-types", "1.0.1", "2.0.0"), ("xrt.json", "base64", "0.21.7", "0.22.0"),
              ("xrt.json", "my_util2", "0.5.0", "1.0.0"), ("x-rust-type.json", "std", "1.0.0", "2.0.0")]
CRATE_KINDS = ["absent", "star", "match", "nomatch", "never", "match+rename", "never+rename", "star+rename"]
POLICIES = [None, "generate", "allow", "deny"]


def crate_setting(name, kind, vmatch, vno):
    if kind == "absent":
        return []
    base = kind.split("+")[0]
    c = {"name": name, "version": {"star": "*", "match": vmatch, "nomatch": vno, "never": "!"}[base]}
    if kind.endswith("+rename"):
        c["rename"] = "ren-x"
    return [c]


def crates_product(thorough, digits_ok):
    """crates table entry {absent, *, matching, non-matching, !, with rename} x unknown_crates policy
    {default, Generate, Allow, Deny} x schema {x-rust-type for the configured crate, only for other crates,
    none}: a crate listed as `!` is NOT the same as an unlisted crate (rust_extension.rs), visible under Allow."""
    out = []

    def add(base, crates, pol):
        o = {"struct_builder": False, "derives": [], "crates": crates, "short": False}
        if pol:
            o["unknown"] = pol
        out.append((base, o))
    for i, (base, name, vm, vn) in enumerate(XRT_CRATES):
        if re.search(r"\d", name) and not digits_ok:
            continue
        full = thorough or i == 0
        for kind in CRATE_KINDS:
            for pol in POLICIES:
                if full or (kind in ("never", "star", "never+rename") and pol in (None, "allow")):
                    add(base, crate_setting(name, kind, vm, vn), pol)
    # x-rust-type only for OTHER crates than the configured one; and no x-rust-type at all
    for kind in ("never", "star", "match+rename"):
        for pol in ("allow", "deny") if not thorough else POLICIES:
            add("xrt.json", crate_setting("other_crate", kind, "1.0.0", "2.0.0"), pol)
    for kind in ("never", "star+rename"):
        for pol in (None, "allow"):
            add("example.json", crate_setting("std", kind, "1.0.0", "2.0.0"), pol)
    # two entries at once: a `!` crate next to a usable one
    add("xrt.json", crate_setting("crate-o-types", "never", "", "") + crate_setting("x", "star", "", ""), "allow")
    add("xrt.json", crate_setting("x", "never", "", "") + crate_setting("crate-o-types", "match+rename", "1.0.0", ""), "allow")
    return out


# map-type spellings: every one is handed VERBATIM to MapType::new (syn::parse_str::<syn::Type>) by all three
# front-ends; on the unchanged tree all of these parse (surrounding blanks are not tokens), the INVALID ones make
# MapType::new panic: builder panics, CLI exits 101 writing nothing, the macro reports `proc macro panicked`.
MAP_SPELLINGS = ["::std::collections::BTreeMap", "std::collections::BTreeMap", "indexmap::IndexMap", "crate::maps::M",
                 "self::M", "super::M", "M", " std::collections::BTreeMap ", "::indexmap::IndexMap"]
MAP_SPELLINGS_INVALID = ["std::collections::BTreeMap::", ""]
MAP_SCHEMAS = ["mapsx.json", "maps.json", "xrt.json"]      # typed additionalProperties, propertyNames, optional members


def map_product(thorough):
    out = []
    for i, base in enumerate(MAP_SCHEMAS):
        for j, m in enumerate(MAP_SPELLINGS):
            if thorough or i == 0 or (i + j) % 3 == 0:
                out.append((base, {"struct_builder": (i + j) % 2 == 0, "derives": [], "crates": [], "short": j % 2 == 1,
                                   "map_type": m}))
    for m in MAP_SPELLINGS_INVALID:
        out.append(("mapsx.json", {"struct_builder": False, "derives": [], "crates": [], "short": False, "map_type": m}))
    return out


def gen_opts(rnd, schema, digits_ok, for_macro, macro_map_ok):
    base = os.path.basename(schema)
    o = {"struct_builder": rnd.random() < 0.5, "derives": [], "crates": [], "short": rnd.random() < 0.3,
         "explicit_false": rnd.random() < 0.3}
    if o["struct_builder"] and rnd.random() < 0.3:
        o["builder_flag"] = "explicit"
    k = rnd.choice([0, 0, 1, 2, 3])
    o["derives"] = rnd.sample(DERIVES, k)
    if o["derives"] and rnd.random() < 0.3:
        o["derives"].append(o["derives"][0])          # repeated derive: with_derive de-duplicates
    if rnd.random() < 0.35 and (not for_macro or macro_map_ok):
        o["map_type"] = rnd.choice(MAP_TYPES)
    if rnd.random() < 0.5:
        o["unknown"] = rnd.choice(["generate", "allow", "deny"])
    if base in ("xrt.json", "x-rust-type.json") or rnd.random() < 0.15:
        names = CRATE_NAMES_PLAIN + (CRATE_NAMES_DIGIT if digits_ok else [])
        rens = RENAMES_PLAIN + (RENAMES_DIGIT if digits_ok else [])
        picked = rnd.sample(names, rnd.randint(1, min(4, len(names))))
        rens = rnd.sample(rens, len(rens))
        for n in picked:
            c = {"name": n, "version": rnd.choice(CRATE_VERSIONS)}
            if rnd.random() < 0.45 and rens:
                c["rename"] = rens.pop()
            o["crates"].append(c)
    if for_macro and base == "impls.json":
        o.update({k: v for k, v in impls_case(rnd.choice(TRAIT_LISTS), rnd.choice(TRAIT_LISTS)).items()
                  if k in ("replace", "convert")})
    if for_macro:
        if base == "example.json":
            if rnd.random() < 0.6:
                p = {}
                if rnd.random() < 0.7:
                    p["rename"] = "Vegetable"
                if rnd.random() < 0.6:
                    p["derives"] = rnd.sample(["Eq", "PartialEq", "Hash"], rnd.randint(1, 2))
                if p:
                    o["patch"] = {"Veggie": p}
            if rnd.random() < 0.6:
                o["replace"] = {"Fruit": {"type": "crate::MyFruit",
                                          "impls": rnd.sample(["FromStr", "Display", "Default"], rnd.randint(0, 3))}}
        if base == "type-with-modified-generation.json":
            o["patch"] = {"TypeThatNeedsMoreDerives": {"rename": "TypeThatHasMoreDerives", "derives": ["Eq", "PartialEq"]}}
            o["replace"] = {"HandGeneratedType": {"type": "crate::MyHand",
                                                  "impls": rnd.sample(["FromStr", "Display", "Default"], rnd.randint(0, 3))}}
            if rnd.random() < 0.7:
                o["convert"] = [{"schema": {"enum": [1, "one"]}, "type": "serde_json::Value",
                                 "impls": rnd.sample(["FromStr", "Display", "Default"], rnd.randint(0, 3))}]
        if base == "xrt.json" and rnd.random() < 0.5:
            o["convert"] = [{"schema": {"type": "string", "format": "uuid"}, "type": "crate::MyUuid",
                             "impls": rnd.sample(["FromStr", "Display", "Default"], rnd.randint(0, 3))}]
    return o


def has_digit_names(o):
    return any(re.search(r"\d", c["name"]) or re.search(r"\d", c.get("rename") or "") for c in o["crates"])


# --------------------------------------------------------------------------
# the check
# --------------------------------------------------------------------------

def run(ctx):
    ctx.level = "proof"
    ctx.checker_cmd = ("make -f Makefile.coq theories/Props/C15.vo && coqc Audit_C15.v (Print Assumptions); "
                       "cargo build -p cargo-typify; cargo rustc -- -Zunpretty=expanded on work/c15/macro_0")
    ctx.trusted = [
        "Coq 8.16.1 kernel + vm_compute",
        "hand-written model Algo/Frontends.v, tied by the correspondences listed in coverage (parser: every string; "
        "settings mappings: by execution of the three real front-ends, not by a settings dump of the macro)",
        "section variables: parse_version (semver::Version::parse, no hypothesis), letter (char class of is_crate; "
        "hypothesis `accepts [A-Za-z0-9]`, measured on the implementation for all 128 ASCII code points), "
        "convert (cargo_typify::convert), vec_order (HashSet drain order; hypothesis: a permutation)",
        "clap (argument syntax), serde_tokenstream (macro syntax), rustc -Zunpretty=expanded and syn as observers",
        "PathBuf::set_extension modelled for Unix paths; compared with std on every run",
    ]
    ctx.assumptions = [
        "equivalent options: same derive path strings, same map-type string, crates (name,version,rename) written "
        "`rename=name@version` (CLI) / `\"rename\" = \"name@version\"` (macro); CLI default builder=ON is documented",
        "C15_frontends_agree_macro assumes pairwise distinct macro keys and pairwise distinct ORIGINAL crate names",
        "C15_cli_accepts_valid_spec (no-rename form) assumes the version string contains no '=' (semver has none)",
    ]
    os.makedirs(W, exist_ok=True)
    rnd = random.Random(ctx.seed * 7919 + 15)
    quick = ctx.tier == "quick"
    findings = {f["class"]: f for f in ctx.findings_for()}
    unlisted = []

    vlib.build_harness(bins=("vh", "c15"))
    build_cli(ctx)
    coq_ok = vlib.standard_coq_obligations(ctx, "Props.C15", THEOREMS, ())
    ok_m, out_m = vlib.coq_make(["theories/Algo/Frontends.vo"])
    ctx.oblige("model Algo/Frontends.v compiles", ok_m, out_m[-2000:])

    # ------------------------------------------------------------------
    # A. crate-spec parser
    # ------------------------------------------------------------------
    t0 = time.time()
    ascii_cps = list(range(0, 128))
    probe = vlib.run_bin("c15", [{"op": "spec", "s": chr(c) + "@1.0.0"} for c in ascii_cps if chr(c) not in "@="])
    probe_cps = [c for c in ascii_cps if chr(c) not in "@="]
    accepted_ascii = {c for c, r in zip(probe_cps, probe) if r["res"]["r"] == "some"}
    wanted = {c for c in ascii_cps if chr(c).isalnum() or chr(c) in "-_"}
    missing = sorted(wanted - accepted_ascii)
    extra = sorted(accepted_ascii - wanted)
    digits = set(range(48, 58))
    digits_defect = bool(missing)
    ctx.coverage["cli_is_crate_ascii_accepted"] = "".join(chr(c) for c in sorted(accepted_ascii))
    if missing:
        if set(missing) <= digits and "cli-crate-name-digits" in findings:
            f = findings["cli-crate-name-digits"]
            ctx.known_finding(f["id"], "%s: %s (witness `--crate a1@1.0.0`; rejected ASCII name characters: %s)" % (
                f["id"], f["summary"], "".join(chr(c) for c in missing)))
        else:
            unlisted.append({"kind": "cli-rejects-valid-crate-name-characters", "chars": "".join(chr(c) for c in missing),
                             "input": "--crate %s@1.0.0" % chr(missing[0]), "observed": "rejected",
                             "expected": "accepted ([A-Za-z0-9_-]+ are valid crate names)"})
    else:
        ctx.oblige("hypothesis letter_accepts_alnum of C15_cli_accepts_valid_spec holds for the real is_crate "
                   "(all 128 ASCII code points probed through the hook)", True)
    ctx.oblige("real is_crate accepts no ASCII character outside [A-Za-z0-9_-]", not extra, str(extra))

    specs = gen_spec_strings(ctx, rnd)
    cps = sorted({ord(ch) for s in specs for ch in s})
    # the letter class is MEASURED: c is a `letter` iff the real parser accepts the one-character name c
    single = vlib.run_bin("c15", [{"op": "spec", "s": chr(c) + "@1.0.0"} for c in cps])
    letters = [c for c, r in zip(cps, single) if r["res"]["r"] == "some" and chr(c) not in "-_@="]
    cls = vlib.run_bin("c15", [{"op": "chars", "cps": cps}])[0]
    alpha = [c for c, b in zip(cps, cls["alphabetic"]) if b]
    alnum = [c for c, b in zip(cps, cls["alphanumeric"]) if b]
    ctx.coverage["cli_letter_class"] = ("char::is_alphabetic" if letters == alpha else
                                        "char::is_alphanumeric" if letters == alnum else "other")
    res = [emu_spec(r) for r in vlib.run_bin("c15", [{"op": "spec", "s": s} for s in specs])]
    vtab = {}
    for r in res:
        vtab.update(r["vtab"])
    accepted = sorted(k for k, v in vtab.items() if v is not None and k not in ("*", "!"))

    def impl_show(r):
        r = r["res"]
        if r["r"] == "none":
            return "none"
        return "some|%s|%s|%s" % (r["name"], r["ver"], "-" if r["rename"] is None else "+" + r["rename"])

    def model_show(m):
        if m == "none":
            return "none"
        _, n, v, rn = m.split("|")
        if v in ("!", "*"):
            vd = {"!": "Never", "*": "Any"}[v]
        else:
            vd = vtab.get(dec_u(v[1:]), "?model-picked-unknown-version-substring")
        return "some|%s|%s|%s" % (dec_u(n), vd, "-" if rn == "-" else "+" + dec_u(rn[1:]))

    mism = []
    try:
        pre = (HEADER + "\nDefinition LET : list N := %s.\nDefinition ACC : list ustring := %s.\n" % (
            vlib.coq_list(letters) + "%N" if letters else "(@nil N)",
            "[" + "; ".join(U(a) for a in accepted) + "]"))
        model = vlib.coq_eval_strings("c15spec", pre, ["run_cli_spec LET ACC %s" % U(s) for s in specs], shard=500)
        for s, r, m in zip(specs, res, model):
            if impl_show(r) != model_show(m):
                mism.append({"spec": s, "impl": impl_show(r), "model": model_show(m)})
        model_ok = True
    except Exception as e:  # noqa
        model_ok = False
        ctx.oblige("model cli_parse_spec evaluates", False, str(e)[-2000:])
    ctx.oblige("correspondence: cli_parse_spec (Coq) = CrateSpec::from_str (hook) on %d strings" % len(specs),
               model_ok and not mism, json.dumps(mism[:5]))
    n_some = len([r for r in res if r["res"]["r"] == "some"])
    ctx.coverage["spec_strings"] = {"total": len(specs), "accepted_by_impl": n_some, "rejected": len(specs) - n_some,
                                    "with_rename_accepted": len([r for r in res if r["res"].get("rename") is not None]),
                                    "mismatches": len(mism), "alphabet": "".join(ALPHABET)}
    ctx.evaluations += len(specs)
    for s in specs[:3000]:
        ctx.nontrivial.add("spec:" + s)

    # direct evaluation of the property on the parser: every valid spec must be accepted with its components
    valid_cases = []
    vnames = ["a", "ab", "A-Z_x", "crate-o-types", "my_util", "-", "_"] + (
        ["a1", "base64", "my_util2", "9", "0a-"] if True else [])
    for n in vnames:
        for v in VERSIONS_OK + ["*", "!"]:
            valid_cases.append((n, v, None))
            for r in ["ren", "r2", "my-ren"]:
                valid_cases.append((n, v, r))
    vres = [emu_spec(x) for x in vlib.run_bin("c15", [{"op": "spec", "s": spec_string({"name": n, "version": v, "rename": r})}
                                                      for n, v, r in valid_cases])]
    n_rej_digit = 0
    for (n, v, r), x in zip(valid_cases, vres):
        got = x["res"]
        okc = got["r"] == "some" and got["name"] == n and got["rename"] == r and got["ver"] == x["vtab"].get(v)
        if not okc:
            if re.search(r"\d", n + (r or "")) and got["r"] == "none" and digits_defect and \
                    "cli-crate-name-digits" in findings:
                n_rej_digit += 1
                continue
            unlisted.append({"kind": "valid-crate-spec-not-accepted", "input": spec_string(
                {"name": n, "version": v, "rename": r}), "observed": got, "expected": [n, v, r]})
    ctx.coverage["valid_spec_direct"] = {"cases": len(valid_cases), "rejected_because_of_digits(known)": n_rej_digit}
    ctx.evaluations += len(valid_cases)
    ctx.log("parser part %.1fs" % (time.time() - t0))

    # ------------------------------------------------------------------
    # B. set_extension / output_path model vs std
    # ------------------------------------------------------------------
    paths = gen_paths(ctx, rnd)
    pres = vlib.run_bin("c15", [{"op": "setext", "p": p} for p in paths])
    pm = []
    try:
        model = vlib.coq_eval_strings("c15path", HEADER, ["run_set_ext %s" % U(p) for p in paths], shard=500)
        for p, r, m in zip(paths, pres, model):
            b, q = m.split("|", 1)
            if (b == "t") != r["ok"] or dec_u(q) != r["p"]:
                pm.append({"path": p, "std": r, "model": [b, dec_u(q)]})
        okp = True
    except Exception as e:  # noqa
        okp = False
        ctx.oblige("model set_extension_rs evaluates", False, str(e)[-2000:])
    ctx.oblige("correspondence: set_extension_rs (Coq) = PathBuf::set_extension(\"rs\") (std) on %d paths" % len(paths),
               okp and not pm, json.dumps(pm[:5]))
    ctx.coverage["paths"] = {"total": len(paths), "mismatches": len(pm)}
    ctx.evaluations += len(paths)

    # ------------------------------------------------------------------
    # C. builder_settings model vs the real setters
    # ------------------------------------------------------------------
    check_settings_model(ctx, rnd)

    # ------------------------------------------------------------------
    # D. the real binary: output location, stdout, failure
    # ------------------------------------------------------------------
    check_binary_io(ctx, unlisted)

    # ------------------------------------------------------------------
    # E. three front-ends on the same options
    # ------------------------------------------------------------------
    check_three_frontends(ctx, rnd, digits_defect, findings, unlisted)

    # ------------------------------------------------------------------
    # verdict
    # ------------------------------------------------------------------
    ctx.oblige("direct property evaluation: no unlisted departure", not unlisted, json.dumps(unlisted[:3])[:3000])
    if unlisted:
        v = unlisted[0]
        v["broken_obligations"] = [o[0] for o in ctx.broken()]
        ctx.violation(v)
    elif ctx.broken():
        ctx.violation({"broken_obligations": [(o[0], o[2][:1500]) for o in ctx.broken()],
                       "note": "a theorem or a model/implementation correspondence no longer checks; the executed "
                               "front-end comparison found no failing input"}, no_input=True)
    ctx.coverage["rule"] = ("spec strings: exhaustive to length 4 over {a,1,-,@,=,*,!} + curated + random over a "
                            "23-character alphabet incl. non-ASCII letters/digits; paths: exhaustive to length 5/6 over "
                            "{a,.,/} + curated + random; option assignments: seeded random over fixtures (see "
                            "three_frontends); distinct = distinct input string / (schema, options) pair")
    if ctx.tier == "thorough" and coq_ok:
        rc, out, err = vlib.sh("timeout 1500 coqchk -silent -o -Q theories Typify Typify.Props.C15", cwd=vlib.COQ,
                               timeout=1600)
        ctx.oblige("coqchk re-checks Props.C15 and dependencies", rc == 0, (out + err)[-1500:])


# --------------------------------------------------------------------------

def coq_opt_u(x):
    return "None" if x is None else "(Some %s)" % U(x)


def coq_vers(v):
    return "(@Never ustring)" if v == "!" else "(@Any ustring)" if v == "*" else "(Version %s)" % U(v)


def coq_impl(i):
    return {"FromStr": "IFromStr", "Display": "IDisplay", "Default": "IDefault"}[i]


def coq_opts(o):
    pol = {"generate": "Generate", "allow": "Allow", "deny": "Deny"}
    crates = "[" + "; ".join("(%s, %s, %s)" % (U(c["name"]), coq_vers(c["version"]), coq_opt_u(c.get("rename")))
                             for c in o["crates"]) + "]"
    patches = "[" + "; ".join("(%s, {| po_rename := %s; po_derives := [%s] |})" % (
        U(k), coq_opt_u(p.get("rename")), "; ".join(U(d) for d in p.get("derives", [])))
        for k, p in o.get("patch_list", [])) + "]"
    reps = "[" + "; ".join("(%s, (%s, [%s]))" % (U(k), U(r["type"]), "; ".join(coq_impl(i) for i in r["impls"]))
                           for k, r in o.get("replace_list", [])) + "]"
    convs = "[" + "; ".join("(%s, (%s, [%s]))" % (U(c["key"]), U(c["type"]), "; ".join(coq_impl(i) for i in c["impls"]))
                            for c in o.get("convert", [])) + "]"
    return ("{| o_derives := [%s]; o_struct_builder := %s; o_map_type := %s; o_crates := %s; o_unknown := %s; "
            "o_patches := %s; o_replaces := %s; o_converts := %s |}" % (
                "; ".join(U(d) for d in o["derives"]), "true" if o["struct_builder"] else "false",
                coq_opt_u(o.get("map_type")), crates,
                "None" if not o.get("unknown") else "(Some %s)" % pol[o["unknown"]], patches, reps, convs))


def check_settings_model(ctx, rnd):
    """Coq `builder_settings o` vs the real TypeSpaceSettings after the same setter calls."""
    n = 40 if ctx.tier == "quick" else 300
    names = ["aa", "bb", "cc", "dd"]
    cases = []
    for _ in range(n):
        o = {"struct_builder": rnd.random() < 0.5,
             "derives": [rnd.choice(["Eq", "Hash", "Ord", "a::B"]) for _ in range(rnd.randint(0, 5))],
             "crates": [{"name": rnd.choice(names), "version": rnd.choice(["1.0.0", "2.3.4", "*", "!"]),
                         "rename": rnd.choice([None, None, "rn", "rm"])} for _ in range(rnd.randint(0, 5))]}
        if rnd.random() < 0.5:
            o["map_type"] = rnd.choice(["BTreeMap", "x::M"])
        if rnd.random() < 0.6:
            o["unknown"] = rnd.choice(["generate", "allow", "deny"])
        pk = rnd.sample(["Pa", "Pb", "Pc"], rnd.randint(0, 3))
        o["patch_list"] = [(k, {"rename": rnd.choice([None, "Rn"]),
                                "derives": [rnd.choice(["Eq", "Hash"]) for _ in range(rnd.randint(0, 3))]}) for k in pk]
        rk = rnd.sample(["Ra", "Rb"], rnd.randint(0, 2))
        o["replace_list"] = [(k, {"type": rnd.choice(["T1", "T2"]),
                                  "impls": rnd.sample(["FromStr", "Display", "Default"], rnd.randint(0, 3))}) for k in rk]
        o["convert"] = [{"key": "S%d" % i, "schema": {"title": "S%d" % i}, "type": rnd.choice(["U1", "U2"]),
                         "impls": rnd.sample(["FromStr", "Display", "Default"], rnd.randint(0, 3))}
                        for i in range(rnd.randint(0, 2))]
        cases.append(o)
    real = vlib.run_vh("gen", [{"settings": {
        "struct_builder": o["struct_builder"], "derives": o["derives"], "crates": o["crates"],
        **({"map_type": o["map_type"]} if o.get("map_type") else {}),
        **({"unknown_crates": o["unknown"]} if o.get("unknown") else {}),
        "patch": {k: {kk: vv for kk, vv in p.items() if vv is not None} for k, p in o["patch_list"]},
        "replace": dict(o["replace_list"]),
        "convert": [{"schema": c["schema"], "type": c["type"], "impls": c["impls"]} for c in o["convert"]],
    }, "steps": [], "code": False} for o in cases])
    vers_dbg = {}
    for v, r in zip(["1.0.0", "2.3.4"], vlib.run_bin("c15", [{"op": "spec", "s": v} for v in ["1.0.0", "2.3.4"]])):
        vers_dbg[v] = r["vtab"][v]
    mism = []
    try:
        model = vlib.coq_eval_strings(
            "c15set", HEADER, ["show_settings (builder_settings ustring ustring %s)" % coq_opts(o) for o in cases],
            shard=100)
    except Exception as e:  # noqa
        ctx.oblige("model builder_settings evaluates", False, str(e)[-2000:])
        return

    def q(s):
        return '"%s"' % s

    for o, r, m in zip(cases, real, model):
        st = r["dump"]["settings"]
        parts = dict(p.split("=", 1) for p in m.split("#"))
        exp = {}
        exp["extra_derives"] = [dec_u(x) for x in parts["derives"].split(";")] if parts["derives"] else []
        exp["struct_builder"] = parts["builder"] == "true"
        exp["unknown_crates"] = parts["unknown"]
        exp["map_type"] = dec_u(parts["map"]).replace("::", " :: ").strip()
        exp["crates"] = {}
        for ent in filter(None, parts["crates"].split(";")):
            k, v, rn = ent.split(":")
            vd = {"!": "Never", "*": "Any"}.get(v) or vers_dbg[dec_u(v[1:])]
            exp["crates"][dec_u(k)] = "CrateSpec { version: %s, rename: %s }" % (
                vd, "None" if rn == "-" else "Some(%s)" % q(dec_u(rn[1:])))
        exp["patch"] = {}
        for ent in filter(None, parts["patch"].split(";")):
            k, rn, ds = ent.split(":")
            exp["patch"][dec_u(k)] = "TypeSpacePatch { rename: %s, derives: [%s] }" % (
                "None" if rn == "-" else "Some(%s)" % q(dec_u(rn[1:])),
                ", ".join(q(dec_u(d)) for d in ds.split("/")) if ds else "")
        exp["replace"] = {}
        for ent in filter(None, parts["replace"].split(";")):
            k, ty, im = ent.split(":")
            exp["replace"][dec_u(k)] = "TypeSpaceReplace { replace_type: %s, impls: [%s] }" % (
                q(dec_u(ty)), ", ".join(im.split("/")) if im else "")
        exp["convert"] = []
        for ent in filter(None, parts["convert"].split(";")):
            k, ty, im = ent.split(":")
            exp["convert"].append({"schema": {"title": dec_u(k)}, "type_name": dec_u(ty),
                                   "impls": im.split("/") if im else []})
        got = {k: st[k] for k in exp}
        got["map_type"] = got["map_type"].strip()
        if json.dumps(got, sort_keys=True) != json.dumps(exp, sort_keys=True):
            mism.append({"opts": o, "real": got, "model": exp})
    ctx.oblige("correspondence: builder_settings (Coq setters: with_derive de-duplication, map insert/overwrite, "
               "conversion append) = real TypeSpaceSettings dump on %d option records with repeats" % len(cases),
               not mism, json.dumps(mism[:2])[:3000])
    ctx.coverage["settings_model_cases"] = len(cases)
    ctx.evaluations += len(cases)


def check_binary_io(ctx, unlisted):
    """Default output location, `-o -`, `-o path`, and nothing written/printed on failure (real binary)."""
    root = os.path.join(W, "io")
    shutil.rmtree(root, ignore_errors=True)
    os.makedirs(root)
    good = open(os.path.join(vlib.REPO, "example.json")).read()

    def snapshot():
        s = {}
        for dp, dn, fn in os.walk(root):
            for f in fn:
                p = os.path.join(dp, f)
                s[os.path.relpath(p, root)] = open(p, "rb").read()
        return s

    inputs = ["a/b.json", "schema", "a.b.c", ".hidden", "d.d/file", "d.d/file.tar.gz", "./x.json", "y.", "sub/../z.json",
              "été.json"]
    cases = []
    for i, inp in enumerate(inputs):
        cases.append({"input": inp, "output": None, "content": good})
    cases += [{"input": "o1.json", "output": "-", "content": good},
              {"input": "o2.json", "output": "out/put.txt", "content": good},
              {"input": "o3.json", "output": "./-", "content": good},
              {"input": "o4.json", "output": "o4.json.rs", "content": good}]
    for fn in sorted(os.listdir(CORPUS)):
        if fn.startswith("fail_"):
            cases.append({"input": "f/" + fn, "output": None, "content": open(os.path.join(CORPUS, fn)).read(), "fail": True})
            cases.append({"input": "g/" + fn, "output": "-", "content": open(os.path.join(CORPUS, fn)).read(), "fail": True})
            cases.append({"input": "h/" + fn, "output": "h/out.rs", "content": open(os.path.join(CORPUS, fn)).read(),
                          "fail": True})
    # failing OPTIONS on a good schema
    cases += [{"input": "p1.json", "output": None, "content": good, "fail": True, "extra": ["--crate", "no-at-sign"]},
              {"input": "p2.json", "output": None, "content": good, "fail": True, "extra": ["--unknown-crates", "bogus"]},
              {"input": "p3.json", "output": None, "content": good, "fail": True, "extra": ["--crate", "a@1.0"]},
              {"input": "p4.json", "output": None, "content": good, "fail": True, "extra": ["-b", "-B"]},
              {"input": "missing.json", "output": None, "content": None, "fail": True}]
    os.makedirs(os.path.join(root, "out"), exist_ok=True)
    exprs = []
    for c in cases:
        exprs.append("run_output_path %s %s" % (U(c["input"]), coq_opt_u(c["output"])))
    try:
        model = vlib.coq_eval_strings("c15io", HEADER, exprs, shard=100)
    except Exception as e:  # noqa
        ctx.oblige("model output_path evaluates", False, str(e)[-2000:])
        return
    bad = []
    for c, m in zip(cases, model):
        p = os.path.join(root, c["input"])
        os.makedirs(os.path.dirname(os.path.normpath(p)) or root, exist_ok=True)
        for d in ("sub", "h"):
            os.makedirs(os.path.join(root, d), exist_ok=True)
        if c["content"] is not None:
            open(p, "w").write(c["content"])
        before = snapshot()
        args = [c["input"]] + ([] if c["output"] is None else ["-o", c["output"]]) + c.get("extra", [])
        rc, out, err = run_cli(args, cwd=root)
        after = snapshot()
        new = {k: v for k, v in after.items() if before.get(k) != v}
        want = None if m == "-" else os.path.normpath(dec_u(m[1:]))
        rec = {"args": args, "rc": rc, "stdout_bytes": len(out), "written": sorted(new), "model_output_path": want}
        if c.get("fail"):
            if rc == 0 or out != "" or new:
                rec["expected"] = "exit != 0, empty stdout, no file written"
                bad.append(rec)
        else:
            if rc != 0:
                rec["expected"] = "success"
                rec["stderr"] = err[-500:]
                bad.append(rec)
            elif want is None:
                if new or not out.startswith("#![allow("):
                    rec["expected"] = "code on stdout, no file"
                    bad.append(rec)
            else:
                if sorted(os.path.normpath(k) for k in new) != [want] or out != "" or \
                        not new[sorted(new)[0]].startswith(b"#![allow("):
                    rec["expected"] = "exactly one file written: " + want
                    bad.append(rec)
        ctx.nontrivial.add("io:" + json.dumps(args))
    ctx.oblige("real binary: default output = input with extension .rs (= Coq output_path), `-o -` prints, "
               "`-o p` writes p, and failures (schema or option) write/print nothing; %d runs" % len(cases),
               not bad, json.dumps(bad[:3])[:3000])
    for b in bad:
        unlisted.append({"kind": "cli-output-behaviour", **b})
    ctx.coverage["binary_io_runs"] = {"total": len(cases), "failing_inputs": len([c for c in cases if c.get("fail")]),
                                      "departures": len(bad)}
    ctx.evaluations += len(cases)


def check_three_frontends(ctx, rnd, digits_defect, findings, unlisted):
    quick = ctx.tier == "quick"
    fixtures = fixture_schemas()
    wdir = os.path.join(W, "schemas")
    os.makedirs(wdir, exist_ok=True)
    copies = []
    for f in fixtures:
        dst = os.path.join(wdir, os.path.basename(f))
        shutil.copyfile(f, dst)
        copies.append(dst)

    # ---- probe crate: invocations expected to FAIL (one per line), plus the map_type probe
    maps = os.path.join(wdir, "maps.json")
    xrt = os.path.join(wdir, "xrt.json")
    probes = [
        ("map_type", 'typify::import_types!(schema = "%s", map_type = "::std::collections::BTreeMap");' % maps, None),
        ("bad-crate-name", 'typify::import_types!(schema = "%s", crates = { "bad name" = "1.0.0" });' % xrt, "fail"),
        ("bad-original", 'typify::import_types!(schema = "%s", crates = { "a" = "x y@1.0.0" });' % xrt, "fail"),
        ("bad-version", 'typify::import_types!(schema = "%s", crates = { "x" = "1.0" });' % xrt, "fail"),
        ("bad-version-2", 'typify::import_types!(schema = "%s", crates = { "r" = "x@" });' % xrt, "fail"),
        ("bad-policy", 'typify::import_types!(schema = "%s", unknown_crates = Sometimes);' % xrt, "fail"),
        ("rejected-schema", 'typify::import_types!(schema = "%s");' % os.path.join(CORPUS, "fail_default.json"), "fail"),
        ("bad-map-type", 'typify::import_types!(schema = "%s", map_type = "std::collections::BTreeMap::");' % maps, "fail"),
        ("digit-names", 'typify::import_types!(schema = "%s", crates = { "r2" = "base64@0.21.0", "my_util2" = "0.5.0" });'
         % xrt, "ok"),
        ("unicode-name", 'typify::import_types!(schema = "%s", crates = { "été" = "x@*" });' % xrt, "ok"),
    ]
    lib = PRELUDE
    line_of = {}
    for i, (name, inv, _) in enumerate(probes):
        lib += "pub mod p%d {\n" % i
        line_of[name] = lib.count("\n") + 1
        lib += inv + "\n}\n"
    d = scratch_crate("macro_probe", lib)
    t0 = time.time()
    rc, exp_path, err = expand_crate(d)
    errs = errors_by_line(err)
    ctx.log("probe crate expanded in %.1fs rc=%d" % (time.time() - t0, rc))
    if "could not compile" not in err and rc != 0:
        ctx.oblige("macro probe crate could be expanded", False, err[-3000:])
    probe_bad = []
    macro_map_ok = False
    for i, (name, inv, expect) in enumerate(probes):
        e = errs.get(line_of[name])
        if name == "map_type":
            macro_map_ok = e is None
            if e is None:
                continue
            if "macro-map-type-unusable" in findings and "expected a borrowed string" in e[0]:
                f = findings["macro-map-type-unusable"]
                ctx.known_finding(f["id"], "%s: %s (witness `%s` -> error: %s)" % (f["id"], f["summary"],
                                                                                   inv.split(", ", 1)[1], e[0]))
            else:
                unlisted.append({"kind": "macro-option-rejected", "input": inv, "observed": e,
                                 "expected": "map_type reaches the generator as with_map_type does"})
        elif expect == "fail" and e is None:
            probe_bad.append({"probe": name, "input": inv, "observed": "expanded without error", "expected": "error"})
        elif expect == "ok" and e is not None:
            probe_bad.append({"probe": name, "input": inv, "observed": e, "expected": "accepted"})
    ctx.oblige("macro probes: malformed crate names / versions / policy / rejected schema give a compile error, "
               "digit and unicode crate names are accepted (%d invocations)" % (len(probes) - 1), not probe_bad,
               json.dumps(probe_bad)[:3000])
    ctx.coverage["macro_probe_errors"] = {name: errs.get(line_of[name]) for name, _, _ in probes}
    # model side of the macro's parsers on the probe strings (letter = char::is_alphanumeric)
    mp = [("bad name", None), ("a", "x y@1.0.0"), ("x", "1.0"), ("r", "x@"), ("r2", "base64@0.21.0"),
          ("my_util2", "0.5.0"), ("été", "x@*")]
    mcps = sorted({ord(ch) for k, v in mp for ch in k + (v or "")})
    cls = vlib.run_bin("c15", [{"op": "chars", "cps": mcps}])[0]
    an = [c for c, b in zip(mcps, cls["alphanumeric"]) if b]
    pre = HEADER + "\nDefinition LET : list N := %s%%N.\nDefinition ACC : list ustring := [%s].\n" % (
        vlib.coq_list(an), "; ".join(U(v) for v in ["0.21.0", "0.5.0"]))
    exprs = []
    for k, v in mp:
        exprs.append("run_macro_name LET %s" % U(k))
        if v is not None:
            exprs.append("run_macro_spec LET ACC %s" % U(v))
    try:
        mm = vlib.coq_eval_strings("c15mac", pre, exprs, shard=100)
        want = ["-", "+97", "none", "+120", "none", "+114", "none", "+114,50", "some|+98,97,115,101,54,52|v48,46,50,49,46,48",
                "+109,121,95,117,116,105,108,50", "some|-|v48,46,53,46,48", "+233,116,233", "some|+120|*"]
        ctx.oblige("macro parser model (macro_parse_name / macro_parse_spec with is_alphanumeric) agrees with the "
                   "real macro's verdict on the probe strings", mm == want and not probe_bad, json.dumps(mm))
    except Exception as e:  # noqa
        ctx.oblige("macro parser model evaluates", False, str(e)[-1500:])

    # ---- option assignments
    n_macro_random = 8 if quick else 50
    n_cli_only = 24 if quick else 140
    cases = []
    # curated first (corpus): README examples and every option at least once
    curated = [
        ("example.json", {"struct_builder": True, "derives": ["schemars::JsonSchema"], "crates": []}),
        ("example.json", {"struct_builder": False, "derives": [], "crates": [],
                          "patch": {"Veggie": {"rename": "Vegetable"}},
                          "replace": {"Fruit": {"type": "crate::MyFruit", "impls": ["FromStr"]}}}),
        ("xrt.json", {"struct_builder": False, "derives": [], "unknown": "allow",
                      "crates": [{"name": "crate-o-types", "version": "1.0.1"},
                                 {"name": "x", "version": "*", "rename": "my-ren"}]}),
        ("xrt.json", {"struct_builder": True, "derives": ["PartialEq", "PartialEq"], "unknown": "deny",
                      "crates": [{"name": "crate-o-types", "version": "!"}, {"name": "std", "version": "1.0.0"}]}),
        ("x-rust-type.json", {"struct_builder": False, "derives": [], "crates": [{"name": "std", "version": "1.0.0"}]}),
        ("maps.json", {"struct_builder": False, "derives": [], "crates": [], "map_type": "::std::collections::BTreeMap",
                       "cli_only": not macro_map_ok}),
        # TypeAndImpls: explicit trait lists on replace (Id) and convert (x-token); Wrapper/Token are aliases of
        # the replaced/converted type, IdOrCount/TokenOrCount untagged enums over it: their FromStr/Display impls
        # exist iff the native type is said to have them
        ("impls.json", impls_case([["", "Default"]], [["?", "Display"]])),
        ("impls.json", impls_case([["?", "Display"]], [["", "Default"]])),
        ("impls.json", impls_case([["", "FromStr"], ["?", "Display"]], [["?", "FromStr"], ["?", "Display"]])),
        ("impls.json", impls_case([["", "Display"], ["", "Default"]], [["?", "FromStr"]])),
        ("impls.json", impls_case([], [["?", "FromStr"], ["", "Default"]])),
        ("impls.json", impls_case([["?", "Display"], ["", "Display"]], [["", "Display"], ["?", "Display"]])),
        ("impls.json", impls_case([["", "Hash"]], [])),
    ]
    curated += crates_product(not quick, not digits_defect)
    for base, o in map_product(not quick):
        curated.append((base, dict(o, cli_only=not macro_map_ok)))
    for base, o in curated:
        o = dict(o)
        o.setdefault("short", False)
        cases.append({"schema": os.path.join(wdir, base), "o": o, "macro": not o.pop("cli_only", False)})
    n_macro = len([c for c in cases if c["macro"]]) + n_macro_random
    while len([c for c in cases if c["macro"]]) < n_macro:
        s = rnd.choice(copies) if rnd.random() < 0.6 else rnd.choice(
            [os.path.join(wdir, b) for b in ("xrt.json", "example.json", "type-with-modified-generation.json", "maps.json",
                                             "impls.json")])
        cases.append({"schema": s, "o": gen_opts(rnd, s, True, True, macro_map_ok), "macro": True})
    for _ in range(n_cli_only):
        s = rnd.choice(copies)
        cases.append({"schema": s, "o": gen_opts(rnd, s, not digits_defect, False, True), "macro": False})
    for i, c in enumerate(cases):
        c["id"] = "c%d" % i

    # ---- TypeAndImpls: the builder gets the impl set the MODEL computes for the macro's trait list
    ents = [e for c in cases for e in list(c["o"].get("replace", {}).values()) + list(c["o"].get("convert", []))
            if "specs" in e]
    lists = sorted({json.dumps(e["specs"]) for e in ents})
    try:
        vals = vlib.coq_eval_strings("c15impls", HEADER, ["run_impls %s" % coq_specs(json.loads(l)) for l in lists],
                                     shard=200) if lists else []
        table = {l: [x for x in v.split("/") if x] for l, v in zip(lists, vals)}
        for e in ents:
            e["impls"] = table[json.dumps(e["specs"])]
        ctx.coverage["type_and_impls_lists"] = {spec_syntax(json.loads(l)) or "(none)": table[l] for l in lists}
    except Exception as e:  # noqa
        ctx.oblige("model impls_of_specs evaluates", False, str(e)[-1500:])
        cases = [c for c in cases if not any("specs" in e for e in list(c["o"].get("replace", {}).values()) +
                                             list(c["o"].get("convert", [])))]
    n_lists_cases = len([c for c in cases if c["macro"] and any(
        e.get("specs") for e in list(c["o"].get("replace", {}).values()) + list(c["o"].get("convert", [])))])
    ctx.coverage["type_and_impls_macro_cases_with_explicit_list"] = n_lists_cases

    # ---- builder
    t0 = time.time()
    bres = vlib.run_vh("gen", [{"settings": builder_settings_json(c["o"]),
                                "steps": [{"op": "root", "doc": json.load(open(c["schema"]))}], "code": False}
                               for c in cases])
    for c, r in zip(cases, bres):
        c["builder_ok"] = bool(r.get("all_ok")) and r.get("render", {}).get("r") == "ok"
        c["builder_tokens"] = r["render"]["tokens"] if c["builder_ok"] else None
        c["builder_steps"] = r.get("steps")
    ctx.log("builder: %d cases, %d ok (%.1fs)" % (len(cases), len([c for c in cases if c["builder_ok"]]), time.time() - t0))

    # ---- CLI
    t0 = time.time()

    def cli_one(c):
        o = c["o"]
        if o.get("patch") or o.get("replace") or o.get("convert"):
            return None                       # not expressible in the CLI
        if digits_defect and has_digit_names(o):
            return "skipped-known-digits"
        return run_cli([c["schema"], "-o", "-"] + emu_cli_flags(cli_flags(o)))

    with ThreadPoolExecutor(max_workers=min(8, vlib.NCPU)) as ex:
        cres = list(ex.map(cli_one, cases))
    ctx.log("cli: %.1fs" % (time.time() - t0))
    cmp_in = []
    cmp_idx = []
    cli_bad = []
    n_cli = n_cli_skipped = 0
    for c, r in zip(cases, cres):
        c["cli_text"] = None
        if r is None:
            continue
        if r == "skipped-known-digits":
            n_cli_skipped += 1
            continue
        n_cli += 1
        rc, out, err = r
        if c["builder_ok"]:
            if rc != 0:
                cli_bad.append({"kind": "cli-fails-where-builder-succeeds", "schema": c["schema"], "options": c["o"],
                                "flags": cli_flags(c["o"]), "stderr": err[-600:]})
            else:
                c["cli_text"] = out
                cmp_idx.append(c)
        else:
            if rc == 0 or out:
                cli_bad.append({"kind": "cli-succeeds-where-builder-fails", "schema": c["schema"], "options": c["o"],
                                "builder": c["builder_steps"]})
    with ThreadPoolExecutor(max_workers=min(8, vlib.NCPU)) as ex:
        fm = list(ex.map(lambda c: (rustfmt_text(c["cli_text"]), rustfmt_text(c["builder_tokens"])), cmp_idx))
    cmp_in = [{"op": "cmp", "cli": a, "builder": b} for a, b in fm]
    cmps = vlib.run_bin("c15", cmp_in) if cmp_in else []
    n_items = 0
    for c, r in zip(cmp_idx, cmps):
        n_items += r.get("n_items", 0)
        if r.get("r") != "ok" or not r["equal"] or not r["header_ok"] or r["builder_attrs"] != 0:
            cli_bad.append({"kind": "cli-items-differ-from-builder", "schema": c["schema"], "options": c["o"],
                            "flags": cli_flags(c["o"]), "compare": {k: v for k, v in r.items() if k != "header"}})
        ctx.nontrivial.add("cli:" + os.path.basename(c["schema"]) + json.dumps(c["o"], sort_keys=True))
    ctx.oblige("CLI = builder: `cargo-typify typify <schema> -o - <flags>` parsed with syn, minus the 4-line lint "
               "header, equals the builder's token stream item by item (%d runs, %d items)" % (len(cmp_idx), n_items),
               not cli_bad, json.dumps(cli_bad[:2])[:3000])
    unlisted.extend(cli_bad)
    ctx.evaluations += len(cmp_idx)

    # ---- macro: one scratch crate, three modules per case
    mcases = [c for c in cases if c["macro"] and c["builder_ok"]]
    lib = PRELUDE
    files = {}
    for c in mcases:
        lib += "pub mod %s_macro {\n    %s\n}\n" % (c["id"], macro_invocation(c["schema"], emu_macro_opts(c["o"])))
        lib += "pub mod %s_builder;\n" % c["id"]
        files["%s_builder.rs" % c["id"]] = c["builder_tokens"]
        # (the CLI text is NOT added as a third module: it went through rustfmt, which rewrites
        #  `|e| { x }` to `|e| x`; CLI = builder is decided above with both sides formatted alike)
    # the duplicate-original experiment: the same invocation 6 times (each HashMap has its own RandomState)
    dup_inv = ('typify::import_types!(schema = "%s", crates = { "aaa" = "x@1.0.0", "bbb" = "x@2.0.0" });' % xrt)
    n_dup = 6
    for k in range(n_dup):
        lib += "pub mod dup%d_macro {\n    %s\n}\n" % (k, dup_inv)
    d = scratch_crate("macro_0", lib, files)
    t0 = time.time()
    rc, exp_path, err = expand_crate(d)
    ctx.log("macro crate (%d cases) expanded in %.1fs rc=%d" % (len(mcases), time.time() - t0, rc))
    bad_lines = errors_by_line(err)
    if bad_lines or (rc != 0 and "could not compile" not in err):
        ctx.oblige("macro scratch crate expands (all %d invocations accepted by import_types!)" % len(mcases), False,
                   err[-4000:])
        unlisted.append({"kind": "macro-fails-where-builder-succeeds", "errors": {str(k): v for k, v in bad_lines.items()},
                         "crate": d})
        return
    r = vlib.run_bin("c15", [{"op": "expanded", "path": exp_path,
                              "cases": [{"id": c["id"], "schema": c["schema"]} for c in mcases]}])[0]
    mbad = []
    if r.get("r") != "ok":
        ctx.oblige("expanded macro crate parses with syn", False, json.dumps(r)[:2000])
        return
    n_three = 0
    for c, x in zip(mcases, r["cases"]):
        okc = x.get("r") == "ok" and x["macro_eq_builder"] and x["anchor_ok"]
        if c["cli_text"] is not None:
            n_three += 1            # the same (schema, options) also went through the CLI = builder comparison
        if not okc:
            mbad.append({"kind": "macro-items-differ-from-builder", "schema": c["schema"], "options": c["o"],
                         "invocation": macro_invocation(c["schema"], c["o"]), "compare": x})
        ctx.nontrivial.add("macro:" + os.path.basename(c["schema"]) + json.dumps(c["o"], sort_keys=True))
    ctx.oblige("macro = builder: two modules per case of ONE crate expanded with -Zunpretty=expanded (derives "
               "expanded alike), macro module minus its include_str! anchor equals the builder module item by item; "
               "%d option assignments, %d of them also through the CLI = builder comparison" % (len(mcases), n_three),
               not mbad, json.dumps(mbad[:2])[:3500])
    unlisted.extend(mbad)
    ctx.evaluations += len(mcases)
    ctx.samples = [{"schema": os.path.basename(c["schema"]), "options": c["o"],
                    "cli_flags": cli_flags(c["o"]) if c["cli_text"] is not None else None} for c in mcases[:10]]
    map_cov = {}
    for c in cases:
        m = c["o"].get("map_type")
        if m is not None:
            e = map_cov.setdefault(m, {"builder_ok": 0, "builder_rejects": 0, "cli_compared": 0, "macro_compared": 0,
                                       "occurrences_in_builder_tokens": 0})
            e["builder_ok" if c["builder_ok"] else "builder_rejects"] += 1
            e["cli_compared"] += 1 if c.get("cli_text") is not None else 0
            e["macro_compared"] += 1 if c in mcases else 0
            if c["builder_ok"] and m.strip():
                e["occurrences_in_builder_tokens"] += c["builder_tokens"].count(m.strip().replace("::", " :: ").strip() + " <")
    product_cov = {}
    for c in mcases:
        txt = open(c["schema"]).read()
        xnames = set(re.findall(r'"crate"\s*:\s*"([^"]+)"', txt))
        pol = c["o"].get("unknown") or "default"
        ents = c["o"]["crates"] or [None]
        for e in ents:
            if e is None:
                key = "absent|policy=%s|schema=%s" % (pol, "has-x-rust-type" if xnames else "none")
            else:
                vc = e["version"] if e["version"] in ("!", "*") else "version"
                rel = "for-this-crate" if e["name"] in xnames else ("for-other-crates" if xnames else "none")
                key = "%s%s|policy=%s|schema=%s" % (vc, "+rename" if e.get("rename") else "", pol, rel)
            product_cov[key] = product_cov.get(key, 0) + 1
    dist = {}
    for c in cases:
        for k in ("map_type", "unknown", "patch", "replace", "convert"):
            if c["o"].get(k):
                dist[k] = dist.get(k, 0) + 1
        if c["o"]["crates"]:
            dist["crates"] = dist.get("crates", 0) + 1
        if c["o"]["derives"]:
            dist["derives"] = dist.get("derives", 0) + 1
        if c["o"]["struct_builder"]:
            dist["struct_builder"] = dist.get("struct_builder", 0) + 1
        b = os.path.basename(c["schema"])
        dist["schema:" + b] = dist.get("schema:" + b, 0) + 1
    ctx.coverage["three_frontends"] = {
        "option_assignments": len(cases), "builder_ok": len([c for c in cases if c["builder_ok"]]),
        "cli_runs": n_cli, "cli_skipped_digit_names(known finding)": n_cli_skipped, "cli_vs_builder_compared": len(cmp_idx),
        "macro_cases": len(mcases), "all_three": n_three, "items_compared_cli": n_items, "distribution": dist,
        "macro_map_type_usable": macro_map_ok,
        "macro_cases_with_map_type": len([c for c in mcases if c["o"].get("map_type")]),
        "crates_x_policy_product": product_cov, "map_type_spellings": map_cov}

    # ---- duplicate original crate names in the macro's `crates` map
    mt = vlib.run_bin("c15", [{"op": "modtext", "path": exp_path, "modules": ["dup%d_macro" % k for k in range(n_dup)]}])[0]
    winners = []
    for m in mt.get("modules", []):
        t = m.get("text") or ""
        winners.append("aaa" if ": : aaa : : Thing" in t else "bbb" if ": : bbb : : Thing" in t else "none")
    ctx.coverage["macro_duplicate_original_winners"] = winners
    if len(set(winners)) > 1 or "none" in winners:
        if "macro-duplicate-original-crate-order" in findings and "none" not in winners:
            f = findings["macro-duplicate-original-crate-order"]
            ctx.known_finding(f["id"], "%s: %s (this run: %d identical invocations expanded to %s)" % (
                f["id"], f["summary"], n_dup, winners))
        else:
            unlisted.append({"kind": "macro-expansion-not-a-function-of-options", "input": dup_inv, "observed": winners})
    else:
        ctx.coverage["macro_duplicate_original_note"] = "all %d expansions agreed this run (%s)" % (n_dup, winners[0])
