"""C18 — the builder interface constructs exactly the valid structs.

Deciding method: Coq theorems (Props/C18.v) over `Algo/Builder.v`, a model of
the builder template of output_struct (type_entry.rs:1113-1325) and of
generate_serde_attr (structs.rs:336-418) in which Rust values, Default::default,
the emitted default functions and TryInto are section variables.

Tie, every run: a compiled world (struct_builder = true) of seeded object
schemas; for every generated struct a driver chunk (generated from the IR dump
and the syn scan) runs the REAL builder: setters in order (arguments: a value of
the field type, `&str`, `String`, `i64`, or the inner `T` of an `Option<T>`),
`try_into()`, `From<struct>`; plus `de`, `Default::default()` and the default
functions.  Compared (a) with the Coq model evaluated on the dumped IR (ok/err,
every field value, exact message), (b) directly with the property text using
oracles that only look at the SCHEMA (required list, enum members, maxLength,
pattern, integer ranges).
"""
import itertools
import json
import os
import random
import re

import tocoq
import vlib
import world

THEOREMS = [
    "C18_build_ok_iff",
    "C18_build_value",
    "C18_build_first_error",
    "C18_required_iff_no_default",
    "C18_unset_defaults_eq_de",
    "C18_de_defaults_eq_unset",
    "C18_unset_defaults_built_eq_de",
    "C18_flatten_required_refuted",
    "C18_flatten_optional_refuted",
    "C18_bad_setter_fails_build",
    "C18_bad_setter_names_prop",
    "C18_missing_names_prop",
    "C18_earlier_failure_masks_later",
    "C18_setter_overwrites",
    "C18_from_then_build_id",
    "C18_builder_path",
    "C18_builder_path_item",
]

MUT = os.environ.get("C18_MUTATE", "")

# --------------------------------------------------------------------------
# schema generator
# --------------------------------------------------------------------------
HELPERS = {
    "Color": {"type": "string", "enum": ["red", "green", "blue"]},
    "Short": {"type": "string", "maxLength": 3},
    "Pat": {"type": "string", "pattern": "^[a-z]+$"},
    "Inner": {"type": "object", "properties": {"x": {"type": "integer", "default": 7}, "y": {"type": "string"}}},
    "Pair": {"type": "object", "required": ["k"],
             "properties": {"k": {"type": "integer"}, "w": {"type": "boolean", "default": True}}},
    # types that carry a TYPE-level default (impl Default for the type itself)
    "ShortD": {"type": "string", "maxLength": 16, "default": "batch"},
    "EnumNT": {"type": "integer", "enum": [1, 2, 3], "default": 2},
    "AliasD": {"$ref": "#/definitions/Color", "default": "green"},
    "AliasS": {"type": "string", "default": "al"},
    "Level": {"type": "string", "enum": ["lo", "hi"], "default": "hi"},
    "CfgD": {"type": "object", "properties": {"n": {"type": "integer"}}, "default": {"n": 4}},
    "Retries": {"type": "integer", "format": "uint32", "default": 3},
    "Ratio": {"type": "number", "default": 1.5},
    "Flag": {"type": "boolean", "default": True},
}

# kind -> (schema, valid values, default candidates)
KINDS = {
    "int": ({"type": "integer"}, [0, 1, -5, 2 ** 40], [5, 0, -3]),
    "u8": ({"type": "integer", "format": "uint8"}, [0, 7, 255], [9, 0]),
    "i32": ({"type": "integer", "format": "int32"}, [0, -7, 2 ** 31 - 1], [-4]),
    "str": ({"type": "string"}, ["", "hi", "été"], ["hi", ""]),
    "bool": ({"type": "boolean"}, [True, False], [True, False]),
    "num": ({"type": "number"}, [1.5, 0.0, -2.25], [1.5]),
    "vec": ({"type": "array", "items": {"type": "integer"}}, [[], [1, 2]], [[1, 2], []]),
    "map": ({"type": "object", "additionalProperties": {"type": "string"}}, [{}, {"k": "v"}], [{"k": "v"}, {}]),
    "nullable": ({"type": ["string", "null"]}, [None, "s"], [None, "d"]),
    "any": ({}, [None, 1, "x", {"a": [1]}], []),
    "color": ({"$ref": "#/definitions/Color"}, ["red", "blue"], ["green"]),
    "short": ({"$ref": "#/definitions/Short"}, ["", "abc", "ééé"], ["ab"]),
    "pat": ({"$ref": "#/definitions/Pat"}, ["abc", "z"], ["xyz"]),
    "inner": ({"$ref": "#/definitions/Inner"}, [{}, {"x": 1, "y": "s"}], [{"x": 3}, {}]),
    "pair": ({"$ref": "#/definitions/Pair"}, [{"k": 1}, {"k": 2, "w": False}], [{"k": 4}]),
    "onoff": ({"type": "string", "enum": ["on", "off"]}, ["on", "off"], ["off"]),
    # the remaining IR kinds: unit, NonZero, f32, natives, set, tuple, fixed-size array
    "unit": ({"type": "null"}, [None], [None]),
    "nonzero": ({"type": "integer", "minimum": 1}, [1, 9], [4]),
    "f32": ({"type": "number", "format": "float"}, [1.5, 0.0], [2.5]),
    "uuid": ({"type": "string", "format": "uuid"}, ["8f14e45f-ceea-467f-9a3b-0f2a3d1e5c77"], []),
    "datetime": ({"type": "string", "format": "date-time"}, ["2020-01-02T03:04:05Z"], []),
    "date": ({"type": "string", "format": "date"}, ["2021-12-31"], []),
    "ip": ({"type": "string", "format": "ip"}, ["10.0.0.1", "::1"], []),
    "set": ({"type": "array", "items": {"type": "string"}, "uniqueItems": True}, [[], ["a"]], [[]]),
    "tuple": ({"type": "array", "items": [{"type": "integer"}, {"type": "string"}], "minItems": 2, "maxItems": 2},
              [[1, "a"], [0, ""]], []),
    "array": ({"type": "array", "items": {"type": "integer"}, "minItems": 3, "maxItems": 3}, [[1, 2, 3]], []),
    # property types WITH a type-level default, by reference …
    "shortd": ({"$ref": "#/definitions/ShortD"}, ["", "batch", "abcdefghijklmnop"], ["dd", "batch", ""]),
    "enumnt": ({"$ref": "#/definitions/EnumNT"}, [1, 3], [3, 2]),
    "aliasd": ({"$ref": "#/definitions/AliasD"}, ["red", "blue"], ["blue", "green"]),
    "aliass": ({"$ref": "#/definitions/AliasS"}, ["", "zz"], ["q", "al", ""]),
    "level": ({"$ref": "#/definitions/Level"}, ["lo", "hi"], ["lo", "hi"]),
    "cfgd": ({"$ref": "#/definitions/CfgD"}, [{}, {"n": 1}], [{"n": 2}, {"n": 4}, {}]),
    "retries": ({"$ref": "#/definitions/Retries"}, [0, 3, 7], [0, 3, 5]),
    "ratio": ({"$ref": "#/definitions/Ratio"}, [0.0, 1.5, -2.25], [0.0, 1.5, 2.5]),
    "flag": ({"$ref": "#/definitions/Flag"}, [True, False], [False, True]),
    # Option of a type with a type-level default (member default null = the Option's own zero)
    "oretries": ({"oneOf": [{"$ref": "#/definitions/Retries"}, {"type": "null"}]}, [None, 3, 0], [0, 3, 5, None]),
    "oshortd": ({"oneOf": [{"$ref": "#/definitions/ShortD"}, {"type": "null"}]}, [None, "", "batch"],
                ["", "batch", "dd", None]),
    "olevel": ({"oneOf": [{"$ref": "#/definitions/Level"}, {"type": "null"}]}, [None, "lo"], ["hi", "lo", None]),
    "oaliass": ({"oneOf": [{"$ref": "#/definitions/AliasS"}, {"type": "null"}]}, [None, "zz"], ["", "al", None]),
    # … and inline (titled, the schema itself carries `default`: a non-required property of these kinds is
    # always in state Default, a required one is Required with a type that implements Default)
    "ishort": ({"title": None, "type": "string", "maxLength": 5, "default": "abc"}, ["", "abcde"], None),
    "ilevel": ({"title": None, "type": "string", "enum": ["lo", "hi"], "default": "hi"}, ["lo", "hi"], None),
    "ienumnt": ({"title": None, "type": "integer", "enum": [1, 2, 3], "default": 2}, [1, 3], None),
    "icfg": ({"title": None, "type": "object", "properties": {"m": {"type": "integer"}}, "default": {"m": 5}},
             [{}, {"m": 1}], None),
}
# kinds used by curated corpus cases only (recursive types; their definitions are in the corpus case)
KINDS["node"] = ({"$ref": "#/definitions/Node"}, [{"val": 1}, {"val": 2, "next": {"val": 3}}], [])
KINDS["rb"] = ({"$ref": "#/definitions/RB"}, [{}, {"next": {}, "kids": [{}]}], [])
KINDS["rbs"] = ({"type": "array", "items": {"$ref": "#/definitions/RB"}}, [[], [{}, {"next": {}}]], [])
KINDS["alpha"] = ({"$ref": "#/definitions/Alpha"},
                  [{"name": "n"}, {"name": "m", "zed": {"alpha": {"name": "i"}, "n": 5}}], [])
KINDS["zed"] = ({"$ref": "#/definitions/Zed"}, [{"alpha": {"name": "x"}}, {"alpha": {"name": "y"}, "n": 0}], [])
KINDS["pa"] = ({"$ref": "#/definitions/Pa"}, [{"id": 1}, {"id": 2, "q": {"label": "l", "pa": {"id": 3}}}], [])
KINDS["qa"] = ({"$ref": "#/definitions/Qa"}, [{"label": "a", "pa": {"id": 4}}], [])
# containers OF a named generated type (seed C18-s7: the element type of `[T; N]` rendered in the wrong module
# scope inside `mod builder`); forced as Required members only, never drawn by the random stream
KINDS["arrinner"] = ({"type": "array", "items": {"$ref": "#/definitions/Inner"}, "minItems": 2, "maxItems": 2},
                     [[{}, {"x": 1}]], [])
KINDS["tupinner"] = ({"type": "array", "items": [{"$ref": "#/definitions/Inner"}, {"$ref": "#/definitions/Color"}],
                      "minItems": 2, "maxItems": 2}, [[{"x": 2}, "red"]], [])
KINDS["vecinner"] = ({"type": "array", "items": {"$ref": "#/definitions/Inner"}}, [[], [{}, {"y": "s"}]], [])
KINDS["mapinner"] = ({"type": "object", "additionalProperties": {"$ref": "#/definitions/Inner"}},
                     [{}, {"k": {"x": 3}}], [])
CORPUS_ONLY = {"node", "rb", "rbs", "alpha", "zed", "pa", "qa", "arrinner", "tupinner", "vecinner", "mapinner"}
TD_KINDS = ["shortd", "enumnt", "aliasd", "aliass", "level", "cfgd", "retries", "ratio", "flag",
            "oretries", "oshortd", "olevel", "oaliass", "ishort", "ilevel", "ienumnt", "icfg"]


ALL_REQ_KINDS = ["unit", "bool", "int", "u8", "i32", "nonzero", "num", "f32", "str", "uuid", "datetime", "date", "ip",
                 "nullable", "vec", "map", "set", "tuple", "array", "color", "onoff", "inner", "pair", "short", "pat", "any",
                 "arrinner", "tupinner", "vecinner", "mapinner"]


def force_list():
    """(kind, state, member default) for every type-with-default kind: Required, no member default, and every
    member default candidate (equal to the type's own default / the inner type's zero / another valid value)"""
    out = []
    for k_ in TD_KINDS:
        defs = KINDS[k_][2]
        out.append((k_, "required", None))
        if defs is None:
            out.append((k_, "default", None))     # inline: the schema's own default
            continue
        out.append((k_, "optional", None))
        for d_ in defs:
            out.append((k_, "default", d_))
    # a member of EVERY IR kind as a Required member (unset / set / failing `Bad` argument are generated per field)
    for k_ in ALL_REQ_KINDS:
        out.append((k_, "required", None))
    return out
# string arguments for the `&str` / `String` setter modes: (value, schema-valid?)
STR_ARGS = {
    "color": [("red", True), ("purple", False), ("", False), ("Red", False)],
    "short": [("ab", True), ("abcd", False), ("ééé", True), ("éééé", False)],
    "pat": [("abc", True), ("ABC", False), ("", False), ("ab1", False)],
    "onoff": [("on", True), ("maybe", False)],
    "str": [("anything", True), ("", True)],
    "shortd": [("ok", True), ("x" * 17, False), ("é" * 16, True)],
    "ishort": [("ok", True), ("abcdef", False)],
    "level": [("lo", True), ("mid", False)],
    "ilevel": [("hi", True), ("", False)],
    "aliasd": [("red", True), ("pink", False)],
    "aliass": [("anything", True), ("", True)],
    "retries": [("5", True), ("0", True), ("-1", False), ("x", False), ("4294967296", False)],
    "ratio": [("2.5", True), ("abc", False)],
    "flag": [("true", True), ("false", True), ("yes", False)],
}
# JSON member equivalent to a string setter argument (FromStr of the inner type)
STR_JSON = {"retries": int, "ratio": float, "flag": lambda x: x == "true"}
ENUM_INTS = {"enumnt": (1, 2, 3), "ienumnt": (1, 2, 3)}
INT_RANGE = {"int": (-2 ** 63, 2 ** 63 - 1), "u8": (0, 255), "i32": (-2 ** 31, 2 ** 31 - 1)}
INT_ARGS = [0, 7, -1, 255, 256, 2 ** 31, -2 ** 31 - 1, 2 ** 40, 1, 2, 3]

# JSON names; the sanitised identifiers are pairwise distinct and none is `extra`
NAMES = ["a", "b", "c", "d", "e", "f", "g", "h", "type", "ref", "fn", "match", "self", "fooBar", "kebab-name",
         "x y", "9lives", "$id", "Übung", "value", "default"]
ADDL = [None, None, False, {"type": "integer"}, {"type": "string"}]


HELPER_META = {
    "Inner": {"props": [{"json": "x", "kind": "int", "state": "default", "default": 7},
                        {"json": "y", "kind": "str", "state": "optional", "default": None}], "addl": None},
    "Pair": {"props": [{"json": "k", "kind": "int", "state": "required", "default": None},
                       {"json": "w", "kind": "bool", "state": "default", "default": True}], "addl": None},
}


HELPER_META["CfgD"] = {"props": [{"json": "n", "kind": "int", "state": "optional", "default": None}], "addl": None}


def gen_struct(rnd, n, tprefix="T", force=()):
    """force: [(kind, state, default)] for the first properties (state "required" | "optional" | "default")"""
    n = max(n, len(force))
    names = rnd.sample(NAMES, n)
    props = {}
    required = []
    spec = []
    for j, nm in enumerate(sorted(names)):
        kind = rnd.choice(sorted(k_ for k_ in KINDS if k_ not in CORPUS_ONLY))
        fstate, fdefault = None, None
        if j < len(force):
            kind, fstate, fdefault = force[j]
        if kind == "onoff" and not nm.isascii():
            # the inline enum would be named after the property (S0Übung); py/world.py writes type names
            # into the dispatch table with json.dumps, whose \\uXXXX escapes are not Rust
            kind = "color"
        schema, vals, defs = KINDS[kind]
        s = json.loads(json.dumps(schema))
        inline = defs is None
        if inline:
            s["title"] = "%sx%d%s" % (tprefix, j, kind.capitalize())
        r = rnd.random()
        if fstate == "required" or (fstate is None and r < 0.4):
            state = "required"
            required.append(nm)
        elif inline:
            state = "default"          # the schema's own `default`
        elif fstate == "default":
            state = "default"
            s["default"] = fdefault
        elif fstate == "optional" or r < 0.7 or not defs:
            state = "optional"
        else:
            state = "default"
            s["default"] = rnd.choice(defs)
        props[nm] = s
        spec.append({"json": nm, "kind": kind, "state": state,
                     "default": s.get("default") if state == "default" else None})
    sch = {"type": "object", "properties": props}
    if required:
        sch["required"] = required
    addl = rnd.choice(ADDL)
    if addl is not None:
        sch["additionalProperties"] = addl
    return sch, {"props": spec, "addl": addl}


def gen_cases(ctx):
    """-> list of (case, meta); meta = {struct name: spec}"""
    rnd = random.Random(ctx.seed * 7919 + 18)
    out = []
    nmods = 22 if ctx.tier == "quick" else 100
    sizes = list(range(0, 9))
    FORCE = force_list()
    assert len(FORCE) <= 2 * 4 * nmods
    k = 0
    for m in range(nmods):
        defs = dict(HELPERS)
        meta = dict(HELPER_META) if m % 4 == 0 else {}
        for j in range(3):
            n = sizes[k % len(sizes)] if m < 9 else rnd.choice(sizes)
            k += 1
            # every seed: each type-with-default kind Required, without member default, and with every member
            # default candidate (4 forced members per struct, structs S0/S1 of the first modules)
            force = ()
            if j < 2:
                at = (2 * m + j) * 4
                force = tuple(FORCE[at:at + 4])
            sch, spec = gen_struct(rnd, n, "S%d" % j, force)
            nm = "S%d" % j
            defs[nm] = sch
            meta[nm] = spec
        settings = {"struct_builder": True}
        if m % 7 == 3:
            settings["type_mod"] = "types"
        doc = {"$schema": "http://json-schema.org/draft-07/schema#", "definitions": defs}
        out.append(({"settings": settings, "steps": [{"op": "root", "doc": doc}]}, meta))
    return out


def corpus_cases():
    """curated cases (corpus/C18/*.json): {"case":…, "meta":…, "note":…}"""
    d = os.path.join(vlib.ROOT, "corpus", "C18")
    out = []
    if os.path.isdir(d):
        for fn in sorted(os.listdir(d)):
            if fn.endswith(".json"):
                j = json.load(open(os.path.join(d, fn)))
                out.append((j["case"], j.get("meta", {}), fn))
    return out


# --------------------------------------------------------------------------
# driver chunks
# --------------------------------------------------------------------------
PRIM_INTS = {"i8", "i16", "i32", "i64", "u8", "u16", "u32", "u64"}


def struct_views(gen):
    """[(name, id, irprops, scanfields)] for every struct of the dump that the
    scan shows as a root-module struct with named fields and a builder."""
    dump = gen.get("dump") or {}
    scan = gen.get("render", {}).get("scan", {})
    root = {it["name"]: it for it in scan.get("items", []) if it["kind"] == "struct" and it["mod"] == ""}
    bld = {it["name"] for it in scan.get("items", []) if it["kind"] == "struct" and it["mod"] == "builder"}
    out = []
    for k, e in sorted(dump.get("entries", {}).items(), key=lambda kv: int(kv[0])):
        if e["kind"] != "struct" or e["name"] not in root or e["name"] not in bld:
            continue
        sf = root[e["name"]]["fields"]
        if sf.get("k") != "named" and e["props"]:
            continue
        out.append((e["name"], int(k), e["props"], sf.get("fields", [])))
    return out


def tryfrom_table(scan):
    t = {}
    for im in scan.get("impls", []):
        if im["mod"] != "" or not im.get("trait"):
            continue
        tr = re.sub(r"\s+", "", im["trait"])
        ty = re.sub(r"\s+", "", im["for"])
        t.setdefault(ty, set()).add(tr)
    return t


def type_key(ty):
    """one key per Rust type for the token spellings typify uses (`Vec<..>` for sets, `::std::vec::Vec<..>` for arrays)"""
    return norm_tokens(ty).replace("::std::vec::Vec<", "Vec<")


def named_local(ent, tid):
    """name of the generated (crate-local) named type with this id, or None"""
    e = ent[str(tid)]
    return e["name"] if e["kind"] in ("struct", "enum", "newtype") else None


def field_modes(gen, prop, sfield, tft):
    """setter-argument modes the driver offers for this field (decided from IR + scan)."""
    ent = gen["dump"]["entries"]
    e = ent[str(prop["type_id"])]
    modes = ["v"]
    if e["kind"] == "integer" and e["name"] in PRIM_INTS:
        modes.append("i")
    if e["kind"] == "string":
        modes += ["s", "S"]
    if e["kind"] in ("enum", "newtype"):
        tr = tft.get(e["name"], set())
        if any(x.endswith("TryFrom<&str>") for x in tr):
            modes.append("s")
        if any(x.endswith("TryFrom<::std::string::String>") for x in tr):
            modes.append("S")
        if any(x.endswith("TryFrom<i64>") for x in tr):
            modes.append("i")
    if e["kind"] == "option":
        m = re.match(r"^:: std :: option :: Option < (.*) >$", sfield["ty"])
        if m:
            modes.append("o")
    # "b": a driver-local type `Bad` whose conversion into the member type always fails.  `impl TryFrom<Bad> for FT`
    # is allowed for EVERY member type (the local type is the trait's parameter), so the failing-conversion
    # oracles run on every member of every kind: (), bool, ints, NonZero, floats, String, natives, Option, Vec, maps,
    # sets, tuples, arrays, Box, enums, structs, newtypes, serde_json::Value
    modes.append("b")
    # "B": the member struct's own builder as the argument (TryInto fails when a required field is unset)
    if e["kind"] == "struct":
        modes.append("B")
    return modes


def rs_str(x):
    """Rust string literal"""
    out = ['"']
    for c in x:
        if c in '\\"':
            out.append("\\" + c)
        elif 32 <= ord(c) < 127:
            out.append(c)
        else:
            out.append("\\u{%x}" % ord(c))
    out.append('"')
    return "".join(out)


def option_inner(ty):
    m = re.match(r"^:: std :: option :: Option < (.*) >$", ty)
    return m.group(1)


def chunks_fn(i, gen):
    if not gen.get("dump", {}).get("settings", {}).get("struct_builder"):
        return []
    scan = gen["render"]["scan"]
    tft = tryfrom_table(scan)
    chunks = []
    for name, sid, props, sfields in struct_views(gen):
        if len(props) != len(sfields) or any(p["name"] != f["name"] for p, f in zip(props, sfields)):
            continue  # reported by the template tie
        L = []
        mod = "c18_%s" % name
        L.append("pub mod %s {" % mod)
        L.append("use super::super::*;")
        L.append("type S = super::super::%s;" % name)
        L.append("type B = super::super::builder::%s;" % name)
        L.append("fn tv<T: ::serde::Serialize>(x: &T) -> ::serde_json::Value { ::serde_json::to_value(x)"
                 ".unwrap_or(::serde_json::json!({\"$ser_err\": true})) }")
        L.append("fn fields(s: &S) -> ::serde_json::Value { let mut v: Vec<::serde_json::Value> = Vec::new();")
        for f in sfields:
            L.append("  v.push(::serde_json::json!([%s, tv(&s.%s)]));" % (rs_str(f["name"]), f["name"]))
        L.append("  ::serde_json::Value::Array(v) }")
        # driver-local argument type with an always-failing conversion into every crate-local member type
        ent_ = gen["dump"]["entries"]
        bad_targets = {}
        for p, f in zip(props, sfields):
            e_ = ent_[str(p["type_id"])]
            bad_targets.setdefault(type_key(f["ty"]), f["ty"])
            if e_["kind"] == "box" and named_local(ent_, e_["id"]):
                # both Box<X> (what the setter converts into today) and X
                bad_targets.setdefault(type_key(named_local(ent_, e_["id"])), named_local(ent_, e_["id"]))
        # Box<X> members (cycle breaking): the "v" argument goes through a driver-local wrapper that converts into
        # Box<X> as well as into X, so that this chunk keeps compiling (and the message oracle keeps running) if the
        # setter's bound changes between the two; passing Box<X> / X themselves is asserted by the small chunk c18t_*
        boxed = {}
        for p, f in zip(props, sfields):
            e_ = ent_[str(p["type_id"])]
            if e_["kind"] == "box" and named_local(ent_, e_["id"]):
                boxed[f["name"]] = named_local(ent_, e_["id"])
                L.append("pub struct Wrap_%s(pub %s);" % (f["name"], f["ty"]))
                L.append("impl ::std::convert::TryFrom<Wrap_%s> for %s { type Error = ::std::string::String; "
                         "fn try_from(w: Wrap_%s) -> ::std::result::Result<Self, ::std::string::String> { Ok(w.0) } }" % (
                             f["name"], f["ty"], f["name"]))
                L.append("impl ::std::convert::TryFrom<Wrap_%s> for %s { type Error = ::std::string::String; "
                         "fn try_from(w: Wrap_%s) -> ::std::result::Result<Self, ::std::string::String> { Ok(*w.0) } }" % (
                             f["name"], boxed[f["name"]], f["name"]))
        L.append("pub struct Bad(pub ::std::string::String);")
        for t_ in sorted(bad_targets.values()):
            L.append("impl ::std::convert::TryFrom<Bad> for %s { type Error = ::std::string::String; "
                     "fn try_from(b: Bad) -> ::std::result::Result<Self, ::std::string::String> { Err(b.0) } }" % t_)
        # ---- apply the setters
        L.append("fn apply(mut b: B, sets: &Vec<::serde_json::Value>) -> ::std::result::Result<B, ::std::string::String> {")
        L.append("  for s in sets { let f = s[0].as_str().unwrap_or(\"\"); let m = s[1].as_str().unwrap_or(\"\"); let v = &s[2];")
        L.append("    b = match (f, m) {")
        conv = []
        for p, f in zip(props, sfields):
            fn_, ty = f["name"], f["ty"]
            q = rs_str(fn_)
            for mode in field_modes(gen, p, f, tft):
                if mode == "v" and fn_ in boxed:
                    L.append("      (%s, \"v\") => { let x: %s = ::serde_json::from_value(v.clone()).map_err(|e| format!(\"$drv {}\", e))?; b.%s(Wrap_%s(x)) }" % (q, ty, fn_, fn_))
                    conv.append("      (%s, \"v\") => { match ::serde_json::from_value::<%s>(v.clone()) { Ok(x) => cv::<_, %s>(Wrap_%s(x)), Err(e) => ::serde_json::json!({\"drv_err\": e.to_string()}) } }" % (q, ty, ty, fn_))
                elif mode == "v":
                    L.append("      (%s, \"v\") => { let x: %s = ::serde_json::from_value(v.clone()).map_err(|e| format!(\"$drv {}\", e))?; b.%s(x) }" % (q, ty, fn_))
                    conv.append("      (%s, \"v\") => { match ::serde_json::from_value::<%s>(v.clone()) { Ok(x) => cv::<_, %s>(x), Err(e) => ::serde_json::json!({\"drv_err\": e.to_string()}) } }" % (q, ty, ty))
                elif mode == "i":
                    L.append("      (%s, \"i\") => { let x: i64 = v.as_i64().ok_or(\"$drv i64\")?; b.%s(x) }" % (q, fn_))
                    conv.append("      (%s, \"i\") => { match v.as_i64() { Some(x) => cv::<_, %s>(x), None => ::serde_json::json!({\"drv_err\": \"i64\"}) } }" % (q, ty))
                elif mode == "s":
                    L.append("      (%s, \"s\") => { let x: &str = v.as_str().ok_or(\"$drv str\")?; b.%s(x) }" % (q, fn_))
                    conv.append("      (%s, \"s\") => { match v.as_str() { Some(x) => cv::<&str, %s>(x), None => ::serde_json::json!({\"drv_err\": \"str\"}) } }" % (q, ty))
                elif mode == "S":
                    L.append("      (%s, \"S\") => { let x: ::std::string::String = v.as_str().ok_or(\"$drv str\")?.to_string(); b.%s(x) }" % (q, fn_))
                    conv.append("      (%s, \"S\") => { match v.as_str() { Some(x) => cv::<::std::string::String, %s>(x.to_string()), None => ::serde_json::json!({\"drv_err\": \"str\"}) } }" % (q, ty))
                elif mode == "b":
                    L.append("      (%s, \"b\") => { let x = Bad(v.as_str().ok_or(\"$drv str\")?.to_string()); b.%s(x) }" % (q, fn_))
                    conv.append("      (%s, \"b\") => { match v.as_str() { Some(x) => cv::<Bad, %s>(Bad(x.to_string())), None => ::serde_json::json!({\"drv_err\": \"str\"}) } }" % (q, ty))
                elif mode == "B":
                    bty = "super::super::builder::%s" % named_local(gen["dump"]["entries"], p["type_id"])
                    mk = ("if v.is_null() { ::std::default::Default::default() } else { let y: %s = "
                          "::serde_json::from_value(v.clone()).map_err(|e| format!(\"$drv {}\", e))?; y.into() }" % ty)
                    L.append("      (%s, \"B\") => { let x: %s = %s; b.%s(x) }" % (q, bty, mk, fn_))
                    mk2 = ("if v.is_null() { Some(<%s as ::std::default::Default>::default()) } else { "
                           "::serde_json::from_value::<%s>(v.clone()).ok().map(|y| y.into()) }" % (bty, ty))
                    conv.append("      (%s, \"B\") => { let x: Option<%s> = %s; match x { Some(x) => cv::<%s, %s>(x), None => ::serde_json::json!({\"drv_err\": \"value\"}) } }" % (q, bty, mk2, bty, ty))
                elif mode == "o":
                    inner = option_inner(ty)
                    L.append("      (%s, \"o\") => { let x: %s = ::serde_json::from_value(v.clone()).map_err(|e| format!(\"$drv {}\", e))?; b.%s(x) }" % (q, inner, fn_))
                    conv.append("      (%s, \"o\") => { match ::serde_json::from_value::<%s>(v.clone()) { Ok(x) => cv::<_, %s>(x), Err(e) => ::serde_json::json!({\"drv_err\": e.to_string()}) } }" % (q, inner, ty))
        L.append("      _ => return Err(\"$drv unsupported set\".to_string()),")
        L.append("    };")
        L.append("  }")
        L.append("  Ok(b) }")
        L.append("fn cv<A, T>(a: A) -> ::serde_json::Value where A: ::std::convert::TryInto<T>, A::Error: ::std::fmt::Display, T: ::serde::Serialize {"
                 " match a.try_into() { Ok(y) => ::serde_json::json!({\"ok\": tv(&y)}), Err(e) => ::serde_json::json!({\"err\": e.to_string()}) } }")
        L.append("fn finish(b: B) -> ::serde_json::Value {")
        L.append("  match ::std::convert::TryInto::<S>::try_into(b) {")
        L.append("    Ok(s) => ::serde_json::json!({\"ok\": tv(&s), \"fields\": fields(&s)}),")
        L.append("    Err(e) => ::serde_json::json!({\"err\": e.to_string()}) } }")
        L.append("pub fn build(input: &::serde_json::Value) -> ::serde_json::Value {")
        L.append("  let sets = input[\"set\"].as_array().cloned().unwrap_or_default();")
        L.append("  match apply(S::builder(), &sets) { Ok(b) => finish(b), Err(e) => ::serde_json::json!({\"drv_err\": e}) } }")
        # conv: the TryInto outcome of every setter argument, separately
        L.append("pub fn conv(input: &::serde_json::Value) -> ::serde_json::Value {")
        L.append("  let sets = input[\"set\"].as_array().cloned().unwrap_or_default(); let mut out: Vec<::serde_json::Value> = Vec::new();")
        L.append("  for s in &sets { let f = s[0].as_str().unwrap_or(\"\"); let m = s[1].as_str().unwrap_or(\"\"); let v = &s[2];")
        L.append("    out.push(match (f, m) {")
        L += conv
        L.append("      _ => ::serde_json::json!({\"drv_err\": \"unsupported\"}),")
        L.append("    }); }")
        L.append("  ::serde_json::Value::Array(out) }")
        # de with per-field view
        L.append("pub fn defields(input: &::serde_json::Value) -> ::serde_json::Value {")
        L.append("  match ::serde_json::from_value::<S>(input[\"value\"].clone()) {")
        L.append("    Ok(s) => ::serde_json::json!({\"ok\": tv(&s), \"fields\": fields(&s)}),")
        L.append("    Err(e) => ::serde_json::json!({\"err\": e.to_string()}) } }")
        # unbuild: struct -> builder -> (optional further sets) -> struct
        L.append("pub fn unbuild(input: &::serde_json::Value) -> ::serde_json::Value {")
        L.append("  let sets = input[\"set\"].as_array().cloned().unwrap_or_default();")
        L.append("  match ::serde_json::from_value::<S>(input[\"value\"].clone()) {")
        L.append("    Ok(s) => { let orig = ::serde_json::json!({\"ok\": tv(&s), \"fields\": fields(&s)}); let b: B = s.into();")
        L.append("      match apply(b, &sets) { Ok(b) => ::serde_json::json!({\"orig\": orig, \"re\": finish(b)}), Err(e) => ::serde_json::json!({\"drv_err\": e}) } }")
        L.append("    Err(e) => ::serde_json::json!({\"de_err\": e.to_string()}) } }")
        # defaults: Default::default() of `#[serde(default)]` fields, and the named default functions
        L.append("pub fn defaults(_input: &::serde_json::Value) -> ::serde_json::Value {")
        L.append("  let mut d: Vec<::serde_json::Value> = Vec::new(); let mut f: Vec<::serde_json::Value> = Vec::new();")
        ent = gen["dump"]["entries"]
        for p_, fld in zip(props, sfields):
            if ent[str(p_["type_id"])]["kind"] == "option" and ["default"] not in fld["serde"]:
                L.append("  d.push(::serde_json::json!([%s, tv(&<%s as ::std::default::Default>::default())]));" % (
                    rs_str(fld["name"]), fld["ty"]))
            for a in fld["serde"]:
                if a == ["default"]:
                    L.append("  d.push(::serde_json::json!([%s, tv(&<%s as ::std::default::Default>::default())]));" % (
                        rs_str(fld["name"]), fld["ty"]))
                elif a[0] == "default" and len(a) == 2:
                    L.append("  { let x: %s = super::super::%s(); f.push(::serde_json::json!([%s, tv(&x)])); }" % (
                        fld["ty"], a[1], rs_str(a[1])))
        L.append("  ::serde_json::json!({\"default_of\": d, \"fns\": f}) }")
        L.append("}")
        arms = [(name, "c18_" + op, "%s::%s(input)" % (mod, op)) for op in ("build", "conv", "defields", "unbuild", "defaults")]
        chunks.append(("c18_" + name, "\n".join(L), arms))
        if boxed:
            # API shape of Box members, separately (a failure here is reported but costs no coverage)
            T = ["pub mod c18t_%s {" % name, "use super::super::*;",
                 "pub fn direct(input: &::serde_json::Value) -> ::serde_json::Value {",
                 "  let mut b = super::super::%s::builder();" % name]
            for f in sfields:
                if f["name"] in boxed:
                    T.append("  if let Ok(x) = ::serde_json::from_value::<%s>(input[%s].clone()) { b = b.%s(x); }" % (
                        f["ty"], rs_str(f["name"]), f["name"]))
                    T.append("  if let Ok(x) = ::serde_json::from_value::<%s>(input[%s].clone()) { b = b.%s(x); }" % (
                        boxed[f["name"]], rs_str(f["name"]), f["name"]))
            T += ["  let _ = b; ::serde_json::json!({\"ok\": true}) }", "}"]
            chunks.append(("c18t_" + name, "\n".join(T), [(name, "c18_direct", "c18t_%s::direct(input)" % name)]))
    return chunks


# --------------------------------------------------------------------------
# oracle helpers (schema level; never look at the IR classification)
# --------------------------------------------------------------------------
def arg_ok(kind, mode, val):
    """does the conversion of this setter argument succeed, judged from the schema?"""
    if mode in ("v", "o"):
        return True
    if mode == "b":
        return False
    if mode == "B":
        # the member type's builder: empty (None) succeeds only when the member struct has no required field
        return val is not None or kind in NO_REQUIRED
    if mode == "i":
        if kind in ENUM_INTS:
            return val in ENUM_INTS[kind]
        lo, hi = INT_RANGE[kind]
        return lo <= val <= hi
    if kind in STR_JSON:
        return dict(STR_ARGS[kind])[val]
    if kind in ("color", "aliasd"):
        return val in HELPERS["Color"]["enum"]
    if kind in ("level", "ilevel"):
        return val in ("lo", "hi")
    if kind == "shortd":
        return len(val) <= 16
    if kind == "ishort":
        return len(val) <= 5
    if kind == "aliass":
        return True
    if kind == "onoff":
        return val in ("on", "off")
    if kind == "short":
        return len(val) <= 3
    if kind == "pat":
        return re.fullmatch(r"[a-z]+", val) is not None
    if kind == "str":
        return True
    raise KeyError((kind, mode))


# struct kinds without a required field (an empty builder of that type builds)
NO_REQUIRED = {"inner", "cfgd", "icfg", "rb"}


def member_json(kind, mode, v):
    """the JSON member of `the object with the same members` for a converting setter argument"""
    if mode in ("s", "S") and kind in STR_JSON:
        return STR_JSON[kind](v)
    if mode == "B" and v is None:
        return {}
    return v


class StructCase:
    """one generated struct with everything the checks need"""

    def __init__(self, m, gen, name, sid, props, sfields, spec):
        self.m, self.gen, self.name, self.sid = m, gen, name, sid
        self.props, self.sfields, self.spec = props, sfields, spec
        tft = tryfrom_table(gen["render"]["scan"])
        self.modes = [field_modes(gen, p, f, tft) for p, f in zip(props, sfields)]
        # map IR fields <-> schema properties through the wire name
        self.byjson = {s["json"]: s for s in spec["props"]} if spec else {}
        self.fspec = []
        for p in props:
            rn = p["rename"]
            if rn["k"] == "flatten":
                self.fspec.append(None)
            else:
                wire = rn["s"] if rn["k"] == "rename" else p["name"]
                self.fspec.append(self.byjson.get(wire))
        self.idents = [p["name"] for p in props]

    def flat(self, k):
        return self.props[k]["rename"]["k"] == "flatten"

    def wire(self, k):
        rn = self.props[k]["rename"]
        return rn["s"] if rn["k"] == "rename" else self.props[k]["name"]


def sample_value(rnd, sc, k):
    """a valid JSON value of field k (mode "v")"""
    if sc.flat(k):
        fl = (sc.spec.get("flat") or {}).get(sc.idents[k])
        if fl is not None:
            return rnd.choice(fl)
        a = sc.spec["addl"]
        if a == {"type": "integer"}:
            return rnd.choice([{}, {"zz1": 1}, {"zz1": 1, "zz2": -2}])
        return rnd.choice([{}, {"zz1": "p"}, {"zz1": "p", "zz2": ""}])
    s = sc.fspec[k]
    vals = KINDS[s["kind"]][1]
    return rnd.choice(vals)


def gen_sets(rnd, sc, tier):
    """list of setter sequences [[ident, mode, value], …] for one struct"""
    n = len(sc.props)
    seqs = []
    idx = list(range(n))
    if n <= 6:
        subsets = [c for r in range(n + 1) for c in itertools.combinations(idx, r)]
    else:
        subsets = [(), tuple(idx)]
        req = tuple(k for k in idx if sc.props[k]["state"]["k"] == "required")
        subsets.append(req)
        for k in req:
            subsets.append(tuple(x for x in idx if x != k))
        for _ in range(40 if tier == "quick" else 120):
            subsets.append(tuple(k for k in idx if rnd.random() < rnd.choice([0.3, 0.6, 0.9])))
    for sub in subsets:
        order = list(sub)
        if rnd.random() < 0.5:
            rnd.shuffle(order)
        seqs.append([[sc.idents[k], "v", sample_value(rnd, sc, k)] for k in order])
    # other modes, failing conversions, overwrites
    def arg(k, mode):
        s = sc.fspec[k]
        if mode == "v":
            return sample_value(rnd, sc, k)
        if mode == "i":
            return rnd.choice(INT_ARGS)
        if mode in ("s", "S"):
            return rnd.choice(STR_ARGS[s["kind"]])[0]
        if mode == "b":
            return rnd.choice(["this is not a value", "nope: {}", "bad \u00e9"])
        if mode == "B":
            return rnd.choice([None, None] + [v_ for v_ in KINDS[s["kind"]][1] if v_ is not None])
        if mode == "o":
            # inner value of an Option<T> field: any non-null valid value
            if sc.flat(k):
                vals = [v for v in (sc.spec.get("flat") or {}).get(sc.idents[k], []) if v is not None]
                return rnd.choice(vals) if vals else None
            vals = [v for v in KINDS[s["kind"]][1] if v is not None]
            return rnd.choice(vals) if vals else None
        raise KeyError(mode)

    full = lambda: [[sc.idents[k], "v", sample_value(rnd, sc, k)] for k in idx]
    for k in idx:
        if sc.fspec[k] is None and not sc.flat(k):
            continue
        for mode in sc.modes[k]:
            if mode == "v":
                continue
            if mode == "o" and arg(k, "o") is None:
                continue
            for _ in range(1 if mode == "b" else 2):
                a = [sc.idents[k], mode, arg(k, mode)]
                base = [x for x in full() if x[0] != sc.idents[k]]
                seqs.append(base + [a])                                   # everything else set, then this
                pos = rnd.randrange(len(base) + 1)
                seqs.append(base[:pos] + [a] + base[pos:])                # somewhere in the middle
                seqs.append(full() + [a])                                 # overwrite a good value
                seqs.append([a] + full())                                 # overwritten by a good value
                seqs.append([a])                                          # alone
    # random sequences with repeats and mixed modes
    for _ in range(12 if tier == "quick" else 40):
        ln = rnd.randrange(0, 2 * n + 2)
        s = []
        for _ in range(ln):
            if not idx:
                break
            k = rnd.choice(idx)
            if sc.fspec[k] is None and not sc.flat(k):
                continue
            mode = rnd.choice(sc.modes[k])
            v = arg(k, mode)
            if mode == "o" and v is None:
                continue
            s.append([sc.idents[k], mode, v])
        seqs.append(s)
    # dedupe
    seen, out = set(), []
    for s in seqs:
        key = json.dumps(s, sort_keys=True)
        if key not in seen:
            seen.add(key)
            out.append(s)
    return out


def last_sets(sc, seq):
    last = {}
    for f, mode, v in seq:
        last[f] = (mode, v)
    return last


def expected_direct(sc, seq):
    """Schema-level expectation: (ok?, offenders, object with the same members)"""
    last = last_sets(sc, seq)
    offenders = []
    obj = {}
    for k, p in enumerate(sc.props):
        ident = p["name"]
        if sc.flat(k):
            if ident in last and last[ident][0] == "b":
                offenders.append((ident, "conv"))
            elif ident in last and isinstance(last[ident][1], dict):
                obj.update(last[ident][1])
            continue
        s = sc.fspec[k]
        if ident in last:
            mode, v = last[ident]
            if arg_ok(s["kind"], mode, v):
                obj[s["json"]] = member_json(s["kind"], mode, v)
            else:
                offenders.append((ident, "conv"))
        elif s["state"] == "required":
            offenders.append((ident, "missing"))
    return (not offenders), offenders, obj


# --------------------------------------------------------------------------
# template tie (K4): the emitted builder items have the modelled shape
# --------------------------------------------------------------------------
def norm_tokens(s):
    return re.sub(r"\s+", "", s)


def template_tie(gen):
    """-> list of problems.  Checks, on the syn scan, that for every struct: the builder struct has the same
    fields in the same order; builder Default uses exactly the serde default of each field
    (`default` -> Default::default(), `default = "p"` -> super::p(), none -> Err("no value supplied for f"));
    try_from reads the fields in declaration order."""
    bad = []
    scan = gen["render"]["scan"]
    bimpl = {}
    for im in scan["impls"]:
        if im["mod"] == "builder":
            bimpl.setdefault(norm_tokens(im["for"]), []).append(im)
    bstruct = {it["name"]: it for it in scan["items"] if it["kind"] == "struct" and it["mod"] == "builder"}
    for name, sid, props, sfields in struct_views(gen):
        if [p["name"] for p in props] != [f["name"] for f in sfields]:
            bad.append("%s: IR props and emitted fields differ" % name)
            continue
        bf = bstruct[name]["fields"].get("fields", [])
        if [f["name"] for f in bf] != [f["name"] for f in sfields]:
            bad.append("%s: builder fields %s" % (name, [f["name"] for f in bf]))
        dflt = [im for im in bimpl.get(name, []) if im.get("trait") and norm_tokens(im["trait"]).endswith("Default")]
        tf = [im for im in bimpl.get("super::" + name, []) if im.get("trait") and "TryFrom<" in norm_tokens(im["trait"])]
        if len(dflt) != 1 or len(tf) != 1:
            bad.append("%s: builder impls missing" % name)
            continue
        body = norm_tokens(dflt[0]["body"])
        pos = 0
        for f in sfields:
            d = [a for a in f["serde"] if a[0] == "default"]
            if not d:
                exp = '%s:Err(%s.to_string())' % (
                    f["name"], json.dumps("no value supplied for " + f["name"], ensure_ascii=False))
            elif len(d[0]) == 1:
                exp = "%s:Ok(Default::default())" % f["name"]
            else:
                exp = "%s:Ok(super::%s())" % (f["name"], norm_tokens(d[0][1]))
            # string literals keep their blanks in the token text: compare with blanks removed on both sides
            e2 = norm_tokens(exp)
            at = body.find(e2, pos)
            if at < 0:
                bad.append("%s.%s: builder default is not the serde default (%s)" % (name, f["name"], exp))
            else:
                pos = at
        tbody = norm_tokens(tf[0]["body"])
        want = "Ok(Self{%s})" % "".join("%s:value.%s?," % (f["name"], f["name"]) for f in sfields)
        m_ = re.search(r"\{Ok\(Self\{.*\}\)\}\}$", tbody)
        got = m_.group(0)[1:-2] if m_ else None
        if got != want:
            bad.append("%s: TryFrom<builder::%s> body is not `Ok(Self { f: value.f?, … })` over all fields in "
                       "declaration order: %s" % (name, name, (got or tbody)[-400:]))
    return bad


# --------------------------------------------------------------------------
# Coq side
# --------------------------------------------------------------------------
COQ_HDR = (tocoq.COQ_HEADER + "From Typify Require Import Algo.Builder.\n"
           "Open Scope string_scope.\n")


def coq_res(r):
    """implementation conv / default answer -> Gallina `json + ustring`"""
    if "ok" in r:
        return "(inl %s)" % tocoq.cjson(r["ok"])
    return "(inr %s)" % tocoq.ustr(r["err"])


def canon_fields(fields):
    return [[f, tocoq.canon(v)] for f, v in fields]


def ascii_only(x):
    return all(ord(c) < 127 and ord(c) >= 32 for c in json.dumps(x, ensure_ascii=False))


# --------------------------------------------------------------------------
def run(ctx):
    ctx.level = "proof"
    ctx.trusted = [
        "Coq 8.16.1 kernel + vm_compute",
        "no axioms (Print Assumptions: closed under the global context)",
        "hand-written model Algo/Builder.v of output_struct's builder template and generate_serde_attr, tied by the "
        "model-vs-compiled-builder correspondence and the syn template tie below",
        "section variables of the model: Rust values V, Default::default (default_of), the emitted default functions "
        "(call_fn, by path), TryInto (conv), serde's flatten fallback (flat_none), sanitize(_, Snake) (snake); in the "
        "correspondence they are instantiated by tables measured on the same compiled module (ops conv/defaults)",
        "serde's missing-field rules (de_missing) are modelled from serde_derive 1.0.219; validated by comparing the "
        "built struct with from_value of the object with the same members",
        "py/tocoq.py (IR dump -> Gallina), py/world.py (driver crates), harness `vh gen` (dump, syn scan)",
    ]
    ctx.assumptions = [
        "values are compared through serde_json::to_value (whole struct and field by field)",
        "an error `names the property` when the message contains the Rust field identifier (the sanitised name, "
        "e.g. `type_` for JSON `type`)",
        "`property without a default` = StructPropertyState::Required = member of the schema's `required` "
        "(the flattened additionalProperties map is typify's own Required member: finding C18-F1)",
    ]
    ctx.checker_cmd = "make -f Makefile.coq theories/Props/C18.vo && coqc Audit_C18.v (Print Assumptions)"

    vlib.build_harness(bins=("vh",))
    coq_ok = vlib.standard_coq_obligations(ctx, "Props.C18", THEOREMS, ())

    rnd = random.Random(ctx.seed * 31 + 18)
    gcases = gen_cases(ctx)
    ccases = corpus_cases()
    cases = [c for c, _, _ in ccases] + [c for c, _ in gcases]
    metas = [m for _, m, _ in ccases] + [m for _, m in gcases]
    ncorpus = len(ccases)
    w = world.World(ctx, "c18", cases, chunks_fn=chunks_fn)
    w.build()
    st = {}
    for s in w.status:
        st[s] = st.get(s, 0) + 1
    ctx.coverage["world_modules"] = st
    ctx.log("world:", st, "chunk failures:", len(w.chunk_failures))
    # every generated module must compile with its builder and our driver chunks (C01 owns compile errors of
    # generated code in general; here a failure would silently remove coverage, so it is an obligation)
    ctx.oblige("all %d generated modules compile" % len(cases),
               all(s == "ok" for s in w.status),
               json.dumps({i: (w.status[i], w.compile_errors.get(i), w.gen[i].get("steps")) for i in range(len(cases))
                           if w.status[i] != "ok"})[:3000])
    ctx.oblige("all driver chunks compile (setters accept T, &str/String for TryFrom<&str> types, i64 for "
               "primitive integers, T for Option<T>)", not w.chunk_failures,
               json.dumps({str(k): v[:2] for k, v in w.chunk_failures.items()})[:3000])

    if MUT in ("api-path", "scan-default", "scan-tryfrom"):
        emulate_early(ctx, w)

    # ---- builder path (Type::builder()) and template tie
    path_bad = []
    tie_bad = []
    n_struct_api = 0
    for i, g in enumerate(w.gen):
        if w.status[i] == "not-generated":
            continue
        sb = g["dump"]["settings"]["struct_builder"]
        tm = g["dump"]["settings"]["type_mod"]
        bnames = {it["name"] for it in g["render"]["scan"]["items"] if it["kind"] == "struct" and it["mod"] == "builder"}
        for t in g["types"]:
            is_struct = t["details"]["k"] == "struct"
            exp = None
            if sb and is_struct:
                exp = ("%s :: builder :: %s" % (tm, t["name"])) if tm else "builder :: %s" % t["name"]
                n_struct_api += 1
                if t["name"] not in bnames:
                    path_bad.append({"m": i, "type": t["name"], "problem": "no builder struct emitted"})
            if t.get("builder") != exp:
                path_bad.append({"m": i, "type": t["name"], "api": t.get("builder"), "expected": exp})
        if sb:
            tie_bad += [{"m": i, "problem": x} for x in template_tie(g)]
    ctx.oblige("Type::builder() = [type_mod ::] builder :: Name exactly for structs, and that item exists "
               "(%d structs)" % n_struct_api, not path_bad, json.dumps(path_bad[:5]))
    ctx.oblige("template tie (syn): builder fields/Default/try_from have the modelled shape; builder default "
               "expression = serde default of the same field", not tie_bad, json.dumps(tie_bad[:5]))

    # ---- collect structs, generate setter sequences
    structs = []
    for i, g in enumerate(w.gen):
        if w.status[i] != "ok" or not g["dump"]["settings"]["struct_builder"]:
            continue
        for name, sid, props, sfields in struct_views(g):
            if not w.has_arm(i, name, "c18_build"):
                continue
            spec = metas[i].get(name)
            structs.append(StructCase(i, g, name, sid, props, sfields, spec))
    ctx.log("structs with a running builder driver:", len(structs))
    # coverage that must not disappear: Required / non-required properties whose TYPE has a type-level default
    td = {"required": {}, "other": {}}
    for sc in structs:
        if sc.spec is None:
            continue
        ent = sc.gen["dump"]["entries"]
        for p_ in sc.props:
            e_ = ent[str(p_["type_id"])]
            if e_["kind"] == "option":
                e_ = ent[str(e_["id"])]
            if e_["kind"] in ("newtype", "struct", "enum") and e_.get("default") is not None:
                b_ = td["required" if p_["state"]["k"] == "required" else "other"]
                b_[e_["kind"]] = b_.get(e_["kind"], 0) + 1
    ctx.coverage["props_whose_type_has_a_type_level_default"] = td
    # … and a Required member of every IR kind
    rk = {}
    for sc in structs:
        if sc.spec is None:
            continue
        ent = sc.gen["dump"]["entries"]
        for p_ in sc.props:
            if p_["state"]["k"] == "required" and p_["rename"]["k"] != "flatten":
                k_ = ent[str(p_["type_id"])]["kind"]
                rk[k_] = rk.get(k_, 0) + 1
    ctx.coverage["required_members_by_ir_kind"] = rk
    need = ["unit", "boolean", "integer", "float", "string", "native", "option", "vec", "map", "set", "tuple", "array",
            "box", "enum", "struct", "newtype", "json"]
    ctx.oblige("coverage: a Required member of every IR kind (%s) is present" % ", ".join(need),
               all(rk.get(k_, 0) > 0 for k_ in need), json.dumps(rk))
    # … and defaulted members whose own default differs from / equals the default of their TYPE
    md = {"differs_zero": 0, "differs_other": 0, "equal": 0, "option_of": 0}
    for sc in structs:
        if sc.spec is None:
            continue
        ent = sc.gen["dump"]["entries"]
        for p_ in sc.props:
            if p_["state"]["k"] != "default":
                continue
            e_ = ent[str(p_["type_id"])]
            if e_["kind"] == "option":
                e_ = ent[str(e_["id"])]
                if e_.get("default") is not None:
                    md["option_of"] += 1
            if e_["kind"] in ("newtype", "struct", "enum") and e_.get("default") is not None:
                v_ = p_["state"]["v"]
                if v_ == e_["default"]["v"] and type(v_) == type(e_["default"]["v"]):
                    md["equal"] += 1
                elif v_ in (0, "", False, {}, []) or v_ == 0.0:
                    md["differs_zero"] += 1
                else:
                    md["differs_other"] += 1
    ctx.coverage["defaulted_members_vs_type_level_default"] = md
    ctx.oblige("coverage: defaulted members whose default is the inner zero / another value / equal to their type's "
               "own type-level default, and Option-typed ones, are present", all(v_ > 0 for v_ in md.values()),
               json.dumps(md))
    ctx.oblige("coverage: Required properties whose type is a newtype / struct / enum with a type-level default "
               "are present", all(td["required"].get(k_, 0) > 0 for k_ in ("newtype", "struct", "enum")), json.dumps(td))
    reqs = []
    owner = []
    for si, sc in enumerate(structs):
        if sc.spec is None:
            continue
        seqs = gen_sets(rnd, sc, ctx.tier)
        sc.seqs = seqs
        for q, s in enumerate(seqs):
            reqs.append({"m": sc.m, "t": sc.name, "op": "c18_build", "input": {"set": s}})
            owner.append((si, q, "build"))
            reqs.append({"m": sc.m, "t": sc.name, "op": "c18_conv", "input": {"set": s}})
            owner.append((si, q, "conv"))
            exp_ok, off, obj = expected_direct(sc, s)
            reqs.append({"m": sc.m, "t": sc.name, "op": "c18_defields", "input": {"value": obj}})
            owner.append((si, q, "de"))
            reqs.append({"m": sc.m, "t": sc.name, "op": "c18_unbuild", "input": {"value": obj, "set": []}})
            owner.append((si, q, "unbuild"))
        reqs.append({"m": sc.m, "t": sc.name, "op": "c18_defaults", "input": None})
        owner.append((si, -1, "defaults"))
        sc.minobj = {s_["json"]: KINDS[s_["kind"]][1][-1] for s_ in sc.spec["props"] if s_["state"] == "required"}
        reqs.append({"m": sc.m, "t": sc.name, "op": "c18_defields", "input": {"value": sc.minobj}})
        owner.append((si, -2, "de"))
        for s_ in sc.spec["props"]:
            if s_["json"] in sc.minobj:
                reqs.append({"m": sc.m, "t": sc.name, "op": "c18_defields",
                             "input": {"value": {k_: v_ for k_, v_ in sc.minobj.items() if k_ != s_["json"]}}})
                owner.append((si, "without:" + s_["json"], "de"))
        for q in range(min(5, len(seqs))):
            q2 = len(seqs) - 1 - q   # the random mixed-mode sequences are last
            reqs.append({"m": sc.m, "t": sc.name, "op": "c18_unbuild", "input": {"value": sc.minobj, "set": seqs[q2]}})
            owner.append((si, q2, "unbuild2"))
    ctx.log("driver requests:", len(reqs))
    ans = w.query(reqs)
    ctx.log("driver answered")
    for sc in structs:
        sc.res = {}
    for (si, q, op), a in zip(owner, ans):
        structs[si].res[(q, op)] = a
    ctx.evaluations += len(reqs)
    if MUT:
        emulate_mutation(ctx, w, structs)

    # ---- (b) the property itself on the implementation, schema-level oracle
    viol = []
    known_hits = {}
    findings = {f["class"]: f for f in ctx.findings_for()}
    stats = {"build_ok": 0, "build_err_missing": 0, "build_err_conv": 0, "drv_err": 0, "de_compared": 0,
             "unbuild_compared": 0, "overwrite_seqs": 0, "failing_conv_seqs": 0}
    sizes = {}
    for sc in structs:
        if sc.spec is None:
            continue
        sizes[len(sc.props)] = sizes.get(len(sc.props), 0) + 1
        flat_req = [p["name"] for k, p in enumerate(sc.props) if sc.flat(k) and p["state"]["k"] == "required"]
        for q, s in enumerate(sc.seqs):
            b = sc.res[(q, "build")]
            if "drv_err" in b:
                stats["drv_err"] += 1
                continue
            exp_ok, off, obj = expected_direct(sc, s)
            last = last_sets(sc, s)
            if len(s) != len(last):
                stats["overwrite_seqs"] += 1
            base = {"m": sc.m, "struct": sc.name, "schema": w.cases[sc.m]["steps"][0]["doc"]["definitions"].get(sc.name),
                    "set": s, "observed": b}
            ctx.nontrivial.add("%d/%s/%s" % (sc.m, sc.name, json.dumps(s, sort_keys=True)))
            # flattened Required member not set: finding C18-F1
            f1 = [f for f in flat_req if f not in last]
            if exp_ok:
                if "ok" not in b:
                    if f1 and b.get("err") == "no value supplied for " + f1[0] and "flattened-required-member" in findings:
                        known_hits.setdefault("flattened-required-member", dict(base, expected="Ok: every schema-required property is set"))
                        continue
                    viol.append(dict(base, kind="build-fails-though-required-set-and-conversions-ok",
                                     expected="Ok"))
                    continue
                stats["build_ok"] += 1
                d = sc.res[(q, "de")]
                if "ok" not in d:
                    viol.append(dict(base, kind="object-with-same-members-does-not-deserialise", object=obj, de=d))
                    continue
                stats["de_compared"] += 1
                if tocoq.canon(d["ok"]) != tocoq.canon(b["ok"]) or tocoq.canon(d["fields"]) != tocoq.canon(b["fields"]):
                    diff = [x[0] for x, y in zip(b["fields"], d["fields"]) if tocoq.canon(x) != tocoq.canon(y)]
                    flat_opt = [p["name"] for k, p in enumerate(sc.props) if sc.flat(k) and p["state"]["k"] == "optional"]
                    bf = dict((x[0], x[1]) for x in b["fields"])
                    if diff and all(f in flat_opt and bf[f] is None for f in diff) \
                            and "flattened-optional-subtype" in findings:
                        known_hits.setdefault("flattened-optional-subtype", dict(base, expected={"de": d}))
                        continue
                    viol.append(dict(base, kind="built-value-differs-from-deserialised-object", object=obj, de=d))
                    continue
                u = sc.res[(q, "unbuild")]
                if "orig" in u:
                    stats["unbuild_compared"] += 1
                    if u["re"] != u["orig"]:
                        viol.append(dict(base, kind="struct-builder-struct-not-identity", object=obj, unbuild=u))
                else:
                    viol.append(dict(base, kind="unbuild-failed", object=obj, unbuild=u))
            else:
                if "err" not in b:
                    viol.append(dict(base, kind="build-succeeds-with-missing-required-or-failed-conversion",
                                     offenders=off))
                    continue
                msg = b["err"]
                kinds = {k for _, k in off}
                stats["build_err_conv" if "conv" in kinds else "build_err_missing"] += 1
                if "conv" in kinds:
                    stats["failing_conv_seqs"] += 1
                named = [f for f, _ in off if re.search(r"(?<![A-Za-z0-9_])%s(?![A-Za-z0-9_])" % re.escape(f), msg)]
                if f1 and msg == "no value supplied for " + f1[0]:
                    continue  # masked by F1's slot (it is declared last, so this only happens when it is the only Err… kept for safety)
                if not named:
                    viol.append(dict(base, kind="error-does-not-name-an-offending-property", offenders=off))
                    continue
                # a single offender must be the one named, with the documented text
                if len(off) == 1:
                    f, k = off[0]
                    pre = ("error converting supplied value for %s: " % f) if k == "conv" else "no value supplied for %s" % f
                    if not msg.startswith(pre):
                        viol.append(dict(base, kind="error-text", offenders=off, expected_prefix=pre))
    ctx.coverage["direct"] = stats
    ctx.coverage["struct_sizes"] = sizes
    for cls, wit in known_hits.items():
        f = findings[cls]
        ctx.known_finding(f["id"], "%s: %s (e.g. module %d struct %s, set %s -> %s)" % (
            f["id"], f["summary"], wit["m"], wit["struct"], json.dumps(wit["set"]), json.dumps(wit["observed"])))
    ctx.oblige("direct property evaluation: no unlisted violation (%d builder runs)" % sum(
        len(sc.seqs) for sc in structs if sc.spec is not None), not viol, json.dumps(viol[:2])[:3000])
    ctx.oblige("driver could run every generated setter sequence", stats["drv_err"] == 0, str(stats["drv_err"]))

    # ---- (a) model vs implementation
    mism = []
    model_ok = True
    n_model = 0
    kinds_n = {}
    try:
        ok_m, out_m = vlib.coq_make(["theories/Algo/Builder.vo"])
        if not ok_m:
            raise RuntimeError(out_m[-2000:])
        exprs, plans = model_exprs(ctx, w, structs)
        ctx.log("model expressions:", len(exprs), "chars:", sum(len(e) for e in exprs))
        res = vlib.coq_eval_strings("c18", COQ_HDR, exprs, shard=3)
        ctx.log("model evaluated")
        for plan, text in zip(plans, res):
            parts = text.split(SEP)
            if len(parts) != len(plan):
                raise RuntimeError("model output has %d parts for %d cases: %s" % (len(parts), len(plan), text[:300]))
            for (si, kind, q, expect), got in zip(plan, parts):
                n_model += 1
                kinds_n[kind] = kinds_n.get(kind, 0) + 1
                g = parse_model(got)
                if kind == "fields" and g[0] == "ok":
                    for fl in g[1]:
                        fl[1] = [[a[0], norm_tokens(a[1])] if a[0] == "skip_serializing_if" else a for a in fl[1]]
                if MUT == "model-answer" and kind == "build" and q == 0:
                    g = ("ok", [])
                if g != expect:
                    sc = structs[si]
                    mism.append({"m": sc.m, "struct": sc.name, "case": kind,
                                 "set": sc.seqs[q] if q is not None and q >= 0 else None,
                                 "model": repr(g)[:700], "impl": repr(expect)[:700]})
    except Exception as e:  # noqa
        model_ok = False
        ctx.oblige("model Builder.v evaluates", False, str(e)[-3000:])
    ctx.oblige("correspondence K5: Builder.v (init/set/build/from_struct, serde attrs, de_missing, builder_path on "
               "the dumped IR) = compiled builder / syn scan / API on %d cases" % n_model, model_ok and not mism,
               json.dumps(mism[:3])[:3000])
    ctx.coverage["correspondence_case_kinds"] = kinds_n
    ctx.coverage["correspondence_cases"] = n_model
    ctx.coverage["correspondence_mismatches"] = len(mism)
    ctx.evaluations += n_model
    ctx.coverage["rule"] = ("seeded object schemas: 0..8 properties over 16 kinds x required/optional/default, "
                            "keyword/renamed names, additionalProperties none/false/typed; per struct all subsets "
                            "(<= 6 fields) or random subsets, plus &str/String/i64/Option-inner setter arguments "
                            "with failing conversions and overwrite sequences; distinct = (module, struct, sequence)")
    ctx.samples = []
    for sc in structs[:: max(1, len(structs) // 6)]:
        if sc.spec is None or not sc.seqs:
            continue
        q = min(len(sc.seqs) - 1, 3)
        ctx.samples.append({"struct": sc.name, "fields": sc.idents, "set": sc.seqs[q], "impl": sc.res[(q, "build")]})

    if viol:
        viol.sort(key=lambda v: len(json.dumps(v)))
        v = viol[0]
        v["broken_obligations"] = [o[0] for o in ctx.broken()]
        ctx.violation(v)
    elif path_bad or tie_bad:
        v = dict((path_bad or tie_bad)[0])
        v["kind"] = "builder-path" if path_bad else "builder-template"
        v["input"] = w.cases[v["m"]]
        v["broken_obligations"] = [o[0] for o in ctx.broken()]
        ctx.violation(v)
    elif ctx.broken():
        ctx.violation({"broken_obligations": [(o[0], o[2][:1500]) for o in ctx.broken()],
                       "note": "a theorem, the template tie or the model/implementation correspondence no longer "
                               "checks; the direct search found no failing input"}, no_input=True)
    # stale findings are reported, never silently kept
    for cls, f in findings.items():
        if cls not in known_hits:
            ctx.oblige("listed finding %s still reproduces" % f["id"], False, "witness no longer fails")

    if ctx.tier == "thorough" and coq_ok:
        rc, out, err = vlib.sh("timeout 1500 coqchk -silent -o -Q theories Typify Typify.Props.C18", cwd=vlib.COQ,
                               timeout=1600)
        ctx.oblige("coqchk re-checks Props.C18 and dependencies", rc == 0, (out + err)[-1500:])


def emulate_mutation(ctx, w, structs):
    """Detection tests without touching /repo: rewrite the RECORDED implementation answers the way a
    realistic change to typify would (C18_MUTATE=<name>); see notes/C18.md."""
    ctx.log("EMULATED MUTATION:", MUT)
    for sc in structs:
        if sc.spec is None:
            continue
        for q, sq in enumerate(sc.seqs):
            b = sc.res[(q, "build")]
            last = last_sets(sc, sq)
            if MUT == "required-starts-ok" and "err" in b and b["err"].startswith("no value supplied for "):
                # a Required slot initialised with Ok(Default::default())
                d = sc.res[(q, "de")]
                sc.res[(q, "build")] = {"ok": d.get("ok", {}), "fields": d.get("fields", [])}
            elif MUT == "required-typedefault-starts-ok" and "err" in b:
                # a Required property whose type is a newtype/struct with a type-level default starts Ok(Default)
                ent = sc.gen["dump"]["entries"]
                soft = {p["name"] for p in sc.props if p["state"]["k"] == "required"
                        and ent[str(p["type_id"])]["kind"] in ("newtype", "struct")
                        and ent[str(p["type_id"])].get("default") is not None}
                exp_ok, off, obj = expected_direct(sc, sq)
                rest = [o for o in off if not (o[1] == "missing" and o[0] in soft)]
                if len(rest) != len(off):
                    if not rest:
                        sc.res[(q, "build")] = {"ok": obj, "fields": []}
                    elif rest[0][1] == "missing":
                        b["err"] = "no value supplied for %s" % rest[0][0]
            elif MUT == "intrinsic-default-uses-type-default" and "ok" in b:
                # builder Default uses Default::default() of the member TYPE when the member default is the inner
                # type's zero and the type implements Default (its own type-level default)
                ent = sc.gen["dump"]["entries"]
                for k, p in enumerate(sc.props):
                    e_ = ent[str(p["type_id"])]
                    if p["state"]["k"] == "default" and p["name"] not in last and e_["kind"] == "newtype" \
                            and e_.get("default") is not None and p["state"]["v"] in (0, "", False) \
                            and e_["default"]["v"] != p["state"]["v"]:
                        b["fields"][k][1] = e_["default"]["v"]
                        b["ok"][sc.wire(k)] = e_["default"]["v"]
            elif MUT == "box-setter-msg" and "err" in b and b["err"].startswith("error converting supplied value for "):
                # the setter of a Box<T> member (cycle breaking) reports the bare conversion error
                ent = sc.gen["dump"]["entries"]
                for p in sc.props:
                    pre = "error converting supplied value for %s: " % p["name"]
                    if ent[str(p["type_id"])]["kind"] == "box" and b["err"].startswith(pre):
                        b["err"] = b["err"][len(pre):]
            elif MUT == "unit-slot-dropped" and "err" in b:
                # TryFrom<builder> uses value.f.unwrap_or_default() for members of type (): their slot never fails
                ent = sc.gen["dump"]["entries"]
                units = {p["name"] for p in sc.props if ent[str(p["type_id"])]["kind"] == "unit"}
                exp_ok, off, obj = expected_direct(sc, sq)
                if off and all(o[0] in units for o in off):
                    sc.res[(q, "build")] = {"ok": dict(obj), "fields": []}
            elif MUT == "default-differs" and "ok" in b:
                # builder default of a defaulted property differs from the serde default
                for k, p in enumerate(sc.props):
                    if p["state"]["k"] == "default" and p["name"] not in last:
                        b["fields"][k][1] = "mutated"
                        b["ok"][sc.wire(k)] = "mutated"
            elif MUT == "last-error-wins" and "err" in b:
                # try_from reports the LAST failing slot instead of the first
                exp_ok, off, obj = expected_direct(sc, sq)
                if len(off) > 1:
                    f, k = off[-1]
                    b["err"] = ("no value supplied for %s" % f) if k == "missing" else \
                        "error converting supplied value for %s: mutated" % f
            elif MUT == "msg-without-name" and "err" in b and b["err"].startswith("error converting"):
                b["err"] = re.sub(r"for \S+: ", "for value: ", b["err"], count=1)
            elif MUT == "keeps-first-set" and "ok" in b and len(sq) != len(last):
                # setter keeps the first value instead of overwriting
                first = {}
                for f, mode, v in sq:
                    first.setdefault(f, (mode, v))
                for k, p in enumerate(sc.props):
                    if p["name"] in first and first[p["name"]] != last[p["name"]] and first[p["name"]][0] == "v" \
                            and not sc.flat(k):
                        b["fields"][k][1] = first[p["name"]][1]
                        b["ok"][sc.wire(k)] = first[p["name"]][1]
            u = sc.res.get((q, "unbuild"))
            if MUT == "unbuild-drops-field" and u and "orig" in u and "ok" in u["re"] and u["re"]["fields"]:
                u["re"] = json.loads(json.dumps(u["re"]))
                u["re"]["fields"][0][1] = "mutated"


def emulate_early(ctx, w):
    ctx.log("EMULATED MUTATION:", MUT)
    if MUT == "api-path":
        for g in w.gen:
            for t in g.get("types", []):
                if t.get("builder"):
                    t["builder"] = t["builder"].replace("builder ::", "builders ::")
    if MUT == "scan-tryfrom":
        for g in w.gen:
            for im in g.get("render", {}).get("scan", {}).get("impls", []):
                if im["mod"] == "builder" and im.get("trait") and "TryFrom" in im["trait"]:
                    im["body"] = re.sub(r"value \. (\w+) \? ,", r"value . \1 . unwrap_or_default () ,", im["body"], count=1)
    if MUT == "scan-default":
        for g in w.gen:
            for im in g.get("render", {}).get("scan", {}).get("impls", []):
                if im["mod"] == "builder" and im.get("trait") and "Default" in im["trait"]:
                    im["body"] = im["body"].replace("Ok (Default :: default ())", "Ok (None)")


SEP = "@@|@@"
BUILTIN_FN = re.compile(r"^defaults::default_(bool|u64|i64|nzu64)::<")


def parse_model(text):
    """model output -> comparable python value"""
    if text.startswith("ok:"):
        return ("ok", tocoq.canon(tocoq.unshow_json(text[3:])))
    if text.startswith("err:"):
        return ("err", json.loads(text[4:]))
    if text.startswith("some:"):
        return ("some", json.loads(text[5:]))
    return (text,)


def impl_build_value(b):
    if "ok" in b:
        return ("ok", tocoq.canon([list(x) for x in b["fields"]]))
    if "err" in b:
        return ("err", b["err"])
    return ("?", b)


def model_exprs(ctx, w, structs):
    exprs, plans = [], []
    spaces = {}
    for si, sc in enumerate(structs):
        if sc.spec is None:
            continue
        if sc.m not in spaces:
            spaces[sc.m] = tocoq.cspace(sc.gen["dump"])
        ty = {p["name"]: p["type_id"] for p in sc.props}
        dflt = sc.res[(-1, "defaults")]
        t_default = {}
        for f, v in dflt["default_of"]:
            t_default[ty[f]] = v
        t_fns = {pth: v for pth, v in dflt["fns"]}
        # conversions: key per distinct (type id, mode, value)
        keys = {}
        conv_tbl = {}
        usable = []
        for q, sq in enumerate(sc.seqs):
            cv = sc.res[(q, "conv")]
            b = sc.res[(q, "build")]
            ok = "drv_err" not in b and all("drv_err" not in r for r in cv)
            if not ok:
                continue
            for (f, mode, v), r in zip(sq, cv):
                kk = (ty[f], mode, json.dumps(v, sort_keys=True))
                if kk not in keys:
                    keys[kk] = len(keys)
                    conv_tbl.setdefault(ty[f], []).append((keys[kk], r))
            usable.append(q)
        # flatten fallback: measured on the minimal object
        dmin = sc.res[(-2, "de")]
        t_flat = {}
        if "ok" in dmin:
            fv = dict((x[0], x[1]) for x in dmin["fields"])
            for k, p in enumerate(sc.props):
                if sc.flat(k):
                    t_flat[p["type_id"]] = fv[p["name"]]
        t_snake = {}
        for f in sc.sfields:
            for a in f["serde"]:
                if a[0] == "default" and len(a) == 2 and not BUILTIN_FN.match(a[1]) and a[1].startswith("defaults::"):
                    t_snake["%s_%s" % (sc.name, f["name"])] = a[1][len("defaults::"):]
        cres = lambda r: ("(@inl json ustring %s)" % tocoq.cjson(r["ok"])) if "ok" in r else \
            "(@inr json ustring %s)" % tocoq.ustr(r["err"])
        tb = "(mkTables %s %s %s %s %s)" % (
            tocoq.clist(sorted(t_default.items()), lambda kv: "(%s, %s)" % (tocoq.cN(kv[0]), tocoq.cjson(kv[1])), "(id * json)"),
            tocoq.clist(sorted(t_fns.items()), lambda kv: "(%s, %s)" % (tocoq.ustr(kv[0]), tocoq.cjson(kv[1])), "(ustring * json)"),
            tocoq.clist(sorted(conv_tbl.items()), lambda kv: "(%s, %s)" % (
                tocoq.cN(kv[0]), tocoq.clist(kv[1], lambda e: "(%s, %s)" % (tocoq.cN(e[0]), cres(e[1])),
                                             "(N * (json + ustring))")), "(id * list (N * (json + ustring)))"),
            tocoq.clist(sorted(t_flat.items()), lambda kv: "(%s, %s)" % (tocoq.cN(kv[0]), tocoq.cjson(kv[1])), "(id * json)"),
            tocoq.clist(sorted(t_snake.items()), lambda kv: "(%s, %s)" % (tocoq.ustr(kv[0]), tocoq.ustr(kv[1])), "(ustring * ustring)"))
        ccalls = lambda sq: tocoq.clist(
            sq, lambda c: "(%s, %s)" % (tocoq.ustr(c[0]), tocoq.cN(keys[(ty[c[0]], c[1], json.dumps(c[2], sort_keys=True))])),
            "(ustring * N)")
        sid = tocoq.cN(sc.sid)
        items = []   # (coq term, (si, kind, q, expected))
        # fields: attrs / builder default / value when missing
        exp_fields = []
        fv = dict((x[0], x[1]) for x in dmin["fields"]) if "ok" in dmin else None
        wires_set = set(sc.minobj)
        for k, (p, f) in enumerate(zip(sc.props, sc.sfields)):
            d = [a for a in f["serde"] if a[0] == "default"]
            df = None if not d else ("Default::default()" if len(d[0]) == 1 else d[0][1])
            attrs = [[norm_tokens(x) if j else x for j, x in enumerate(a)] if a[0] == "skip_serializing_if" else a
                     for a in f["serde"]]
            if sc.flat(k):
                miss = [t_flat[p["type_id"]]] if p["type_id"] in t_flat else "$err"
            elif sc.wire(k) in wires_set:
                # member present in the minimal object: measured on the object without it
                dw = sc.res[("without:" + sc.wire(k), "de")]
                miss = [dict((x[0], x[1]) for x in dw["fields"])[p["name"]]] if "ok" in dw else "$err"
            else:
                miss = [fv[p["name"]]] if fv is not None else None
            exp_fields.append([p["name"], attrs, df, miss])
        items.append(("run_fields tb T %s" % sid, (si, "fields", None, ("ok", tocoq.canon(exp_fields)))))
        tinfo = [t for t in sc.gen["types"] if t["id"] == sc.sid]
        if tinfo:
            b = tinfo[0]["builder"]
            items.append(("run_path T %s" % sid, (si, "path", None,
                                                  ("none",) if b is None else ("some", [x.strip() for x in b.split("::")]))))
        for q in usable:
            items.append(("run_build tb T %s %s" % (sid, ccalls(sc.seqs[q])),
                          (si, "build", q, impl_build_value(sc.res[(q, "build")]))))
        nun = 0
        for q in usable:
            u = sc.res.get((q, "unbuild"))
            if u and "orig" in u and nun < 5:
                nun += 1
                x = tocoq.clist(u["orig"]["fields"], lambda nv: "(%s, %s)" % (tocoq.ustr(nv[0]), tocoq.cjson(nv[1])),
                                "(ustring * json)")
                items.append(("run_unbuild tb T %s %s (@nil (ustring * N))" % (sid, x),
                              (si, "unbuild", q, impl_build_value(u["re"]))))
            u2 = sc.res.get((q, "unbuild2"))
            if u2 and "orig" in u2:
                x = tocoq.clist(u2["orig"]["fields"], lambda nv: "(%s, %s)" % (tocoq.ustr(nv[0]), tocoq.cjson(nv[1])),
                                "(ustring * json)")
                items.append(("run_unbuild tb T %s %s %s" % (sid, x, ccalls(sc.seqs[q])),
                              (si, "unbuild+set", q, impl_build_value(u2["re"]))))
        for a in range(0, len(items), 120):
            part = items[a:a + 120]
            exprs.append("(let T := %s in let tb := %s in String.concat %s [%s])" % (
                spaces[sc.m], tb, vlib.coq_str(SEP), "; ".join(t for t, _ in part)))
            plans.append([pl for _, pl in part])
    return exprs, plans
