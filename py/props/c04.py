"""C04 — Rust -> schemars schema -> typify type is wire compatible with the original.

Every run:
  1. seeded universes of serde+schemars derivable Rust types (py/rustgen.py) + the curated corpus;
  2. an ORIGIN crate is compiled from them (serde + schemars derive); the real schemars produces the
     root schema document of every root type (schemars is the implementation, not a model);
  3. typify ingests every document by three routes: R = add_root_schema(doc); D = add_ref_types(doc.definitions)
     then add_type_with_name(doc.schema, T) (the route of typify-impl/src/test_util.rs); D2 = one
     add_ref_types(definitions + {T: schema}); the generated modules are compiled (py/world.py);
  4. value exchange: JSON candidates are generated from the type structure, the ORIGIN type tells
     which it accepts and gives the canonical serialisation j of the value x; the generated T' must
     accept j, and its re-serialisation j' must be accepted by the origin T and denote the same value
     (PartialEq of the origin type, and the origin's serialisation of it equals j);
  5. the routes must behave the same (acceptance / round-trip vectors, IR dumps up to ids);
  6. Coq: Algo/RustDefs.v (`ir_of_rust`: the original types' meaning in typify's IR) is tied to the
     compiled ORIGIN crate on the same candidates through IR/Serde.v (K5-origin); theorems Props/C04.v.
"""
import json
import os
import random
import re
import sys

import c04f_tie
import k5
import rustgen
import tocoq
import vlib
import world

THEOREMS = []   # filled from Props/C04.v
PROPS = os.path.join(vlib.COQ, "theories", "Props", "C04.v")
CORPUS = os.path.join(vlib.ROOT, "corpus", "C04")
MUT = os.environ.get("C04_MUTATE", "")

ROUTES = ("R", "D", "D2")


def jtext(j):
    return json.dumps(j, ensure_ascii=False)


def split_doc(doc):
    schema = {k: v for k, v in doc.items() if k not in ("$schema", "definitions")}
    return schema, doc.get("definitions", {})


def route_case(doc, root, route):
    schema, defs = split_doc(doc)
    if route == "R":
        steps = [{"op": "root", "doc": doc}]
    elif route == "D":
        steps = [{"op": "refs", "defs": defs}]
        if root not in defs:
            steps.append({"op": "add", "schema": schema, "name": root})
    else:
        d2 = dict(defs)
        if root not in d2:
            d2[root] = schema
        steps = [{"op": "refs", "defs": d2}]
    return {"settings": {}, "steps": steps}


def root_id(gen, route, root):
    d = gen["dump"]
    if route == "R":
        return gen["steps"][0].get("id")
    if ("#/" + root) in d["ref_to_id"]:
        return d["ref_to_id"]["#/" + root]
    if len(gen["steps"]) > 1:
        return gen["steps"][1].get("id")
    return None


def gen_type_name(gen, route, root, x):
    """name of the generated item for Rust type x (None when x has no named item)."""
    d = gen["dump"]
    if x == root:
        i = root_id(gen, route, root)
    else:
        i = d["ref_to_id"].get("#/" + x)
    if i is None:
        return None, None
    e = d["entries"].get(str(i))
    if e is None:
        return None, i
    if e["kind"] not in ("struct", "enum", "newtype"):
        if x == root and route == "D" and len(gen["steps"]) > 1:
            return "__root", i
        return None, i
    return e["name"], i


def anon_root_chunk(i, gen):
    """route D: add_type_with_name returns the bare type (no named item) when the root schema is not an
    object/enum: expose it to the driver under the pseudo name `__root` through its type expression."""
    steps = gen.get("steps") or []
    if len(steps) < 2 or steps[-1].get("id") is None:
        return []
    rid = steps[-1]["id"]
    e = gen["dump"]["entries"].get(str(rid))
    if e is None or e["kind"] in ("struct", "enum", "newtype"):
        return []
    expr = None
    for t in gen.get("types") or []:
        if isinstance(t, dict) and t.get("id") == rid:
            expr = t.get("ident")
    if not expr:
        return []
    return [("anonroot", "use super::*;\npub type AnonRoot = %s;\n" % expr,
             [("__root", "de", "crate::rt::de::<AnonRoot>(input)")])]


def canon_dump(dump, rid):
    """rooted, id-free, name-free view of the IR reachable from rid: ids renamed by DFS order, transparent
    newtype wrappers (no constraints, no default) and Box looked through, type names dropped (the routes name inner
    types differently: `Wrapper` / `WrapperInner`); what remains determines the wire behaviour."""
    ents = dump["entries"]
    order = {}

    def go(i):
        if i in order:
            return "#%d" % order[i]
        e = ents.get(str(i))
        if e is None:
            return "?"
        k = e["kind"]
        if k == "newtype" and e["constraints"] == {"k": "none"} and e["default"] is None:
            return go(e["type_id"])
        if k == "box":
            return go(e["id"])      # where break_cycles puts the Box depends on the id order; no wire effect
        order[i] = len(order)

        def props(ps):
            return [[p["name"], p["rename"], p["state"], go(p["type_id"])] for p in ps]
        if k == "struct":
            return ["struct", e["default"], e["deny"], props(e["props"])]
        if k == "enum":
            vs = []
            for v in e["variants"]:
                dd = v["details"]
                if dd["k"] == "simple":
                    x = ["simple"]
                elif dd["k"] == "item":
                    x = ["item", go(dd["id"])]
                elif dd["k"] == "tuple":
                    x = ["tuple", [go(t) for t in dd["ids"]]]
                else:
                    x = ["struct", props(dd["props"])]
                vs.append([v["raw"], x])
            return ["enum", e["default"], e["tag"], e["deny"], vs]
        if k == "newtype":
            return ["newtype", e["default"], e["constraints"], go(e["type_id"])]
        if k in ("option", "box", "vec", "set", "reference"):
            return [k, go(e["id"])]
        if k == "map":
            return ["map", go(e["key"]), go(e["value"])]
        if k == "array":
            return ["array", e["len"], go(e["id"])]
        if k == "tuple":
            return ["tuple", [go(t) for t in e["ids"]]]
        if k in ("integer", "float"):
            return [k, e["name"]]
        if k == "native":
            return ["native", e["type_name"]]
        return [k]
    return go(rid)


def canon_strip(t):
    """#n back references shift by one when the wrapper node is absent: drop the numbers."""
    if isinstance(t, str) and t.startswith("#"):
        return "#"
    if isinstance(t, list):
        return [canon_strip(x) for x in t]
    return t


class Run:
    """One executed pipeline over a list of universes."""

    def __init__(self, ctx, name, universes, ncand, seed, routes=ROUTES, extra_values=None, nmut=1):
        self.extra_values = extra_values or {}
        self.nmut = nmut
        self.ctx = ctx
        self.name = name
        self.us = universes
        self.ncand = ncand
        self.seed = seed
        self.routes = routes
        self.docs = {}          # (ui, root) -> doc
        self.cases = []         # typify cases
        self.case_of = {}       # (ui, root, route) -> case index
        self.samples = []       # dict(ui, root, x, cand, j)
        self.results = []       # per sample: {route: verdict}
        self.rejected = []      # typify rejected (C01 territory)
        self.not_compiled = []
        self.route_diffs = []
        self.failures = []

    def execute(self):
        ctx = self.ctx
        with vlib.Lock("c04-origin-" + self.name):
            self.origin = rustgen.Origin(ctx, self.name, self.us).build()
        o = self.origin
        roots = [(ui, r) for ui, u in enumerate(self.us) for r in u["roots"] if o.status[ui] == "ok"]
        ans = o.query([{"m": ui, "t": r, "op": "schema"} for ui, r in roots])
        for (ui, r), a in zip(roots, ans):
            if "ok" in a:
                self.docs[(ui, r)] = a["ok"]
        for (ui, r), doc in sorted(self.docs.items()):
            for route in self.routes:
                if route == "D2" and r in doc.get("definitions", {}):
                    continue   # identical to D
                self.case_of[(ui, r, route)] = len(self.cases)
                self.cases.append(route_case(doc, r, route))
        with vlib.Lock("c04-world-" + self.name):
            self.world = world.World(ctx, self.name, self.cases, chunks_fn=anon_root_chunk).build()
        w = self.world
        for (ui, r, route), c in sorted(self.case_of.items()):
            if w.status[c] == "not-generated":
                g = w.gen[c]
                self.rejected.append({"universe": ui, "root": r, "route": route,
                                      "steps": g.get("steps"), "render": (g.get("render") or {}).get("r")})
            elif w.status[c] != "ok":
                self.not_compiled.append({"universe": ui, "root": r, "route": route,
                                          "errors": w.compile_errors.get(c)})
        # ---- candidates, origin verdicts
        reqs = []
        meta = []
        for (ui, r) in sorted(self.docs):
            u = self.us[ui]
            sm = rustgen.Sampler(u, random.Random("%s/cand/%d/%s" % (self.seed, ui, r)))
            for x in rustgen.reachable(u, r):
                cands = list(self.extra_values.get(ui, {}).get(x, [])) + sm.candidates(x, self.ncand)
                muts = []
                for cand in cands:
                    muts += rustgen.mutants(cand, sm.r, self.nmut)
                for cand in cands + muts:
                    reqs.append({"m": ui, "t": x, "op": "de", "input": jtext(cand)})
                    meta.append((ui, r, x, cand))
        ans = o.query(reqs)
        seen = set()
        self.n_candidates = len(reqs)
        self.origin_rejects = 0
        self.k5_inputs = []     # (ui, type, json, origin answer)
        for (ui, r, x, cand), a in zip(meta, ans):
            if "ok" not in a:
                self.origin_rejects += 1
                self.k5_inputs.append((ui, x, cand, a))
                continue
            j = a["ok"]
            key = (ui, r, x, json.dumps(j, sort_keys=True))
            if key in seen:
                continue
            seen.add(key)
            self.samples.append({"ui": ui, "root": r, "x": x, "cand": cand, "j": j})
        # ---- keep only values whose JSON text is a fixpoint of the ORIGIN's own text round trip: serde_json (built
        # without `float_roundtrip`) parses some decimal float texts one ULP off, so for such a double
        # from_str(to_string(x)) != x already for the original type alone -- not a statement about typify
        for _ in range(2):
            ans2 = o.query([{"m": sm["ui"], "t": sm["x"], "op": "de", "input": jtext(sm["j"])} for sm in self.samples])
            nxt, changed = [], 0
            for sm, a in zip(self.samples, ans2):
                if "ok" not in a:
                    changed += 1
                    continue
                if not k5.canon_eq(tocoq.canon(a["ok"]), tocoq.canon(sm["j"])):
                    changed += 1
                    sm = dict(sm, j=a["ok"])
                nxt.append(sm)
            self.samples = nxt
            if not changed:
                break
        else:
            ans2 = o.query([{"m": sm["ui"], "t": sm["x"], "op": "de", "input": jtext(sm["j"])} for sm in self.samples])
            self.samples = [sm for sm, a in zip(self.samples, ans2)
                            if "ok" in a and k5.canon_eq(tocoq.canon(a["ok"]), tocoq.canon(sm["j"]))]
        seen2, uniq2 = set(), []
        for sm in self.samples:
            key = (sm["ui"], sm["root"], sm["x"], json.dumps(sm["j"], sort_keys=True))
            if key not in seen2:
                seen2.add(key)
                uniq2.append(sm)
        self.samples = uniq2
        # ---- generated side: de j
        q1, m1 = [], []
        self.results = [{} for _ in self.samples]
        for n, s in enumerate(self.samples):
            for route in self.routes:
                c = self.case_of.get((s["ui"], s["root"], route))
                if c is None:
                    continue
                if w.status[c] != "ok":
                    self.results[n][route] = {"v": "no-module"}
                    continue
                tn, tid = gen_type_name(w.gen[c], route, s["root"], s["x"])
                if tn is None:
                    self.results[n][route] = {"v": "no-named-type"}
                    continue
                q1.append({"m": c, "t": tn, "op": "de", "input": jtext(s["j"])})
                m1.append((n, route))
        a1 = w.query(q1)
        q2, m2 = [], []
        for (n, route), a in zip(m1, a1):
            s = self.samples[n]
            if MUT == "reject" and n == 0:
                a = {"err": "emulated"}
            if "ok" in a:
                j1 = a["ok"]
                if MUT == "change" and n == 0:
                    j1 = [j1]
                self.results[n][route] = {"v": "accepted", "j1": j1}
                q2.append({"m": s["ui"], "t": s["x"], "op": "de", "input": jtext(j1)})
                m2.append((n, route, "de"))
                q2.append({"m": s["ui"], "t": s["x"], "op": "eq", "input": [jtext(s["j"]), jtext(j1)]})
                m2.append((n, route, "eq"))
            elif "err" in a:
                self.results[n][route] = {"v": "rejected", "err": a["err"]}
            else:
                self.results[n][route] = {"v": "driver", "out": a}
        a2 = o.query(q2)
        for (n, route, op), a in zip(m2, a2):
            r = self.results[n][route]
            s = self.samples[n]
            if op == "de":
                if "ok" in a:
                    r["j2"] = a["ok"]
                    r["same_wire"] = k5.canon_eq(tocoq.canon(a["ok"]), tocoq.canon(s["j"]))
                else:
                    r["v"] = "origin-rejects-reserialisation"
                    r["err2"] = a.get("err", json.dumps(a))
            else:
                r["same_value"] = a.get("ok") is True
        for n, s in enumerate(self.samples):
            for route, r in self.results[n].items():
                if r["v"] == "accepted":
                    r["v"] = "ok" if (r.get("same_wire") and r.get("same_value")) else "value-changed"
        # ---- failures and route agreement
        for n, s in enumerate(self.samples):
            vec = {rt: r["v"] for rt, r in self.results[n].items()}
            for route, r in self.results[n].items():
                if r["v"] in ("rejected", "origin-rejects-reserialisation", "value-changed", "driver"):
                    self.failures.append({"universe": s["ui"], "root": s["root"], "type": s["x"], "route": route,
                                          "kind": r["v"], "value": s["j"], "detail": {k: v for k, v in r.items() if k != "v"}})
            vs = set(v for v in vec.values())
            if len(vs) > 1:
                self.route_diffs.append({"universe": s["ui"], "root": s["root"], "type": s["x"], "value": s["j"],
                                         "verdicts": vec})
        # ---- dumps up to ids
        self.dump_diffs = []
        for (ui, r) in sorted(self.docs):
            cd = {}
            for route in self.routes:
                c = self.case_of.get((ui, r, route))
                if c is None or w.status[c] == "not-generated":
                    continue
                rid = root_id(w.gen[c], route, r)
                if rid is not None:
                    cd[route] = json.dumps(canon_dump(w.gen[c]["dump"], rid), sort_keys=True)
            if len(set(cd.values())) > 1:
                self.dump_diffs.append({"universe": ui, "root": r, "dumps": cd})
        return self


def load_corpus():
    out = []
    if os.path.isdir(CORPUS):
        for fn in sorted(os.listdir(CORPUS)):
            if fn.endswith(".json"):
                d = json.load(open(os.path.join(CORPUS, fn)))
                d["file"] = fn
                out.append(d)
    return out


def theorem_names(path, prefix):
    if not os.path.exists(path):
        return []
    txt = vlib.strip_coq_comments(open(path).read())
    return re.findall(r"\bTheorem\s+(%s\w+)" % prefix, txt)


def root_def(u, root):
    return [d for d in u["types"] if d["name"] == root][0]


def option_shaped(doc):
    """root schema anyOf/oneOf [T, null] (what maybe_option recognises)."""
    for k in ("anyOf", "oneOf"):
        subs = doc.get(k)
        if isinstance(subs, list) and len(subs) == 2 and any(x == {"type": "null"} for x in subs):
            return True
    return False


def classify_cases(ctx, run, corpus):
    """case-level verdicts: typify rejections / compile failures per (universe, root), route divergences."""
    w = run.world
    known, viol, c01 = [], [], []
    for (ui, r) in sorted(run.docs):
        st = {}
        for route in run.routes:
            c = run.case_of.get((ui, r, route))
            if c is not None:
                st[route] = (w.status[c], c)
        if all(s == "ok" for s, _ in st.values()):
            continue
        u = run.us[ui]
        doc = run.docs[(ui, r)]
        src = rustgen.rs_universe(u)
        bad = {rt: s for rt, (s, c) in st.items() if s != "ok"}
        if len(bad) == len(st):
            kinds = set(bad.values())
            det = {}
            for rt, (s, c) in st.items():
                det[rt] = (w.gen[c].get("steps") if s == "not-generated" else w.compile_errors.get(c, [])[:2])
            c01.append({"universe": ui, "root": r, "status": sorted(kinds), "detail": det,
                        "corpus": corpus[ui]["file"] if ui < len(corpus) else None, "rust": src})
            if "compile-error" in kinds and not (ui < len(corpus) and corpus[ui].get("c01") == "compile-error"):
                # typify accepted the schemars document of a serde-derivable type and the generated module does not
                # compile: no T' exists for the values of T.  Never a skipped case.
                codes = sorted(set(str(e[0]) for rt, (s_, c_) in st.items() for e in w.compile_errors.get(c_, [])))
                viol.append({"kind": "generated-code-does-not-compile", "rustc_error_codes": codes, "universe_index": ui,
                             "root": r, "rust": src, "document": doc, "detail": det, "universe": u})
                continue
            if len(kinds) > 1:
                viol.append({"kind": "route-divergence", "universe_index": ui, "root": r, "rust": src, "document": doc,
                             "status": bad, "detail": det})
            continue
        # some routes fail, some succeed
        if set(bad) == {"R"}:
            s, c = st["R"]
            g = w.gen[c]
            if s == "compile-error" and r in doc.get("definitions", {}) and \
                    any(e[0] == "E0428" for e in w.compile_errors.get(c, [])):
                known.append(("C04-2", "route R (add_root_schema) emits the self-referential root type `%s` twice "
                              "(E0428); routes D/D2 compile" % r, ui, r))
                continue
            if s == "not-generated" and r in doc.get("definitions", {}) and \
                    any(x.get("r") == "err" and "map to the same type name" in x.get("msg", "") for x in g.get("steps", [])):
                known.append(("C04-2", "route R (add_root_schema) rejects the document of the self-referential root type "
                              "`%s` (root and definition copy map to the same type name); routes D/D2 accept it" % r, ui, r))
                continue
        det = {}
        for rt, (s, c) in st.items():
            det[rt] = {"status": s, "steps": w.gen[c].get("steps"), "errors": w.compile_errors.get(c, [])[:3]}
        viol.append({"kind": "route-divergence", "universe_index": ui, "root": r, "rust": src, "document": doc,
                     "routes": det})
    return known, viol, c01


def k5_origin(ctx, run, tag, limit):
    """IR/Serde.v on ir_of_rust(U) vs the compiled ORIGIN crate, same JSON inputs."""
    o = run.origin
    items = []
    seen = set()
    for s in run.samples:
        items.append((s["ui"], s["x"], s["j"], None))
    for (ui, x, cand, a) in run.k5_inputs:
        items.append((ui, x, cand, a))
    # members with skip_serializing_if on an integer / String / bool have no counterpart in IR/Serde.v (POptional skips
    # None, empty Vec, empty map only): universes that use one are left out of the model comparison (counted)
    unmodelled = set(ui for ui, u in enumerate(run.us)
                     if any(('"skip_if": "%s"' % k) in json.dumps(u) for k in ("is_zero", "str_empty", "not")))
    ctx.coverage["k5_origin_universes_with_unmodelled_skip_predicates"] = len(unmodelled)
    items = [it for it in items if it[0] not in unmodelled]
    uniq = []
    for it in items:
        key = (it[0], it[1], json.dumps(it[2], sort_keys=True))
        if key not in seen:
            seen.add(key)
            uniq.append(it)
    if len(uniq) > limit:
        step = len(uniq) / float(limit)
        uniq = [uniq[int(k * step)] for k in range(limit)]
    need = [n for n, it in enumerate(uniq) if it[3] is None]
    ans = o.query([{"m": uniq[n][0], "t": uniq[n][1], "op": "de", "input": jtext(uniq[n][2])} for n in need])
    uniq = [list(it) for it in uniq]
    for n, a in zip(need, ans):
        uniq[n][3] = a
    uis = sorted(set(it[0] for it in uniq))
    header = [tocoq.COQ_HEADER, "From Typify Require Import IR.Serde IR.SerdeRun Algo.RustDefs.\nOpen Scope string_scope.\n"]
    exprs = []
    # shards by universe so each file only defines the universes it needs
    by_u = {}
    for n, it in enumerate(uniq):
        by_u.setdefault(it[0], []).append(n)
    results = [None] * len(uniq)
    flat = [n for ui in uis for n in by_u[ui]]
    groups = [flat[k:k + 60] for k in range(0, len(flat), 60)]     # <= 60 cases per coqc (result string size)
    d = os.path.join(vlib.WORK, "cases", tag)
    os.makedirs(d, exist_ok=True)
    for f in os.listdir(d):
        os.unlink(os.path.join(d, f))
    paths, orders = [], []
    for k, ns in enumerate(groups):
        g = sorted(set(uniq[n][0] for n in ns))
        orders.append(ns)
        pth = os.path.join(d, "k5o_%d.v" % k)
        with open(pth, "w") as f:
            f.write("".join(header))
            for ui in g:
                f.write("Definition U_%d : universe := %s.\n" % (ui, rustgen.cq_universe(run.us[ui])))
                f.write("Definition sp_%d : space := Eval vm_compute in ir_of_rust U_%d.\n" % (ui, ui))
            f.write("Definition vnl : string := String (Ascii.ascii_of_nat 10) EmptyString.\n")
            f.write("Definition vcases : list string := [\n")
            f.write(";\n".join("  (run_rt [] [] sp_%d 40 (rust_id U_%d %s) %s)" % (
                uniq[n][0], uniq[n][0], rustgen.ustr(uniq[n][1]), tocoq.cjson(uniq[n][2])) for n in ns))
            f.write("\n]%list.\nSet Printing Width 1000000.\nSet Printing Depth 1000000.\n")
            f.write("Eval vm_compute in (String.concat vnl vcases).\n")
        paths.append(pth)

    def one(pth):
        rc, out, err = vlib.coqc_file(pth, 900)
        if rc != 0:
            raise RuntimeError("coqc failed on %s:\n%s" % (pth, (out + err)[-3000:]))
        mm = re.search(r'= "(.*)"\s*\n\s*: string', out, re.S)
        if not mm:
            raise RuntimeError("cannot parse coqc output of %s: %s" % (pth, out[-2000:]))
        return mm.group(1).replace('""', '"').split("\n")
    from concurrent.futures import ThreadPoolExecutor
    with ThreadPoolExecutor(max_workers=vlib.NCPU) as ex:
        for ns, r in zip(orders, ex.map(one, paths)):
            if len(r) != len(ns):
                raise RuntimeError("k5-origin shard: %d results for %d cases" % (len(r), len(ns)))
            for n, sres in zip(ns, r):
                results[n] = sres
    mism = []
    n_acc = 0
    for it, mres in zip(uniq, results):
        ic = ("ok", tocoq.canon(it[3]["ok"])) if "ok" in it[3] else (("err",) if "err" in it[3] else ("other", json.dumps(it[3])[:200]))
        mc = k5.model_canon(mres)
        if MUT == "k5" and ic[0] == "ok" and not n_acc:
            mc = ("err",)
        if ic[0] == "ok":
            n_acc += 1
        same = ic[0] == mc[0] and (ic[0] != "ok" or k5.canon_eq(ic[1], mc[1]))
        if not same:
            mism.append({"universe": it[0], "type": it[1], "input": it[2], "origin": it[3], "model": mres,
                         "rust": rustgen.rs_universe(run.us[it[0]])})
    return len(uniq), n_acc, mism


def wire_equiv_info(ctx, run, tag):
    """informational: C14's structural checker on (ir_of_rust U, typify's dump of route D)."""
    if not os.path.exists(os.path.join(vlib.COQ, "theories", "Check", "WireEquiv.v")):
        return None
    ok, out = vlib.coq_make(["theories/Check/WireEquiv.vo"])
    if not ok:
        return None
    w = run.world
    header = [tocoq.COQ_HEADER, "From Typify Require Import IR.Serde Algo.RustDefs Check.WireEquiv.\nOpen Scope string_scope.\n"]
    exprs = []
    keys = []
    for (ui, r) in sorted(run.docs):
        c = run.case_of.get((ui, r, "D"))
        if c is None or w.status[c] == "not-generated":
            continue
        rid = root_id(w.gen[c], "D", r)
        if rid is None:
            continue
        header.append("Definition U_%d_%d : universe := %s.\n" % (ui, c, rustgen.cq_universe(run.us[ui])))
        header.append("Definition g_%d : space := %s.\n" % (c, tocoq.cspace(w.gen[c]["dump"])))
        exprs.append('(if wire_equiv (ir_of_rust U_%d_%d) (rust_id U_%d_%d %s) g_%d %d%%N then "true" else "false")' % (
            ui, c, ui, c, rustgen.ustr(r), c, rid))
        keys.append((ui, r))
        if len(exprs) >= 40:
            break
    if not exprs:
        return None
    res = vlib.coq_eval_strings(tag, "".join(header), exprs, shard=40)
    return {"evaluated": len(res), "true": len([x for x in res if x == "true"])}


def shrink(ctx, u, root, pred_kind, seed):
    """greedy batch shrinking of a failing universe: candidates = single deletions; a candidate is kept when
    the same kind of failure persists for the same root."""
    cur = json.loads(json.dumps(u))
    cur["roots"] = [root]
    for rnd in range(4):
        cands = []
        names = [d["name"] for d in cur["types"]]
        reach = set(rustgen.reachable(cur, root))
        if len(reach) < len(names):
            c = json.loads(json.dumps(cur))
            c["types"] = [d for d in c["types"] if d["name"] in reach]
            cands.append(c)
        for di, d in enumerate(cur["types"]):
            for key in ("fields", "variants", "tys"):
                for k in range(len(d.get(key, []))):
                    if len(d[key]) > 1:
                        c = json.loads(json.dumps(cur))
                        del c["types"][di][key][k]
                        cands.append(c)
            for key, off in (("rename_all", None), ("deny", False), ("cdefault", False)):
                if d.get(key):
                    c = json.loads(json.dumps(cur))
                    c["types"][di][key] = off
                    cands.append(c)
            for vi, v in enumerate(d.get("variants", [])):
                for k in range(len(v.get("fields", []))):
                    if len(v["fields"]) > 1:
                        c = json.loads(json.dumps(cur))
                        del c["types"][di]["variants"][vi]["fields"][k]
                        cands.append(c)
        cands = [c for c in cands if set(rustgen.reachable(c, root)) <= {d["name"] for d in c["types"]}][:24]
        if not cands:
            break
        try:
            r = Run(ctx, "c04shrink%s" % seed, cands, 6, seed, routes=("R", "D")).execute()
        except Exception as e:  # noqa
            ctx.log("shrink round failed: %r" % e)
            break
        good = None
        for ci in range(len(cands)):
            if r.origin.status[ci] != "ok":
                continue
            if any(f["universe"] == ci and f["kind"] == pred_kind for f in r.failures):
                if good is None or len(json.dumps(cands[ci])) < len(json.dumps(cands[good])):
                    good = ci
        if good is None:
            break
        cur = cands[good]
    return cur


def cleanup_stale(max_age_s=2 * 3600):
    """scratch of EARLIER runs of this check (per-seed origin crates, worlds, case files): removed when older than
    two hours, so that concurrent runs (other seeds, the integrator's sweeps) never delete each other's files"""
    import shutil
    import time
    now = time.time()
    with vlib.Lock("c04-cleanup"):
        for base, pref in ((os.path.join(vlib.WORK, "c04"), ("c04q", "c04t", "c04shrink", "c04dev", "c04sweep", "c04fdev")),
                           (os.path.join(vlib.WORK, "world"), ("c04q", "c04t", "c04shrink", "c04dev")),
                           (os.path.join(vlib.WORK, "cases"), ("c04k5", "c04f", "c04we"))):
            if not os.path.isdir(base):
                continue
            for d in os.listdir(base):
                pth = os.path.join(base, d)
                if d.startswith(pref) and os.path.isdir(pth):
                    try:
                        if now - os.path.getmtime(pth) > max_age_s:
                            shutil.rmtree(pth, ignore_errors=True)
                    except OSError:
                        pass


def run(ctx):
    global THEOREMS
    ctx.level = "proof"
    quick = ctx.tier == "quick"
    ctx.checker_cmd = ("make theories/Props/C04.vo; origin crate (serde+schemars derive) + typify routes R/D/D2 + "
                       "compiled generated modules exchanging values; coqc work/cases/c04k5*/k5o_*.v")
    ctx.trusted = [
        "Coq 8.16.1 kernel + vm_compute",
        "IR/Serde.v as the meaning of serde on a type space (hand model; tied to compiled GENERATED code by K5 in "
        "C02/C03 and to the compiled ORIGIN crate by K5-origin here, every run)",
        "Algo/RustDefs.v ir_of_rust as the meaning of the Rust definitions (tied by K5-origin)",
        "Algo/Schemars.v schema_of_rust as schemars' derive on the fragment (tied: exact equality with the real schemars output); "
        "Algo/Convert.v convert_doc as typify's converter on the fragment (tied: K3 exact equality of type spaces)",
        "schemars 0.8.22 is OBSERVED (the real derive output is fed to typify), not modelled",
        "py/rustgen.py (universe -> Rust source / Gallina term), py/tocoq.py, py/world.py, verif_dump hook",
        "value equality of the origin type: derived PartialEq, and equality of the origin's own serialisations",
    ]
    ctx.assumptions = [
        "ASCII identifiers (serde's char::is_uppercase = 'A'..'Z' on that domain)",
        "the forall-program quantifier is explored by seeded generated universes + curated corpus; the forall-value "
        "quantifier by generated candidates and their mutations that the ORIGIN type accepts",
        "C04_wire_compat_from_equiv applies where C14's proven checker wire_equiv answers true (a strict structural equivalence); elsewhere the executed value exchange decides",
        "C04F_fragment_wire_compat: for every universe of rust_frag the property is a theorem about the models "
        "(schemars model / converter model / ir_of_rust / Serde.v), each tied to the real code on every run",
    ]
    cleanup_stale()
    vlib.build_harness(bins=("vh", "c04"))
    alt = os.environ.get("C04_VH")          # emulation of a change to typify: a `vh` built against a modified COPY of /repo
    if alt:
        vlib.VH = alt
        ctx.log("EMULATION: typify runs from %s" % alt)
    corpus = load_corpus()
    n_rand = 20 if quick else 150
    rand = rustgen.generate(ctx.seed, n_rand, rustgen.RANDOM_PROFILE)
    # universes of the C04F fragment (3 of 4) and near misses (1 of 4): they go through the whole pipeline as well
    fragus = c04f_tie.generate(ctx.seed, 24 if quick else 120)
    us = [c["universe"] for c in corpus] + rand + fragus
    extra = {i: c.get("values", {}) for i, c in enumerate(corpus)}
    # names carry the seed: runs with different seeds (or tiers) never evict each other's crates; runs with the same
    # seed build under a lock and then share the cache; case files are private to the process
    name = ("c04q" if quick else "c04t") + ("s%s" % ctx.seed) + \
        (("x" + __import__("hashlib").sha256(open(alt, "rb").read()).hexdigest()[:6]) if alt else "")
    uniq = "%s-%d" % (name, os.getpid())
    run_ = Run(ctx, name, us, 6 if quick else 8, ctx.seed, extra_values=extra, nmut=1).execute()
    o, w = run_.origin, run_.world

    # ---- Coq obligations
    THEOREMS = theorem_names(PROPS, "C04_")
    coq_ok = False
    if THEOREMS:
        with vlib.Lock("c04-audit"):     # work/audit/Audit_C04.v is one file: concurrent C04 runs take turns
            coq_ok = vlib.standard_coq_obligations(ctx, "Props.C04", THEOREMS, vlib.STD_AXIOMS)
    else:
        ctx.oblige("Props/C04.v present", False, "property theorem file missing")

    # ---- C04F: the universe quantifier closed on a fragment (Props/C04F.v) + the ties of its models
    f_thms = re.findall(r"\b(?:Theorem|Example)\s+(C04F_\w+)", vlib.strip_coq_comments(open(PROPS.replace("C04.v", "C04F.v")).read())) \
        if os.path.exists(PROPS.replace("C04.v", "C04F.v")) else []
    if f_thms:
        with vlib.Lock("c04-audit"):
            vlib.standard_coq_obligations(ctx, "Props.C04F", f_thms, vlib.STD_AXIOMS)
    else:
        ctx.oblige("Props/C04F.v present", False, "fragment theorem file missing")
    tie_bad = None
    try:
        res, real, dumps = c04f_tie.evaluate(ctx, "c04f-" + uniq, us, o)
        summ = c04f_tie.summarize(res, us)
        ctx.coverage["c04f_tie"] = {k: (len(v) if isinstance(v, list) else v) for k, v in summ.items()}
        nin, nout = summ["in_fragment"], summ["outside"]
        for key, what in (("S", "schemars model: Algo/Schemars.schema_of_rust U = the definitions the REAL schemars derive emits "
                                 "(exact term equality)"),
                          ("F", "C04F_schemars_in_frag evaluated: in_frag (real definitions) = true"),
                          ("K", "converter model K3: convert_doc (real definitions) = Some (the REAL typify type space), exact"),
                          ("W", "C04F conclusion on the real type space: wire_equiv_all (ir_of_rust U) T = true on every definition")):
            bad = summ["mismatch_%s" % {"S": "S_schemars_model", "F": "F_in_frag", "K": "K_converter_model", "W": "W_wire_equiv"}[key]]
            ctx.oblige("%s, on %d universes of the fragment (%d generated near misses classified out)" % (what, nin, nout),
                       not bad, json.dumps([{"universe": i, "rust": rustgen.rs_universe(us[i])[:1500]} for i in bad[:1]])[:1800])
            if bad and tie_bad is None:
                tie_bad = {"kind": "c04f-tie-" + key, "what": what, "universe": us[bad[0]], "rust": rustgen.rs_universe(us[bad[0]]),
                           "real_schemars_definitions": real.get(bad[0]), "real_typify_dump": dumps.get(bad[0]), "verdicts": res[bad[0]]}
        ctx.oblige("C04F tie covers both polarities (universes inside and outside the fragment)", nin >= 5 and nout >= 1,
                   json.dumps(ctx.coverage["c04f_tie"]))
    except Exception as e:  # noqa
        ctx.oblige("C04F tie evaluates", False, str(e)[-1500:])

    # ---- generator health
    ctx.oblige("origin crate: every generated universe compiles with serde+schemars derive (%d universes)" % len(us),
               not o.compile_errors, json.dumps(o.compile_errors)[:1500])

    # ---- case level
    known_cases, viol_cases, c01 = classify_cases(ctx, run_, corpus)
    for fid, text, ui, r in known_cases:
        ctx.known_finding(fid, "%s [witness corpus/C04 or universe %d]" % (text, ui))

    # ---- sample level
    fail_known, fail_new = [], []
    for f in run_.failures:
        ui = f["universe"]
        if ui < len(corpus) and corpus[ui].get("finding") and f["kind"] in corpus[ui].get("kinds", []):
            fail_known.append((corpus[ui]["finding"], f))
        else:
            fail_new.append(f)
    for fid, f in fail_known:
        ctx.known_finding(fid, "%s: type %s of corpus/C04/%s, value %s: %s (route %s)" % (
            fid, f["type"], corpus[f["universe"]]["file"], json.dumps(f["value"]), f["kind"], f["route"]))
    # corpus entries whose finding no longer reproduces are only logged
    for ci, c in enumerate(corpus):
        if c.get("finding"):
            hit = any(k[0] == c["finding"] for k in ctx.known)
            if not hit:
                ctx.log("corpus %s: finding %s did not reproduce" % (c["file"], c["finding"]))
    n_eval = sum(1 for rs in run_.results for r in rs.values() if r["v"] in ("ok", "rejected", "value-changed",
                                                                           "origin-rejects-reserialisation"))
    ctx.evaluations = n_eval
    ctx.oblige("direct evaluation: T' accepts ser(x) and T reads T'.ser back to the same value, all routes "
               "(%d (value, route) exchanges, %d values, %d types)" % (
                   n_eval, len(run_.samples), len(set((s["ui"], s["x"]) for s in run_.samples))),
               not fail_new, json.dumps(fail_new[:2], ensure_ascii=True)[:1800])

    # ---- untagged enums that are distinguishable from the JSON alone must not become flattened unions
    flat_bad, n_dist, n_untagged = [], 0, 0
    for (ui, r) in sorted(run_.docs):
        u = us[ui]
        by = {d["name"]: d for d in u["types"]}
        for x in rustgen.reachable(u, r):
            d = by[x]
            if d["kind"] != "enum" or d["tagging"]["k"] != "untagged":
                continue
            n_untagged += 1
            if not rustgen.untagged_distinguishable(d, by):
                continue
            if any(rustgen.known_array_vs_tuple_gap(a, b, by) for a in d["variants"] for b in d["variants"] if a is not b):
                continue        # finding C04-1 sub-shape (curated witness f1-untagged-array-vs-tuple-length.json)
            n_dist += 1
            for route in run_.routes:
                c = run_.case_of.get((ui, r, route))
                if c is None or w.status[c] == "not-generated":
                    continue
                tn, tid = gen_type_name(w.gen[c], route, r, x)
                e = w.gen[c]["dump"]["entries"].get(str(tid)) if tid is not None else None
                if e and e["kind"] == "struct" and e["props"] and all(p["rename"]["k"] == "flatten" for p in e["props"]):
                    flat_bad.append({"universe_index": ui, "root": r, "route": route, "type": x,
                                     "rust": rustgen.rs_def(d), "ir": e["props"]})
    ctx.coverage["untagged_enums"] = n_untagged
    ctx.coverage["untagged_enums_distinguishable_by_predicate"] = n_dist
    ctx.oblige("untagged enums distinguishable by JSON type / array length / required members are converted to enums, "
               "not to flattened unions (%d (enum, root) pairs)" % n_dist, not flat_bad, json.dumps(flat_bad[:2])[:1500])
    # C04-1 may only absorb curated enums the independent predicate calls indistinguishable (or the recorded sub-shape)
    mis = []
    for ci, c in enumerate(corpus):
        by = {d["name"]: d for d in c["universe"]["types"]}
        unt = [d for d in c["universe"]["types"] if d["kind"] == "enum" and d["tagging"]["k"] == "untagged"]
        if c.get("finding") == "C04-1":
            ok_ = any((not rustgen.untagged_distinguishable(d, by)) or
                      any(rustgen.known_array_vs_tuple_gap(a, b, by) for a in d["variants"] for b in d["variants"] if a is not b)
                      for d in unt)
            if not ok_:
                mis.append(c["file"])
        if c.get("must_be_distinguishable") and not all(rustgen.untagged_distinguishable(d, by) for d in unt):
            mis.append(c["file"])
    ctx.oblige("class C04-1 is keyed on curated universes the independent predicate cannot distinguish", not mis, str(mis))

    # ---- regression cases of fixed findings: must convert, compile and exchange values on the listed routes
    reg_bad = []
    for ci, c in enumerate(corpus):
        for route in c.get("must_pass_routes", []):
            for r in us[ci]["roots"]:
                cc = run_.case_of.get((ci, r, route))
                if cc is None:
                    continue
                oks = [n for n, sm in enumerate(run_.samples) if sm["ui"] == ci and run_.results[n].get(route, {}).get("v") == "ok"]
                names = sorted(e.get("name") for e in (w.gen[cc].get("dump") or {}).get("entries", {}).values() if e.get("name"))
                missing = [t for t in c.get("must_have_types", {}).get(route, []) if t not in names]
                if w.status[cc] != "ok" or not oks or missing:
                    reg_bad.append({"corpus": c["file"], "root": r, "route": route, "status": w.status[cc],
                                    "steps": w.gen[cc].get("steps"), "errors": w.compile_errors.get(cc, [])[:3],
                                    "named_types": names, "missing_types": missing})
    ctx.oblige("regression cases of fixed findings (C04-3 / 6953602, C04-5 / 2b82c72, one-tuple / d9b019c) convert and exchange values",
               not reg_bad, json.dumps(reg_bad[:3])[:1500])

    # ---- route agreement on values (only where both routes have a module)
    rd_new = []
    for d in run_.route_diffs:
        vs = {rt: v for rt, v in d["verdicts"].items() if v not in ("no-module",)}
        vals = set(vs.values())
        if len(vals) > 1:
            rd_new.append(d)
    ctx.oblige("routes agree: same acceptance / round-trip verdict for every value under R, D, D2 (%d values)" % len(run_.samples),
               not rd_new, json.dumps(rd_new[:3])[:1500])
    known_r = set((ui, r) for fid, _, ui, r in known_cases)
    dd_new = [d for d in run_.dump_diffs if (d["universe"], d["root"]) not in known_r]
    ctx.oblige("routes agree: IR dumps equal up to ids, names, Box placement and transparent newtypes (%d documents)" % len(run_.docs),
               not dd_new, json.dumps(dd_new[:1])[:1800])
    ctx.oblige("every accepted document yields modules that compile, and no unclassified route divergence at add / compile time", not viol_cases,
               json.dumps(viol_cases[:1])[:1800])

    # ---- K5-origin
    k5_mism = []
    try:
        ok, out = vlib.coq_make(["theories/Algo/RustDefs.vo", "theories/IR/SerdeRun.vo"])
        if not ok:
            raise RuntimeError("RustDefs.v does not build: " + out[-1500:])
        n_k5, n_acc, k5_mism = k5_origin(ctx, run_, "c04k5-" + uniq, 2500 if quick else 12000)
        ctx.oblige("correspondence K5-origin: IR/Serde.v de/ser on ir_of_rust(U) = compiled origin from_str/to_value "
                   "on %d (type, JSON) pairs (%d accepted, %d rejected by the origin)" % (n_k5, n_acc, n_k5 - n_acc),
                   not k5_mism, json.dumps(k5_mism[:2], ensure_ascii=True)[:1800])
        ctx.coverage["k5_origin_pairs"] = n_k5
        ctx.coverage["k5_origin_accepted"] = n_acc
        ctx.coverage["k5_origin_mismatches"] = len(k5_mism)
        if k5_mism:
            os.makedirs(os.path.join(vlib.WORK, "model-defects"), exist_ok=True)
            json.dump(k5_mism[:30], open(os.path.join(vlib.WORK, "model-defects", "c04-k5.json"), "w"), default=str, indent=1)
    except Exception as e:  # noqa
        ctx.oblige("correspondence K5-origin evaluates", False, str(e)[-1500:])

    # ---- wire_equiv (informational)
    try:
        ctx.coverage["wire_equiv_structural_checker_informational"] = wire_equiv_info(ctx, run_, "c04we-" + uniq)
    except Exception as e:  # noqa
        ctx.coverage["wire_equiv_structural_checker_informational"] = "error: " + str(e)[-300:]

    # ---- coverage
    feats = {}
    for u in rand:
        for f in rustgen.features(u):
            feats[f] = feats.get(f, 0) + 1
    from collections import Counter
    ctx.coverage.update({
        "rule": "seeded universes of 3-8 definitions (py/rustgen.py, profile excludes the listed finding classes) + curated "
                "corpus; roots cover every type (<= 3 per universe); candidates from the type structure + 1 mutation "
                "each, classified by the compiled ORIGIN type; distinct = distinct (universe, type, canonical value)",
        "universes_random": len(rand), "universes_corpus": len(corpus),
        "types": sum(len(u["types"]) for u in us),
        "documents": len(run_.docs), "typify_cases": len(run_.cases),
        "candidates": run_.n_candidates, "origin_rejected_candidates": run_.origin_rejects,
        "values": len(run_.samples),
        "verdicts": {"%s/%s" % k: v for k, v in sorted(Counter((rt, r["v"]) for rs in run_.results for rt, r in rs.items()).items())},
        "typify_rejected_or_uncompilable_all_routes(C01 territory)": len(c01),
        "c01_territory_cases": [{k: v for k, v in x.items() if k != "rust"} for x in c01][:8],
        "feature_counts": dict(sorted(feats.items())),
        "excluded_from_random_stream": list(rustgen.RANDOM_PROFILE["exclude"]),
    })
    for s in run_.samples:
        ctx.nontrivial.add(json.dumps([s["ui"], s["x"], s["j"]], sort_keys=True))
    step = max(1, len(run_.samples) // 8)
    ctx.samples = [{"type": rustgen.rs_def([d for d in us[s["ui"]]["types"] if d["name"] == s["x"]][0]),
                    "value": s["j"], "verdicts": {rt: r["v"] for rt, r in run_.results[n].items()}}
                   for n, s in list(enumerate(run_.samples))[::step]][:8]

    # ---- verdict
    reported = False
    if fail_new:
        f = sorted(fail_new, key=lambda f: len(json.dumps(us[f["universe"]])))[0]
        u = us[f["universe"]]
        small = u
        if os.environ.get("C04_NO_SHRINK") != "1" and not MUT:
            try:
                small = shrink(ctx, u, f["root"], f["kind"], ctx.seed)
            except Exception as e:  # noqa
                ctx.log("shrink failed: %r" % e)
        ctx.violation({"kind": f["kind"], "route": f["route"], "type": f["type"], "value": f["value"], "detail": f["detail"],
                       "universe": u, "rust": rustgen.rs_universe(u), "shrunk_universe": small,
                       "shrunk_rust": rustgen.rs_universe(small), "document": run_.docs.get((f["universe"], f["root"])),
                       "expected": "generated type accepts the value and its re-serialisation is read back by the "
                                   "origin type as the same value",
                       "broken_obligations": [b[0] for b in ctx.broken()]})
        reported = True
    viol_cases.sort(key=lambda v: len(v.get("rust", "")))
    for v in (viol_cases[:1] + [dict(d, kind="route-value-divergence", rust=rustgen.rs_universe(us[d["universe"]])) for d in rd_new[:1]]
              + [dict(d, kind="route-dump-divergence", rust=rustgen.rs_universe(us[d["universe"]])) for d in dd_new[:1]]):
        if not reported:
            ctx.violation(dict(v, broken_obligations=[b[0] for b in ctx.broken()]))
            reported = True
    if not reported and tie_bad:
        ctx.violation(dict(tie_bad, broken_obligations=[b[0] for b in ctx.broken()]))
        reported = True
    if not reported and flat_bad:
        fb = flat_bad[0]
        ctx.violation(dict(fb, kind="distinguishable-untagged-enum-flattened", universe=us[fb["universe_index"]],
                           document=run_.docs.get((fb["universe_index"], fb["root"])),
                           expected="an untagged enum (the variants differ by JSON type, array length or required members)",
                           broken_obligations=[b[0] for b in ctx.broken()]))
        reported = True
    if not reported and reg_bad:
        ci = [i for i, c in enumerate(corpus) if c["file"] == reg_bad[0]["corpus"]][0]
        ctx.violation(dict(reg_bad[0], kind="regression-of-fixed-finding", universe=us[ci], rust=rustgen.rs_universe(us[ci]),
                           document=run_.docs.get((ci, reg_bad[0]["root"])), broken_obligations=[b[0] for b in ctx.broken()]))
        reported = True
    if not reported and ctx.broken():
        ctx.violation({"broken_obligations": [(b[0], b[2][:1500]) for b in ctx.broken()],
                       "note": "a theorem or the K5-origin correspondence no longer checks; the value exchange found "
                               "no failing input"}, no_input=True)
    import shutil
    for t_ in ("c04k5-", "c04we-", "c04f-"):
        shutil.rmtree(os.path.join(vlib.WORK, "cases", t_ + uniq), ignore_errors=True)
    if ctx.tier == "thorough" and coq_ok:
        rc, out, err = vlib.sh("timeout 1500 coqchk -silent -o -Q theories Typify Typify.Props.C04", cwd=vlib.COQ,
                               timeout=1600)
        ctx.oblige("coqchk re-checks Props.C04 and dependencies", rc == 0, (out + err)[-1500:])
        rc, out, err = vlib.sh("timeout 1500 coqchk -silent -o -Q theories Typify Typify.Props.C04F", cwd=vlib.COQ,
                               timeout=1600)
        ctx.oblige("coqchk re-checks Props.C04F and dependencies", rc == 0, (out + err)[-1500:])
