"""C08 — arbitrary JSON names map to valid identifiers and exact wire names.

Deciding method: Coq theorems (Props/C08.v) over the executable model
Algo/Heck.v + Algo/Sanitize.v (heck's `transform`, typify's `sanitize`,
`recase`, variant naming), for every string and every character
classification satisfying `ClassesOK`.  Tie to /repo on every run:
  (a) the class hypotheses are audited exhaustively over all 1,112,064 scalar
      values against Rust std / unicode-ident / heck (harness binary c08);
  (b) model and implementation run on the same strings (exhaustive small
      alphabet, keyword list in several casings, seeded random Unicode), the
      model instantiated with a class table emitted by the harness;
  (c) the property itself is evaluated on the real pipeline (`vh gen`): names
      used as property names, enum values and definition keys, alone and in
      colliding pairs, with an oracle that only looks at the parsed output.
"""
import itertools
import json
import os
import random
import re
import unicodedata

import vlib

THEOREMS = [
    "C08_sanitize_lexical",
    "C08_sanitize_accepted",
    "C08_recase_wire",
    "C08_recase_rename_iff",
    "C08_variants_distinct_or_fail",
    "C08_variant_wire",
    "C08_replace_lookup",
    "C08_replace_key_is_identifier",
    "C08_fields_wire",
    "C08_fields_distinct_or_err",
    "C08_fields_err_on_collision",
    "C08_fields_ok_without_collision",
    "C08_defs_distinct_or_err",
    "C08_defs_err_on_collision",
    "C08_defs_ok_without_collision",
    "C08_batch_distinct_or_err",
    "C08_batch_err_title_vs_key",
    "C08_batch_err_key_vs_key",
    "C08_batch_defs_only",
    "C08_created_distinct_or_err",
    "C08_created_plain",
    "C08_created_err_root_vs_derived",
    "C08_created_err_key_vs_derived",
    "C08_classes_satisfiable",
]
ALLOWED_AXIOMS = ()

ALPHABET = ["a", "B", "1", "_", "-", "'", " ", "$", "\u00e9", "\u00c9", "\u0301", "\u20ac", "\u00df", "\u03a3"]
# special-casing / boundary scalars used in short combinations
EXTRA = ["\u01c5", "\u0149", "\u0130", "\ufb01", "\u00b7", "\u00b2", "\u0663", "\u03c3", "\u03c2", "\u4e2d",
         "\U0001f600", "\u01f0", "x", "X", "+", "\u2160", "\u1e9e", "\u0345"]
KEYWORDS = [
    "as", "break", "const", "continue", "crate", "else", "enum", "extern", "false", "fn", "for", "if", "impl",
    "in", "let", "loop", "match", "mod", "move", "mut", "pub", "ref", "return", "self", "Self", "static",
    "struct", "super", "trait", "true", "type", "unsafe", "use", "where", "while", "async", "await", "dyn",
    "abstract", "become", "box", "do", "final", "macro", "override", "priv", "typeof", "unsized", "virtual",
    "yield", "try", "gen", "union", "macro_rules", "'static", "raw", "safe", "auto", "default", "_",
]
EXTRA_FORMS = ["extra", "Extra", "EXTRA", "-extra", "extra'", "e_x_t_r_a", "extras", "extra_", "xtra", "b"]
SPECIAL = ["async", "+1", "-1", "", "x", "X", "_", "__", "'", "''", "-", "1", "+", "+1+1", "-1-1", "async_", "Async",
           "XMLHttpRequest", "FIELD_NAME11", "foo-bar", "foo_bar", "fooBar", "FooBar", "foo bar", "foo", "Foo",
           "\u03a3\u03a3", "a\u03a3", "\u03a3a", "X\u03a3X\u03a3 ba\ufb04e", "stra\u00dfe", "STRASSE", "self_", "Self_",
           "type", "type_", "r#type", "a'", "a'b", "a", "A", "1a", "x1a", "String", "Vec", "Option"] + EXTRA_FORMS
# scalars the model consults or emits by itself (prefix, separators, final sigma, special-case outputs)
FIXED_CHARS = "xX_-'\u03c2\u03a3" + "async_plus1minus1"

POOLS = [
    "abcdefghijklmnopqrstuvwxyz", "ABCDEFGHIJKLMNOPQRSTUVWXYZ", "0123456789", "_-' .$+/#@!:",
    "\u00e9\u00c9\u00df\u00e0\u00d1\u00fc\u00b5\u00aa\u00b7\u00b2", "\u03a3\u03c3\u03c2\u0391\u03b1\u03a9\u03c9\u0345",
    "\u0416\u0436\u0414\u0434", "\u4e2d\u6587\u5b57\u3042\u30a2", "\u0301\u0308\u200d\u200c\u0663\u0967",
    "\u01c5\u01c4\u01c6\u0149\u0130\u0131\ufb01\ufb04\u1e9e\u01f0\u2160\u2170\u24b6\u24d0",
    "\U0001f600\U0001d400\U0001d7ce\U00010400\U00010428\U000e0100",
]


def cps(s):
    return [ord(c) for c in s]


def ustr(s):
    return "[" + ";".join(str(ord(c)) for c in s) + "]%N"


def show(cpl):
    return " ".join(str(x) for x in cpl)


def rand_scalar(rnd):
    while True:
        c = rnd.randrange(0, 0x110000)
        if not (0xD800 <= c <= 0xDFFF):
            return chr(c)


def rand_string(rnd):
    n = rnd.randrange(4, 25)
    pools = rnd.sample(POOLS, rnd.randrange(1, 5))
    out = []
    for _ in range(n):
        r = rnd.random()
        if r < 0.04:
            out.append(rand_scalar(rnd))
        elif r < 0.50:
            out.append(rnd.choice(POOLS[0] + POOLS[1]))
        else:
            out.append(rnd.choice(rnd.choice(pools)))
    return "".join(out)


def keyword_variants():
    out = []
    for k in KEYWORDS:
        out += [k, k.upper(), k.capitalize(), "_" + k, k + "_", "-" + k, k + "-", k + " " + k, k + "'", "r#" + k,
                k + "1", "1" + k, k + "__", "'" + k]
    return out


def gen_strings(ctx):
    rnd = random.Random(ctx.seed * 7919 + 8)
    maxlen = 3 if ctx.tier == "quick" else 4
    small = [""]
    for n in range(1, maxlen + 1):
        small += ["".join(t) for t in itertools.product(ALPHABET, repeat=n)]
    ext = ALPHABET + EXTRA
    short = ["".join(t) for n in (1, 2) for t in itertools.product(ext, repeat=n)]
    short += ["a" + e + "b" for e in ext] + ["A" + e + "B" for e in ext] + ["aB" + e for e in ext] + [e + "Ab" for e in ext]
    kws = keyword_variants() + SPECIAL
    n_rand = 600 if ctx.tier == "quick" else 12000
    rand = [rand_string(rnd) for _ in range(n_rand)]
    return small, short, kws, rand


# names whose snake identifier is `extra` / near misses (controls)
EXTRA_HITS = ["extra", "Extra", "EXTRA", "-extra", "-Extra", "extra'", "_extra", "extra ", "Extra-", "eXtra"]
EXTRA_MISSES = ["extras", "extra_", "xtra", "e_x_t_r_a", "extra1", "Extr", "ex-tra"]
BEFORE_EXTRA = ["a", "b", "Alpha", "b0", "delta", "e", "ext", "extr", "0", "_", "E"]
AFTER_EXTRA = ["name", "id", "zeta", "f", "extrb", "extra0", "extraa", "x", "type", "~", "\u00e9"]
COLLIDING_PAIRS = [("foo-bar", "foo_bar"), ("a-b", "a_b"), ("a'", "a"), ("self", "self_"), ("1", "x1"), ("", "x"),
                   ("fooBar", "foo_bar"), ("FOO", "foo"), ("a b", "a-b"), ("type", "type_"), ("\u00c9t\u00e9", "\u00e9t\u00e9"),
                   ("m-n", "m_n"), ("zz'", "zz"), ("A1", "a1")]
FILLERS = ["", "0", "A", "Z", "a", "a0", "a_", "aa", "f", "foo", "foo0", "foo_", "fooz", "m", "m0", "s", "t", "x", "x0",
           "y", "z", "zz0", "zzz", "~", "_", "-", "\u00e9", "\u4e2d"]


def position_cases(rnd, tier):
    """(kind, names, additionalProperties|None): colliding names at every relative position of lists of 2-5
    properties.  struct_members sorts by IDENTIFIER (stable, starting from the BTreeMap order of the JSON names)
    and pushes the flattened `extra` field after the sort."""
    out = []
    n_each = 4 if tier == "quick" else 16
    for h in EXTRA_HITS + EXTRA_MISSES:
        for nb, na in [(0, 1), (1, 1), (0, 2), (2, 1), (1, 2), (2, 2), (1, 0), (2, 0), (3, 0), (0, 3), (3, 1), (1, 3)]:
            for _ in range(1 if tier == "quick" else 3):
                others = rnd.sample(BEFORE_EXTRA, nb) + rnd.sample(AFTER_EXTRA, na)
                names = dedupe([h] + others)
                rnd.shuffle(names)
                out.append(("propsx", names, rnd.choice([{"type": "integer"}, {"type": "string"}, {}])))
    # two hits together and a hit with a colliding pair
    out.append(("propsx", ["extra", "Extra", "name"], {"type": "integer"}))
    out.append(("propsx", ["extra", "foo-bar", "foo_bar", "zeta"], {"type": "integer"}))
    out.append(("propsx", ["foo-bar", "foo_bar", "zeta"], {"type": "integer"}))
    for a, b in COLLIDING_PAIRS:
        derived = [a + "0", b + "0", a + "z", "0" + a, a[:-1], b[:-1], a + "_", b + "-"]
        pool = dedupe([f for f in FILLERS + derived if f not in (a, b)])
        for k in (1, 2, 3):
            for _ in range(n_each):
                names = dedupe([a, b] + rnd.sample(pool, k))
                rnd.shuffle(names)
                out.append(("props", names, None))
                if rnd.random() < 0.3:
                    out.append(("propsx", names, {"type": "integer"}))
                out.append(("enum", names, None))
                out.append(("defs", names, None))
    return out


def dedupe(xs):
    seen = set()
    out = []
    for x in xs:
        if x not in seen:
            seen.add(x)
            out.append(x)
    return out


# --------------------------------------------------------------------------
# model evaluation with per-shard class tables
# --------------------------------------------------------------------------

HEADER = ("From Typify Require Import Algo.Heck Algo.Sanitize.\n"
          "From Coq Require Import NArith List.\nImport ListNotations.\n")


def table_header(rows, chars):
    need = set(chars) | set(FIXED_CHARS)
    for c in list(need):
        r = rows[ord(c)]
        need |= {chr(x) for x in r[2]} | {chr(x) for x in r[3]}
    ent = []
    for c in sorted(need):
        r = rows[ord(c)]
        ent.append("(%d,(%d,[%s],[%s]))" % (r[0], r[1], ";".join(map(str, r[2])), ";".join(map(str, r[3]))))
    return HEADER + "Definition tbl : ctable := [%s]%%N.\nDefinition cls := table_classes tbl.\n" % ";".join(ent)


def eval_shards(tag, shards, timeout=1200):
    """shards: list of (header, [expr]); returns flat list of result strings."""
    from concurrent.futures import ThreadPoolExecutor
    d = os.path.join(vlib.WORK, "cases", tag)
    os.makedirs(d, exist_ok=True)
    for f in os.listdir(d):
        os.unlink(os.path.join(d, f))
    paths = []
    for k, (hdr, exprs) in enumerate(shards):
        p = os.path.join(d, "cases_%d.v" % k)
        with open(p, "w") as f:
            f.write(hdr + "\nFrom Coq Require Import String List.\nImport ListNotations.\n")
            f.write("Definition vnl : string := String (Ascii.ascii_of_nat 10) EmptyString.\n")
            f.write("Definition vcases : list string := [\n")
            f.write(";\n".join("  (%s)" % e for e in exprs))
            f.write("\n]%list.\nSet Printing Width 1000000.\nSet Printing Depth 1000000.\n")
            f.write("Eval vm_compute in (String.concat vnl vcases).\n")
        paths.append(p)

    def one(p):
        rc, out, err = vlib.coqc_file(p, timeout)
        if rc != 0:
            raise RuntimeError("coqc failed on %s:\n%s" % (p, (out + err)[-3000:]))
        m = re.search(r'= "(.*)"(?:%string)?\s*\n\s*: string', out, re.S)
        if not m:
            raise RuntimeError("cannot parse coqc output of %s: %s" % (p, out[-2000:]))
        return m.group(1).replace('""', '"').split("\n")

    results = []
    with ThreadPoolExecutor(max_workers=vlib.NCPU) as ex:
        for k, r in enumerate(ex.map(one, paths)):
            if len(r) != len(shards[k][1]):
                raise RuntimeError("shard %d: %d results for %d cases" % (k, len(r), len(shards[k][1])))
            results.extend(r)
    return results


def shard_by_table(rows, items, chars_of, expr_of, size, shared=False, weight=2500):
    """Split items into shards (at most `size` items and `weight` input scalars each: Coq's printer of the
    result string is not tail recursive), each with the class table of its own characters."""
    parts = []
    cur, w = [], 0
    for it in items:
        n = len(chars_of(it)) + 2
        if cur and (len(cur) >= size or w + n > weight):
            parts.append(cur)
            cur, w = [], 0
        cur.append(it)
        w += n
    if cur:
        parts.append(cur)
    shards = []
    if shared:
        allc = set()
        for it in items:
            allc |= set(chars_of(it))
        hdr = table_header(rows, allc)
    for part in parts:
        if not shared:
            cs = set()
            for it in part:
                cs |= set(chars_of(it))
            hdr = table_header(rows, cs)
        shards.append((hdr, [expr_of(it) for it in part]))
    return shards


# --------------------------------------------------------------------------
# pipeline cases (vh gen)
# --------------------------------------------------------------------------

# struct-member states: required, optional (Option + default + skip_serializing_if), explicit default
# (serde default = "fn"), optional array / map (intrinsic default), integer with default, nullable
MEMBER_STATES = [
    ({"type": "string"}, True), ({"type": "string"}, False), ({"type": "string", "default": "d"}, False),
    ({"type": "array", "items": {"type": "string"}}, False),
    ({"type": "object", "additionalProperties": {"type": "string"}}, False),
    ({"type": "integer", "default": 5}, False), ({"type": ["string", "null"]}, True), ({"type": "boolean"}, True),
]


def props_case(names, extra_schema=None, states=None):
    if states is None:
        doc = {"title": "T", "type": "object", "properties": {n: {"type": "string"} for n in names},
               "required": list(names)}
    else:
        doc = {"title": "T", "type": "object",
               "properties": {n: MEMBER_STATES[st % len(MEMBER_STATES)][0] for n, st in zip(names, states)},
               "required": [n for n, st in zip(names, states) if MEMBER_STATES[st % len(MEMBER_STATES)][1]]}
    if extra_schema is not None:
        doc["additionalProperties"] = extra_schema
    return {"settings": {}, "steps": [{"op": "root", "doc": doc}], "code": False}


def enum_case(values):
    return {"settings": {}, "steps": [{"op": "root", "doc": {"title": "T", "type": "string", "enum": list(values)}}],
            "code": False}


def defs_case(names, replace=None):
    defs = {n: {"type": "object", "properties": {"a": {"type": "string"}}, "required": ["a"]} for n in names}
    st = {}
    if replace:
        st["replace"] = {k: {"type": "String", "impls": []} for k in replace}
        defs["UserOfDefs"] = {"type": "object", "required": ["f%d" % i for i in range(len(names))],
                              "properties": {"f%d" % i: {"$ref": "#/definitions/" + n} for i, n in enumerate(names)}}
    return {"settings": st, "steps": [{"op": "refs", "defs": defs}], "code": False}


def batch_case(spec):
    """all definition-level name sources of one call: spec = {title|None, defs, patch{type name: rename},
    inline{def: property with an inline object schema}}"""
    d = {}
    for n in spec["defs"]:
        props = {"a": {"type": "string"}}
        if n in spec.get("inline", {}):
            props[spec["inline"][n]] = {"type": "object", "properties": {"q": {"type": "string"}}, "required": ["q"]}
        d[n] = {"type": "object", "properties": props, "required": list(props)}
    st = {}
    if spec.get("patch"):
        st["patch"] = {k: {"rename": v} for k, v in spec["patch"].items()}
    if spec.get("title") is None:
        steps = [{"op": "refs", "defs": d}]
    else:
        steps = [{"op": "root", "doc": {"title": spec["title"], "type": "object", "properties": {"p": {"type": "string"}},
                                        "required": ["p"], "definitions": d}}]
    return {"settings": st, "steps": steps, "code": False}


def spec_strings(spec):
    out = list(spec["defs"]) + ([spec["title"]] if spec.get("title") is not None else [])
    for k, v in spec.get("patch", {}).items():
        out += [k, v]
    out += list(spec.get("inline", {}).values())
    return out


def names_chars(names):
    if isinstance(names, dict) and "variants" in names:
        return "".join(n for n, _ in names["variants"]) + "".join(names.get("inner", []))
    return "".join(spec_strings(names)) if isinstance(names, dict) else "".join(names)


TITLE_KEY_PAIRS = [("my type", "my-type"), ("T", "T"), ("Foo", "foo"), ("foo", "Foo"), ("foo bar", "foo_bar"), ("fooBar", "foo-bar"),
                   ("1a", "x1a"), ("1a", "X1a"), ("", "x"), ("", "X"), ("-", ""), ("\u00e9t\u00e9", "\u00c9t\u00e9"),
                   ("stra\u00dfe", "Strasse"), ("self", "Self"), ("Self", "self_"), ("type", "Type"), ("a'b", "ab"),
                   ("XMLHttp", "xml_http"), ("\u4e2d\u6587", "\u4e2d-\u6587"), ("my type", "MyType"), ("3d", "x3d")]


def source_cases(rnd, tier, small, short, rand):
    """root title vs definition key (same string; different strings with equal sanitised form; controls),
    root title / definition key vs derived inline type name, groups of keys with a title"""
    out = []
    for t, k in TITLE_KEY_PAIRS:
        out.append({"title": t, "defs": [k]})
        out.append({"title": t, "defs": dedupe([k, "other", "zz top"])})
        out.append({"title": t + " other", "defs": [k]})          # control: no collision
        out.append({"title": None, "defs": dedupe([t, k])})       # key vs key
    base = dedupe(SPECIAL + rnd.sample(KEYWORDS, 15) + rnd.sample(small, 60 if tier == "quick" else 400)
                  + rnd.sample(short, 30 if tier == "quick" else 200) + rnd.sample(rand, min(len(rand), 20 if tier == "quick" else 150)))
    for t in base:
        out.append({"title": t, "defs": [t]})
        ps = partner_strings(t, rnd)
        for k in rnd.sample(ps, min(len(ps), 5 if tier == "quick" else 10)):
            out.append({"title": t, "defs": [k]})
            if rnd.random() < 0.3:
                out.append({"title": k, "defs": dedupe([t] + rnd.sample(base, 2))})
        out.append({"title": t, "defs": dedupe(rnd.sample(base, rnd.randrange(1, 4)))})
    # derived inline type names <Parent><Property> (model: created_names / add_batch_full)
    for parent, prop, other in [("Foo", "bar", "foo bar"), ("Foo", "bar", "FooBar"), ("foo", "bar-baz", "foo_bar_baz"),
                                ("my-def", "x", "MyDefX"), ("A", "b", "ab"), ("Zoo", "bar", "zoo bar"), ("1", "2", "x1_2"),
                                ("\u00e9", "t\u00e9", "\u00c9T\u00e9"), ("self", "Self", "self self"), ("XMLHttp", "requestID", "xml http request id")]:
        out.append({"title": other, "defs": [parent], "inline": {parent: prop}})                          # title vs derived
        out.append({"title": None, "defs": dedupe([parent, other]), "inline": {parent: prop}})           # key vs derived
        out.append({"title": "Root", "defs": dedupe([parent, other, "zz"]), "inline": {parent: prop}})
        out.append({"title": other + " q", "defs": [parent], "inline": {parent: prop}})                   # control
        out.append({"title": None, "defs": dedupe([parent, "mid", other + "9"]), "inline": {parent: prop}})  # control
    # the named definition is converted FIRST: assign_type reuses its id for the inline type (no duplicate item)
    out.append({"title": None, "defs": ["ZooBar", "zoo"], "inline": {"zoo": "bar"}})
    out.append({"title": None, "defs": ["FOO_BAR", "foo"], "inline": {"foo": "bar"}})
    # two definitions deriving the same inline name (second one reuses the first)
    out.append({"title": None, "defs": ["Foo", "foo-"], "inline": {"Foo": "bar", "foo-": "bar"}})
    out.append({"title": "T", "defs": ["a b", "a"], "inline": {"a b": "c", "a": "b c"}})
    return out


SHAPES = ["unit", "null", "newtype", "struct", "tuple1", "tuple2", "tuple3"]
VARIANT_NAMES = ["point-1d", "Point1d", "a", "A", "foo bar", "FooBar", "foo_bar", "self", "Self", "type", "1st", "+1", "-1",
                 "async", "", "x", "$ref", "a'b", "\u00e9t\u00e9", "\u00c9t\u00e9", "stra\u00dfe", "\u03a3\u03a3", "\u4e2d\u6587",
                 "XMLHttp", "FIELD_NAME11", "kebab-case", "snake_case", "camelCase", "with space", "dotted.name", "slash/name",
                 "UPPER", "lower", "Mixed_Case-x", "9", "_", "__a", "a__", "r#type", "'static"]
INNER_PROPS = ["f-g", "h", "Self", "type", "x y", "camelCase", "\u00e9"]


def shape_payload(shape, inner):
    if shape == "null":
        return {"type": "null"}
    if shape == "newtype":
        return {"type": "string"}
    if shape == "struct":
        return {"type": "object", "properties": {n: {"type": "string"} for n in inner}, "required": list(inner)}
    n = int(shape[-1])
    return {"type": "array", "items": [{"type": "integer"}] * n, "minItems": n, "maxItems": n}


def enumx_case(spec):
    """an enum whose variants have the given (JSON name, shape) under the given tagging"""
    tg = spec["tagging"]
    inner = spec.get("inner", ["f-g"])
    br = []
    units = [n for n, sh in spec["variants"] if sh == "unit"]
    if tg == "external":
        if units:
            br.append({"type": "string", "enum": units})
        for n, sh in spec["variants"]:
            if sh != "unit":
                br.append({"type": "object", "properties": {n: shape_payload(sh, inner)}, "required": [n],
                           "additionalProperties": False})
    elif tg == "adjacent":
        for n, sh in spec["variants"]:
            pr = {"tag": {"type": "string", "enum": [n]}}
            if sh != "unit":
                pr["content"] = shape_payload(sh, inner)
            br.append({"type": "object", "properties": pr, "required": list(pr), "additionalProperties": False})
    else:  # internal: unit and struct shapes only
        for n, sh in spec["variants"]:
            pr = {"tag": {"type": "string", "enum": [n]}}
            if sh == "struct":
                pr.update({m: {"type": "string"} for m in inner})
            br.append({"type": "object", "properties": pr, "required": list(pr)})
    return {"settings": {}, "steps": [{"op": "root", "doc": {"title": "T", "oneOf": br}}], "code": False}


def enumx_order(spec):
    """variant order of the generated enum: for external tagging the string-enum branch (units) comes first"""
    if spec["tagging"] == "external":
        return [v for v in spec["variants"] if v[1] == "unit"] + [v for v in spec["variants"] if v[1] != "unit"]
    return list(spec["variants"])


def shape_cases(rnd, tier):
    out = []
    for tg in ("external", "adjacent", "internal"):
        shapes = SHAPES if tg != "internal" else ["unit", "struct"]
        for sh in shapes:
            for n in VARIANT_NAMES:
                fill = [["zz-filler", "unit"], ["yy filler", "newtype" if tg != "internal" else "struct"]]
                vs = [[n, sh]] + fill
                rnd.shuffle(vs)
                out.append({"tagging": tg, "variants": vs, "inner": rnd.sample(INNER_PROPS, rnd.randrange(1, 4))})
        # every shape at once, names needing and not needing a rename
        for _ in range(10 if tier == "quick" else 60):
            ns = rnd.sample(VARIANT_NAMES, len(shapes) + 1)
            vs = [[n, sh] for n, sh in zip(ns, shapes + [rnd.choice(shapes)])]
            rnd.shuffle(vs)
            out.append({"tagging": tg, "variants": vs, "inner": rnd.sample(INNER_PROPS, rnd.randrange(1, 4))})
    return out


def check_enumx(pipe, spec, case, res):
    """per variant of that exact shape: serde(rename) present iff identifier != JSON name, and equal to it"""
    pipe.stats["enumx"] = pipe.stats.get("enumx", 0) + 1
    st = res.get("steps", [{}])[0]
    items = pipe.common("enumx", spec, case, res)
    if items is None:
        return "panic" if st.get("r") == "panic" else "err"
    t = [i for i in items if i["name"] == "T" and i["kind"] == "enum"]
    if len(t) != 1:
        pipe.bad("enum T missing", case, res, items=[i["name"] for i in items])
        return None
    attrs = sorted(a[0] for a in t[0]["serde"])
    want = {"external": [], "adjacent": ["content", "tag"], "internal": ["tag"]}[spec["tagging"]]
    if attrs != want:
        # e.g. an internally tagged spec whose struct variants have one common member is read as adjacent tagging;
        # the variant names still come from the tag values, so the rename obligation applies unchanged
        pipe.stats["enumx_other_tagging"] = pipe.stats.get("enumx_other_tagging", 0) + 1
        if "untagged" in attrs:
            return "n/a"
    order = enumx_order(spec)
    vs = t[0]["variants"]
    pipe.stats["variants_checked"] += len(vs)
    idents = [v["name"] for v in vs]
    if len(set(idents)) != len(idents):
        pipe.bad("duplicate variant identifiers", case, res, idents=idents)
    wires = [(serde_rename(v["serde"]) if serde_rename(v["serde"]) is not None else v["name"]) for v in vs]
    if wires != [n for n, _ in order]:
        pipe.bad("variant wire names differ from the JSON names", case, res, wires=wires, names=[n for n, _ in order],
                 shapes=[sh for _, sh in order])
    for v, (n, sh) in zip(vs, order):
        if serde_rename(v["serde"]) == v["name"]:
            pipe.bad("rename emitted although identifier equals the JSON name", case, res, variant=v["name"], shape=sh)
        k = v["fields"]["k"]
        nf = len(v["fields"].get("fields", []))
        exp = {"unit": ("unit", 0), "null": ("unit", 0), "newtype": ("tuple", 1), "struct": ("named", None),
               "tuple1": ("tuple", 1), "tuple2": ("tuple", 2), "tuple3": ("tuple", 3)}[sh]
        if k != exp[0] or (exp[1] is not None and nf != exp[1]) or \
                (sh == "tuple1" and not v["fields"]["fields"][0]["ty"].startswith("(")):
            pipe.stats["enumx_shape_differs"] = pipe.stats.get("enumx_shape_differs", 0) + 1
        key = "shape:%s/%s/%s" % (spec["tagging"], sh, "rename" if v["name"] != n else "plain")
        pipe.stats[key] = pipe.stats.get(key, 0) + 1
        if k == "named":
            fs = v["fields"]["fields"]
            fw = sorted((serde_rename(f["serde"]) if serde_rename(f["serde"]) is not None else f["name"]) for f in fs)
            if fw != sorted(spec.get("inner", ["f-g"])):
                pipe.bad("wire names of the fields of a struct variant differ from the JSON names", case, res, wires=fw,
                         names=sorted(spec.get("inner", ["f-g"])))
            for f in fs:
                if serde_rename(f["serde"]) == f["name"]:
                    pipe.bad("rename emitted although identifier equals the JSON name", case, res, field=f["name"])
    return [(v["name"], serde_rename(v["serde"])) for v in vs]


def top_items(res):
    return [i for i in res["render"]["scan"]["items"] if i["mod"] == "" and i["kind"] in ("struct", "enum")]


def serde_rename(attrs):
    r = [a[1] for a in attrs if a[0] == "rename" and len(a) > 1]
    return r[0] if r else None


def partner_strings(s, rnd):
    """strings likely to collide with s after sanitisation"""
    out = []
    if s:
        out += [s.upper(), s.lower(), s.capitalize(), s.swapcase()]
        out += [s.replace("-", "_"), s.replace("_", "-"), s.replace(" ", "_"), s.replace("_", " "), s.replace("_", ""),
                s.replace("-", ""), s.replace("'", "")]
        out += [s + "'", "'" + s, s + "_", "_" + s, s + "-", "-" + s, "x" + s, "X" + s, s + "$", s + " ", "$" + s]
        i = rnd.randrange(len(s))
        out += [s[:i] + "_" + s[i:], s[:i] + "-" + s[i:], s[:i] + "'" + s[i:], s[:i] + s[i].swapcase() + s[i + 1:]]
    else:
        out += ["x", "X", "_", "-", "'", " ", "$"]
    return [p for p in dedupe(out) if p != s]


class Pipe:
    """direct evaluation of the property on the real pipeline"""

    def __init__(self, ctx, san):
        self.ctx = ctx
        self.san = san  # name -> (snake ident, pascal ident) from the implementation
        self.viol = []
        self.known = {}
        self.stats = {"props": 0, "enum": 0, "defs": 0, "rejected": 0, "dup_fields": 0, "dup_items": 0,
                      "variants_failed": 0, "fields_checked": 0, "variants_checked": 0, "items_checked": 0}

    def bad(self, kind, case, res, **kw):
        v = {"kind": kind, "input": case, "observed": kw}
        if "render" in res:
            v["render_r"] = res["render"].get("r")
        self.viol.append(v)

    def finding(self, fid, case):
        self.known.setdefault(fid, case)

    def common(self, kind, names, case, res):
        """returns the item list or None when generation failed (allowed by the property)"""
        st = res.get("steps", [{}])[0]
        if st.get("r") != "ok":
            self.stats["rejected"] += 1
            return None
        rr = res.get("render", {})
        if rr.get("r") != "ok":
            self.bad("generated code does not parse (invalid identifier?)", case, res, msg=rr.get("msg"), names=names)
            return None
        return top_items(res)

    def check_props(self, names, case, res, has_extra=False):
        self.stats["props"] += 1
        st = res.get("steps", [{}])[0]
        items = self.common("props", names, case, res)
        if items is None:
            if st.get("r") in ("err", "panic"):
                self.stats["props_rejected"] = self.stats.get("props_rejected", 0) + 1
                return st.get("r")
            return None
        t = [i for i in items if i["name"] == "T" and i["kind"] == "struct"]
        if len(t) != 1 or t[0]["fields"]["k"] != "named":
            self.bad("struct T missing", case, res, items=[i["name"] for i in items])
            return None
        fields = t[0]["fields"]["fields"]
        flat = [f for f in fields if ["flatten"] in f["serde"]]
        self.last_flat = [f["name"] for f in flat]
        plain = [f for f in fields if ["flatten"] not in f["serde"]]
        self.stats["fields_checked"] += len(plain)
        idents = [f["name"] for f in fields]
        # wire names: ident + rename denote exactly the original names
        wires = sorted((serde_rename(f["serde"]) if serde_rename(f["serde"]) is not None else f["name"]) for f in plain)
        if wires != sorted(names):
            self.bad("wire names differ from the JSON names", case, res, wires=wires, names=sorted(names))
        for f in plain:
            if serde_rename(f["serde"]) == f["name"]:
                self.bad("rename emitted although identifier equals the JSON name", case, res, field=f["name"])
        # distinct within the struct (C08-F1 / C08-F3 are fixed by 5896b59: duplicates are a violation again)
        dups = sorted({i for i in idents if idents.count(i) > 1})
        if dups:
            self.stats["dup_fields"] += 1
            self.bad("duplicate field identifiers in one struct", case, res, fields=dups, idents=idents)
        self.nfc(idents, names, "fields")
        return [(f["name"], serde_rename(f["serde"])) for f in plain]

    def nfc(self, idents, names, what):
        """rustc compares identifiers after NFC normalisation (RFC 2457)"""
        n = [unicodedata.normalize("NFC", i) for i in idents]
        if len(set(n)) != len(set(idents)):
            self.finding("C08-F4", {"names": names, "identifiers": idents, "scope": what})

    def check_enum(self, values, case, res):
        self.stats["enum"] += 1
        st = res.get("steps", [{}])[0]
        if st.get("r") != "ok":
            self.stats["variants_failed"] += 1
        items = self.common("enum", values, case, res)
        if items is None:
            return "panic" if st.get("r") == "panic" else "err"
        t = [i for i in items if i["name"] == "T" and i["kind"] == "enum"]
        if len(t) != 1:
            self.bad("enum T missing", case, res, items=[i["name"] for i in items])
            return None
        vs = t[0]["variants"]
        self.stats["variants_checked"] += len(vs)
        idents = [v["name"] for v in vs]
        if len(set(idents)) != len(idents):
            self.bad("duplicate variant identifiers", case, res, idents=idents)
        self.nfc(idents, values, "variants")
        wires = [(serde_rename(v["serde"]) if serde_rename(v["serde"]) is not None else v["name"]) for v in vs]
        if wires != list(values):
            self.bad("variant wire names differ from the enum values", case, res, wires=wires, values=list(values))
        for v in vs:
            if serde_rename(v["serde"]) == v["name"]:
                self.bad("rename emitted although identifier equals the enum value", case, res, variant=v["name"])
        return [(v["name"], serde_rename(v["serde"])) for v in vs]

    def check_defs(self, names, case, res):
        self.stats["defs"] += 1
        st = res.get("steps", [{}])[0]
        items = self.common("defs", names, case, res)
        if items is None:
            if st.get("r") in ("err", "panic"):
                self.stats["defs_rejected"] = self.stats.get("defs_rejected", 0) + 1
                return st.get("r")
            return None
        idents = [i["name"] for i in items]
        self.stats["items_checked"] += len(idents)
        if len(idents) != len(names):
            self.bad("number of items differs from the number of definitions", case, res, idents=idents)
        # distinct within the module (C08-F2 is fixed by c22ef06: duplicates are a violation again)
        dups = sorted({i for i in idents if idents.count(i) > 1})
        if dups:
            self.stats["dup_items"] += 1
            self.bad("duplicate item names in the module", case, res, items=dups, idents=idents)
        self.nfc(idents, names, "items")
        return sorted(idents)


def check_batch(pipe, spec, case, res):
    """the rendered module never defines one identifier twice, or the call fails"""
    pipe.stats["batch"] = pipe.stats.get("batch", 0) + 1
    st = res.get("steps", [{}])[0]
    items = pipe.common("batch", spec, case, res)
    if items is None:
        if st.get("r") in ("err", "panic"):
            pipe.stats["batch_rejected"] = pipe.stats.get("batch_rejected", 0) + 1
            return st.get("r")
        return None
    idents = [i["name"] for i in items]
    pipe.stats["items_checked"] += len(idents)
    want = len(spec["defs"]) + (1 if spec.get("title") is not None else 0) + len(spec.get("inline", {}))
    dups = sorted({i for i in idents if idents.count(i) > 1})
    if dups:
        # C08-F2 / C08-F5 are fixed (c22ef06, 40183ea): any duplicate item is a violation again
        pipe.stats["dup_items"] += 1
        pipe.bad("duplicate item names in the module", case, res, items=dups, idents=idents)
    elif len(idents) != want and not spec.get("inline"):
        pipe.bad("number of items differs from the number of name sources", case, res, idents=idents, expected=want)
    pipe.nfc(idents, spec_strings(spec), "items")
    return sorted(idents)


def fmt_pairs(pairs):
    return ",".join("%s/%s" % (show(cps(i)), "-" if r is None else "+" + show(cps(r))) for i, r in pairs)


# --------------------------------------------------------------------------

def run(ctx):
    ctx.level = "proof"
    ctx.trusted = [
        "Coq 8.16.1 kernel + vm_compute (no native_compute); Print Assumptions: closed under the global context",
        "hand-written model Algo/Heck.v (heck 0.5.0 transform/lowercase/capitalize) and Algo/Sanitize.v "
        "(util.rs sanitize/recase/unique, type_entry.rs from_metadata naming), tied by the correspondence runs below",
        "syn::parse_str::<Ident> modelled as: lexical identifier (proc-macro2 fallback lexer) and not in syn's "
        "accept_as_ident list; compared with the real syn on every sanitised output and on every all-XID_Continue input",
        "character classes are Section variables; hypotheses ClassesOK audited exhaustively (1,112,064 scalars) "
        "against Rust 1.80.1 std, unicode-ident 1.0.18, heck 0.5.0 on every run",
        "serde_derive binds a field/variant to its `rename` string when present, else to the identifier text "
        "(definition of wire_name)",
        "rustc's NFC normalisation of identifiers is not modelled (distinctness is of scalar sequences, as syn sees them)",
    ]
    ctx.assumptions = [
        "reading: a panic or Err while adding the schema counts as 'generation fails' (DESIGN 3.1)",
        "reading: 'valid Rust identifier' = accepted by syn::parse_str::<syn::Ident> (what typify itself tests), "
        "edition-2021 keyword list of syn 2.0.100 (`gen` is not in it)",
        "reading: scope = fields of one struct, variants of one enum, items of the generated module",
        "reading: rename is emitted exactly when the identifier differs from the JSON name",
    ]
    ctx.checker_cmd = ("make -f Makefile.coq theories/Props/C08.vo && coqc Audit_C08.v (Print Assumptions); "
                       "c08 audit; coqc work/cases/c08*/cases_*.v; vh gen")

    vlib.build_harness(bins=("vh", "c08"))
    coq_ok = vlib.standard_coq_obligations(ctx, "Props.C08", THEOREMS, ALLOWED_AXIOMS)
    mutate = os.environ.get("C08_MUTATE", "")

    # ---- (a) exhaustive audit of the class hypotheses + one-character direct evaluation
    aud = vlib.run_bin("c08", [{"op": "audit"}])[0]
    ctx.coverage["audit_scalars"] = aud.get("scalars")
    for h in aud.get("hyps", []):
        ok = h["ok"] and aud.get("scalars") == 1112064
        if mutate == "hyp" and h["name"] == "ok_case_closed":
            ok = False
        ctx.oblige("class hypothesis / exhaustive audit: %s (%d checks over all scalars)" % (h["name"], h["checked"]),
                   ok, json.dumps(h["counterexamples"]))
    ctx.evaluations += sum(h["checked"] for h in aud.get("hyps", []))
    kwv = vlib.run_bin("c08", [{"op": "keywords"}])[0]["verdicts"]
    ctx.log("audit done")

    # ---- strings
    small, short, kws, rand = gen_strings(ctx)
    corpus = []
    cdir = os.path.join(vlib.ROOT, "corpus", "C08")
    if os.path.isdir(cdir):
        for fn in sorted(os.listdir(cdir)):
            if fn.endswith(".json"):
                corpus.append(json.load(open(os.path.join(cdir, fn))))
    corpus_strings = [s for c in corpus for s in (spec_strings(c) if c["kind"] == "batch" else
                                                  list(names_chars(c)) if c["kind"] == "enumx" else c.get("names", []))]
    srccases = source_cases(random.Random(ctx.seed * 977 + 3), ctx.tier, small, short, rand)
    shpcases = shape_cases(random.Random(ctx.seed * 389 + 11), ctx.tier)
    src_strings = dedupe([n for sp in srccases for n in spec_strings(sp)] + ["Renamed9"] + VARIANT_NAMES + INNER_PROPS
                         + ["zz-filler", "yy filler", "f-g"])
    poscases = position_cases(random.Random(ctx.seed * 131 + 7), ctx.tier)
    corpus_strings = dedupe(corpus_strings + [n for _, names, _ in poscases for n in names])
    g_small = dedupe(corpus_strings + src_strings + kws + ["".join(chr(x) for x in k) for k, _ in kwv] + small + short)
    g_rand = dedupe(rand)
    rnd = random.Random(ctx.seed * 31 + 5)

    # pair partners (used by the pipeline section; they need the class table and impl sanitize as well)
    pair_base = dedupe(corpus_strings + SPECIAL + KEYWORDS + rnd.sample(small, min(len(small), 120 if ctx.tier == "quick" else 600))
                       + rnd.sample(short, min(len(short), 80 if ctx.tier == "quick" else 300))
                       + rnd.sample(g_rand, min(len(g_rand), 50 if ctx.tier == "quick" else 300)))
    pairs = []
    for s in pair_base:
        ps = partner_strings(s, rnd)
        for p in (ps if len(s) <= 3 or ctx.tier != "quick" else rnd.sample(ps, min(len(ps), 6))):
            pairs.append((s, p))
    partner_only = dedupe([p for _, p in pairs if p not in set(g_small) and p not in set(g_rand)])
    all_strings = g_small + g_rand + partner_only
    allchars = set(FIXED_CHARS)
    for s in all_strings:
        allchars |= set(s)
    rows_l = vlib.run_bin("c08", [{"op": "classes", "chars": sorted(ord(c) for c in allchars)}])[0]["rows"]
    rows = {r[0]: r for r in rows_l}
    for _ in range(6):   # close the table under case mapping (identifiers are used as patch names)
        missing = sorted({x for r in rows.values() for x in r[2] + r[3] if x not in rows})
        if not missing:
            break
        for r in vlib.run_bin("c08", [{"op": "classes", "chars": missing}])[0]["rows"]:
            rows[r[0]] = r
    ctx.coverage["class_table_rows"] = len(rows)

    # ---- implementation on all strings, both cases
    icases = [{"op": "sanitize", "s": cps(s), "pascal": p} for s in all_strings for p in (False, True)]
    ires = vlib.run_bin("c08", icases)
    impl = {}
    for c, r in zip(icases, ires):
        impl[("".join(chr(x) for x in c["s"]), c["pascal"])] = r
    san = {s: ("".join(chr(x) for x in impl[(s, False)]["ident"]), "".join(chr(x) for x in impl[(s, True)]["ident"]))
           for s in all_strings if impl[(s, False)]["r"] == "ok" and impl[(s, True)]["r"] == "ok"}

    ctx.log("implementation sanitize on %d strings done" % len(all_strings))
    if mutate == "drop-keyword-suffix":
        # emulates util.rs:764-768 returning `out` unconditionally
        for k in ("self", "type", "crate"):
            impl[(k, False)].update({"ident": cps(k), "rename": None, "syn_out": False})
    if mutate == "keep-apostrophe":
        # emulates util.rs:752 without `.replace("'", "")` (property still holds; only the tie breaks)
        impl[("a'b", False)].update({"ident": cps("a_b")})
        impl[("a'b", True)].update({"ident": cps("AB")})
    # direct: every sanitised output is accepted by syn, recase wire exact
    direct = []
    for (s, p), r in impl.items():
        if r["r"] != "ok":
            direct.append({"kind": "sanitize panicked", "s": cps(s), "pascal": p, "r": r})
            continue
        ident = "".join(chr(x) for x in r["ident"])
        if not r["syn_out"]:
            direct.append({"kind": "sanitize output rejected by syn::parse_str::<Ident>", "s": cps(s), "pascal": p,
                           "ident": r["ident"]})
        wire = ident if r["rename"] is None else "".join(chr(x) for x in r["rename"])
        if wire != s or ((r["rename"] is None) != (ident == s)) or not r["same"]:
            direct.append({"kind": "recase does not denote the original name exactly", "s": cps(s), "pascal": p,
                           "ident": r["ident"], "rename": r["rename"]})
    ctx.evaluations += len(impl)

    # ---- (b) correspondence: model vs implementation
    def xc_all(s):
        return all(rows[ord(c)][1] & 2 for c in s)

    def impl_str(s, p):
        r = impl[(s, p)]
        if r["r"] != "ok":
            return r["r"]
        return "%s|%s|%s" % (show(r["ident"]), "-" if r["rename"] is None else "+" + show(r["rename"]),
                             ("T" if r["syn_in"] else "F") if xc_all(s) else "?")

    items = [(s, p) for s in g_small for p in (False, True)]
    shards = shard_by_table(rows, items, lambda it: it[0],
                            lambda it: "run_sanitize cls %s %s" % (ustr(it[0]), "true" if it[1] else "false"),
                            600, shared=True)
    items_r = [(s, p) for s in g_rand + partner_only for p in (False, True)]
    shards_r = shard_by_table(rows, items_r, lambda it: it[0],
                              lambda it: "run_sanitize cls %s %s" % (ustr(it[0]), "true" if it[1] else "false"), 150)
    mism = []
    model_ok = True
    model = {}
    try:
        ok_m, out_m = vlib.coq_make(["theories/Algo/Sanitize.vo"])
        if not ok_m:
            raise RuntimeError(out_m[-2000:])
        mres = eval_shards("c08s", shards + shards_r)
        for (s, p), m in zip(items + items_r, mres):
            model[(s, p)] = m
            e = impl_str(s, p)
            mm = m if xc_all(s) else m[:-1] + "?"
            if e != mm:
                mism.append({"s": cps(s), "pascal": p, "impl": e, "model": mm})
    except Exception as e:  # noqa
        model_ok = False
        ctx.oblige("model Sanitize.v evaluates", False, str(e))
    ctx.log("model sanitize evaluated (%d shards)" % (len(shards) + len(shards_r)))
    n_corr = len(items) + len(items_r)
    ctx.oblige("correspondence K1: sanitize/recase/syn-acceptance (Coq model, per-run class table) = typify_impl::verif "
               "on %d (string, case) pairs: exhaustive <=%d over %d-letter alphabet, %d keyword/special forms, %d random"
               % (n_corr, 3 if ctx.tier == "quick" else 4, len(ALPHABET), len(kws), len(g_rand)),
               model_ok and not mism, json.dumps(mism[:5]))
    ctx.evaluations += n_corr
    ctx.coverage["correspondence_sanitize_cases"] = n_corr
    ctx.coverage["correspondence_sanitize_mismatches"] = len(mism)

    # syn keyword model: the rejected list vs syn on candidate keywords (subset of g_small, compared above),
    # plus every model keyword must be rejected by the real syn
    kw_bad = [k for k, ok in kwv if ok and "".join(chr(x) for x in k) in
              ("_ abstract as async await become box break const continue crate do dyn else enum extern false final fn "
               "for if impl in let loop macro match mod move mut override priv pub ref return Self self static struct "
               "super trait true try type typeof unsafe unsized use virtual where while yield").split()]
    ctx.oblige("syn rejects every keyword of the model's syn_rejected list", not kw_bad, json.dumps(kw_bad))

    # ---- (c) pipeline: names as property names, enum values, definition keys
    pipe = Pipe(ctx, san)
    n_single = 200 if ctx.tier == "quick" else 3000
    singles = dedupe(corpus_strings + SPECIAL + KEYWORDS + keyword_variants()[:(100 if ctx.tier == "quick" else 840)] + rnd.sample(small, min(len(small), n_single))
                     + rnd.sample(short, min(len(short), n_single // 2)) + rnd.sample(g_rand, min(len(g_rand), n_single // 2)))
    pcases = []   # (kind, names, case)
    for c in corpus:
        k = c["kind"]
        if k == "props" and c.get("additionalProperties") is not None:
            pcases.append(("propsx", c["names"], props_case(c["names"], c["additionalProperties"])))
        elif k == "props":
            pcases.append(("props", c["names"], props_case(c["names"])))
        elif k == "enum":
            pcases.append(("enum", c["names"], enum_case(c["names"])))
        elif k == "defs":
            pcases.append(("defs", c["names"], defs_case(c["names"])))
        elif k == "batch":
            pcases.append(("batch", c, batch_case(c)))
        elif k == "enumx":
            pcases.append(("enumx", c, enumx_case(c)))
    for s in singles:
        pcases.append(("props", [s], props_case([s])))
        pcases.append(("enum", [s], enum_case([s])))
        pcases.append(("defs", [s], defs_case([s])))
    for a, b in pairs:
        pcases.append(("props", [a, b], props_case([a, b])))
        pcases.append(("enum", [a, b], enum_case([a, b])))
        pcases.append(("defs", [a, b], defs_case([a, b])))
    # typed additionalProperties: the synthesised flattened field `extra`
    for s in EXTRA_FORMS + rnd.sample(singles, 60):
        pcases.append(("propsx", [s], props_case([s], {"type": "integer"})))
        pcases.append(("propsx", dedupe([s, "b"]), props_case(dedupe([s, "b"]), {"type": "string"})))
    # all definition-level name sources of one call: root title, definition keys, patch renames, derived names
    for sp in srccases:
        pcases.append(("batch", sp, batch_case(sp)))
    pj = [(a, b) for a, b in pairs if a in san and b in san]
    for a, b in rnd.sample(pj, min(len(pj), 150 if ctx.tier == "quick" else 1200)):
        if san[a][1] == san[b][1]:
            continue
        # key vs patch-renamed name (a is renamed to b's type name), control, and the same with a as the root title
        pcases.append(("batch", {"title": None, "defs": [a, b], "patch": {san[a][1]: san[b][1]}}, None))
        pcases.append(("batch", {"title": None, "defs": [a, b], "patch": {san[a][1]: "Renamed9"}}, None))
        pcases.append(("batch", {"title": a, "defs": [b], "patch": {san[a][1]: san[b][1]}}, None))
        pcases.append(("batch", {"title": a, "defs": [b], "patch": {san[b][1]: san[a][1]}}, None))
    pcases = [(k, n, (batch_case(n) if c is None else c)) for k, n, c in pcases]
    ctx.coverage["name_source_cases"] = len([1 for k, _, _ in pcases if k == "batch"])
    # colliding names at every relative position (sorted by identifier; `extra` pushed after the sort)
    for kind, names, ap in poscases:
        if kind == "propsx":
            pcases.append(("propsx", names, props_case(names, ap)))
        elif kind == "props":
            pcases.append(("props", names, props_case(names)))
        elif kind == "enum":
            pcases.append(("enum", names, enum_case(names)))
        else:
            pcases.append(("defs", names, defs_case(names)))
    ctx.coverage["position_cases"] = len(poscases)
    # names needing a rename x every variant shape x tagging
    for sp in shpcases:
        pcases.append(("enumx", sp, enumx_case(sp)))
    for corp in corpus:
        pass
    # property names x every struct-member state
    st_names = dedupe(SPECIAL + KEYWORDS + rnd.sample(singles, min(len(singles), 60 if ctx.tier == "quick" else 400)))
    for i, n in enumerate(st_names):
        for stt in (range(len(MEMBER_STATES)) if i < 40 or ctx.tier != "quick" else [rnd.randrange(len(MEMBER_STATES))]):
            pcases.append(("props", [n], props_case([n], states=[stt])))
        grp = dedupe([n] + rnd.sample(st_names, 3))
        pcases.append(("props", grp, props_case(grp, states=[rnd.randrange(len(MEMBER_STATES)) for _ in grp])))
    ctx.coverage["shape_cases"] = len(shpcases)
    # triples and larger groups
    for _ in range(150 if ctx.tier == "quick" else 1500):
        grp = dedupe(rnd.sample(singles, rnd.randrange(3, 7)))
        pcases.append(("props", grp, props_case(grp)))
        pcases.append(("enum", grp, enum_case(grp)))
        pcases.append(("defs", grp, defs_case(grp)))
    pres = vlib.run_vh("gen", [c for _, _, c in pcases], timeout=3000)
    ctx.log("vh gen on %d schemas done" % len(pcases))
    if mutate:
        for (kind, names, case), res in zip(pcases, pres):
            try:
                its = top_items(res)
            except Exception:  # noqa
                its = []
            if mutate == "always-rename" and kind == "props":
                # emulates recase returning Some(input) unconditionally
                for it in its:
                    if it["name"] == "T" and it["kind"] == "struct":
                        for f, n in zip(sorted(it["fields"]["fields"], key=lambda f: f["name"]), sorted(names)):
                            if serde_rename(f["serde"]) is None:
                                f["serde"].append(["rename", f["name"]])
            if mutate == "adjacent-only-check" and kind == "propsx":
                # emulates `unique(names)` replaced by a scan of adjacent pairs of the list that is sorted by
                # identifier BEFORE the flattened `extra` is pushed: a property `extra` that is not the last
                # one in identifier order is no longer seen to collide
                ids = sorted(san[n][0] for n in names)
                if ids.count("extra") == 1 and len(set(ids)) == len(ids) and ids[-1] != "extra":
                    byid = sorted(names, key=lambda n: san[n][0])
                    res.clear()
                    res.update({"steps": [{"r": "ok", "id": 0}], "render": {"r": "ok", "scan": {"items": [
                        {"mod": "", "kind": "struct", "name": "T", "fields": {"k": "named", "fields": [
                            {"name": san[n][0], "serde": ([] if san[n][0] == n else [["rename", n]]), "ty": "String",
                             "vis": "pub"} for n in byid] + [
                            {"name": "extra", "serde": [["flatten"]], "ty": "HashMap", "vis": "pub"}]}}]}}})
            if mutate == "no-field-unique-check" and kind == "props" and names == ["foo-bar", "foo_bar"]:
                # emulates structs.rs:119-144 (fix 5896b59) removed: duplicate fields are emitted
                res.clear()
                res.update({"steps": [{"r": "ok", "id": 0}], "render": {"r": "ok", "scan": {"items": [
                    {"mod": "", "kind": "struct", "name": "T", "fields": {"k": "named", "fields": [
                        {"name": "foo_bar", "serde": [["rename", "foo-bar"]], "ty": "String", "vis": "pub"},
                        {"name": "foo_bar", "serde": [], "ty": "String", "vis": "pub"}]}}]}}})
            if mutate == "keys-only-check" and kind == "batch" and names.get("title") is not None \
                    and not names.get("inline") and all(n in san for n in spec_strings(names)):
                # emulates the batch_names check moved before conversion and computed from the definition KEYS
                # (sanitize -> Pascal, patch renames applied): the root, named from its title, drops out
                pt = names.get("patch", {})
                ids = [pt.get(san[d][1], san[d][1]) for d in names["defs"]]
                tid = pt.get(san[names["title"]][1], san[names["title"]][1])
                if len(set(ids)) == len(ids) and tid in ids:
                    res.clear()
                    res.update({"steps": [{"r": "ok", "id": 0}], "render": {"r": "ok", "scan": {"items": [
                        {"mod": "", "kind": "struct", "name": i, "fields": {"k": "named", "fields": [
                            {"name": "a", "serde": [], "ty": "String", "vis": "pub"}]}} for i in ids + [tid]]}}})
            if mutate == "tuple1-no-rename" and kind == "enumx":
                # emulates enums.rs output_variant: the one-element tuple branch emits only #doc (no serde rename)
                for it in its:
                    if it["name"] == "T" and it["kind"] == "enum":
                        for v in it["variants"]:
                            fl = v["fields"].get("fields", [])
                            if v["fields"]["k"] == "tuple" and len(fl) == 1 and fl[0]["ty"].startswith("("):
                                v["serde"] = [a for a in v["serde"] if a[0] != "rename"]
            if mutate == "no-created-check" and kind == "batch" and names.get("inline") == {"Foo": "bar"} \
                    and names.get("title") == "foo bar" and names["defs"] == ["Foo"]:
                # emulates the created_names check (fix 40183ea) removed: two items `FooBar` are emitted
                res.clear()
                res.update({"steps": [{"r": "ok", "id": 2}], "render": {"r": "ok", "scan": {"items": [
                    {"mod": "", "kind": "struct", "name": n, "fields": {"k": "named", "fields": [
                        {"name": f, "serde": [], "ty": "String", "vis": "pub"}]}}
                    for n, f in (("Foo", "bar"), ("FooBar", "p"), ("FooBar", "q"))]}}})
            if mutate == "no-def-unique-check" and kind == "defs" and names == ["foo", "Foo"]:
                # emulates lib.rs batch_names check (fix c22ef06) removed: two items `Foo` are emitted
                res.clear()
                res.update({"steps": [{"r": "ok", "id": None}], "render": {"r": "ok", "scan": {"items": [
                    {"mod": "", "kind": "struct", "name": "Foo", "fields": {"k": "named", "fields": []}},
                    {"mod": "", "kind": "struct", "name": "Foo", "fields": {"k": "named", "fields": []}}]}}})
            if mutate == "no-x-fallback" and kind == "enum" and names == ["a", "a_"]:
                # emulates type_entry.rs:258-268 removed: first-pass collision panics at once
                res.clear()
                res.update({"steps": [{"r": "panic", "msg": "Failed to make unique variant names for [a,a_]"}]})
            if mutate == "no-unique-check" and kind == "enum" and names == ["a", "A"]:
                # emulates type_entry.rs:272-287 removed: duplicates are emitted
                res.clear()
                res.update({"steps": [{"r": "ok", "id": 0}], "render": {"r": "ok", "scan": {"items": [
                    {"mod": "", "kind": "enum", "name": "T", "variants": [
                        {"name": "A", "serde": [["rename", "a"]], "fields": {"k": "unit"}},
                        {"name": "A", "serde": [], "fields": {"k": "unit"}}]}]}}})
    observed = []
    for (kind, names, case), res in zip(pcases, pres):
        if kind in ("props", "propsx"):
            o = pipe.check_props(names, case, res)
            if isinstance(o, list) and kind == "propsx":
                o = o + [("extra", "flatten")] if pipe.last_flat == ["extra"] else o + [("?", "flatten-missing")]
        elif kind == "enum":
            o = pipe.check_enum(names, case, res)
        elif kind == "batch":
            o = check_batch(pipe, names, case, res)
        elif kind == "enumx":
            o = check_enumx(pipe, names, case, res)
        else:
            o = pipe.check_defs(names, case, res)
        observed.append(o)
        ctx.nontrivial.add(kind + ":" + json.dumps(names, sort_keys=True))
    for c, o in zip(corpus, observed[:len(corpus)]):
        if c.get("expect") == "rejected" and o != "err":
            pipe.viol.append({"kind": "regression of a fixed finding: colliding names are no longer rejected at add time",
                              "input": c, "observed": o})
    ctx.evaluations += len(pcases)
    ctx.coverage["pipeline_cases"] = len(pcases)
    ctx.coverage["pipeline_stats"] = pipe.stats

    # model vs pipeline (variant algorithm incl. X fallback / panic; fields; definitions)
    pm = []
    pm_ok = True
    try:
        def expr(it):
            kind, names, _ = it
            if kind == "enumx":
                return "run_variants cls [%s]" % ";".join(ustr(n) for n, _ in enumx_order(names))
            if kind == "batch":
                # definitions are converted in BTreeMap (code point) order of their keys, the root last
                inl = names.get("inline", {})
                return "run_batch_full cls [%s] [%s] %s" % (
                    ";".join("(%s,%s)" % (ustr(k), ustr(v)) for k, v in sorted(names.get("patch", {}).items())),
                    ";".join("(%s,[%s])" % (ustr(n), ustr(inl[n]) if n in inl else "") for n in sorted(names["defs"])),
                    "None" if names.get("title") is None else "(Some (%s,[]))" % ustr(names["title"]))
            l = "[" + ";".join(ustr(n) for n in names) + "]"
            if kind in ("props", "propsx"):
                # BTreeMap order of the property names, then stable sort by identifier: compare as multisets
                return "run_fields cls %s %s" % (l, "true" if kind == "propsx" else "false")
            if kind == "enum":
                return "run_variants cls %s" % l
            return "run_defs cls %s" % l
        pshards = shard_by_table(rows, pcases, lambda it: names_chars(it[1]), expr, 200)
        pmres = eval_shards("c08p", pshards)
        for (kind, names, case), o, m, res in zip(pcases, observed, pmres, pres):
            if kind in ("props", "propsx"):
                if o is None:
                    e = "rejected"
                elif isinstance(o, str):
                    e = o
                else:
                    e = ",".join(sorted((show(cps(x[0])) + "/flatten") if x[1] in ("flatten", "flatten-missing")
                                        else fmt_pairs([x]) for x in o))
                mm = ",".join(sorted(m.split(","))) if m else ""
                if isinstance(o, str) and o == "err" and m == "err" and "multiple properties map to the same field name" \
                        not in res.get("steps", [{}])[0].get("msg", ""):
                    e = "err(other reason): " + str(res.get("steps"))
            elif kind == "batch":
                if o is None:
                    e = "rejected"
                elif isinstance(o, str):
                    e = o
                    if o == "err" and m == "err" and "map to the same type name" not in res.get("steps", [{}])[0].get("msg", ""):
                        e = "err(other reason): " + str(res.get("steps"))
                else:
                    e = ",".join(sorted(show(cps(i)) for i in o))
                mm = ",".join(sorted(m.split(","))) if m else ""
            elif kind in ("enum", "enumx"):
                if o == "n/a":
                    continue
                if o is None:
                    e = "rejected"
                elif isinstance(o, str):
                    e = o
                else:
                    e = "ok:" + fmt_pairs(o)
                mm = m
            else:
                if o is None:
                    e = "rejected"
                elif isinstance(o, str):
                    e = o
                    if o == "err" and m == "err" and "map to the same type name" not in res.get("steps", [{}])[0].get("msg", ""):
                        e = "err(other reason): " + str(res.get("steps"))
                else:
                    e = ",".join(sorted(show(cps(i)) for i in o))
                mm = ",".join(sorted(m.split(","))) if m else ""
            if e != mm:
                pm.append({"kind": kind, "names": (names if isinstance(names, dict) else [cps(n) for n in names]),
                           "impl": e, "model": mm})
    except Exception as e:  # noqa
        pm_ok = False
        ctx.oblige("model evaluates on pipeline cases", False, str(e))
    ctx.log("model on pipeline cases evaluated")
    ctx.oblige("correspondence K4: field / variant (X fallback, panic) / item identifiers and renames of the real pipeline "
               "= model on %d schemas" % len(pcases), pm_ok and not pm, json.dumps(pm[:5]))
    ctx.coverage["correspondence_pipeline_mismatches"] = len(pm)

    # replacement lookup key (lib.rs:650): key = sanitize(def, Pascal)
    rl = []
    rl_names = dedupe(["foo-bar", "foo_bar", "FooBar", "self", "1a", "", "a'b", "\u00e9t\u00e9"] + [x for x in rnd.sample(singles, 60) if not set(x) & set("/#%~")][:40])
    rcases = []
    for n in rl_names:
        key = san[n][1]
        rcases.append((n, key, True, defs_case([n], replace=[key])))
        if key != n:
            rcases.append((n, n, False, defs_case([n], replace=[n])))
    rres = vlib.run_vh("gen", [c for _, _, _, c in rcases])
    for (n, key, expect, case), res in zip(rcases, rres):
        if res.get("steps", [{}])[0].get("r") != "ok" or res.get("render", {}).get("r") != "ok":
            rl.append({"name": cps(n), "key": cps(key), "observed": res.get("steps")})
            continue
        u = [i for i in top_items(res) if i["name"] == "UserOfDefs"]
        applied = bool(u) and u[0]["fields"]["fields"][0]["ty"].replace(" ", "") == "String"
        gone = san[n][1] not in [i["name"] for i in top_items(res)]
        if applied != expect or (expect and not gone):
            rl.append({"name": cps(n), "key": cps(key), "applied": applied, "expected": expect})
    ctx.oblige("replacement lookup: a replacement keyed k applies to definition d iff k = sanitize(d, Pascal) "
               "(%d cases on the real pipeline)" % len(rcases), not rl, json.dumps(rl[:4]))
    ctx.evaluations += len(rcases)

    # ---- verdicts
    unlisted = list(direct) + list(pipe.viol)
    listed = {f["id"]: f for f in ctx.findings_for()}
    for fid, ex in sorted(pipe.known.items()):
        if fid in listed:
            ctx.known_finding(fid, "%s: %s (witness %s)" % (fid, listed[fid]["summary"], json.dumps(listed[fid]["witness"])))
        else:
            unlisted.append({"kind": "finding class %s not listed in findings/C08.json" % fid, "input": ex})
    for fid in listed:
        if fid not in pipe.known:
            ctx.oblige("listed finding %s still reproduces on its witness" % fid, False,
                       "stale finding: remove it from findings/C08.json and from the Coq exclusions")
    ctx.oblige("direct property evaluation on the real pipeline: no unlisted violation (%d schemas, %d strings x 2 cases)"
               % (len(pcases), len(all_strings)), not unlisted, json.dumps(unlisted[:3])[:3000])
    ctx.coverage["rule"] = ("strings: all over the 14-letter alphabet up to length %d; 1-2 letter strings over the extended "
                            "alphabet (+%d special-casing scalars) and aXb/AXB/aBX/XAb frames; %d keywords x 14 forms; "
                            "seeded random Unicode (length 4-24, 11 pools + uniform scalars); pipeline: each string alone "
                            "and in pairs with %d kinds of likely-colliding partners, random groups of 3-6; distinct = "
                            "distinct (kind, names) input" % (3 if ctx.tier == "quick" else 4, len(EXTRA), len(KEYWORDS), 23))
    ctx.coverage["strings"] = {"exhaustive_small": len(small), "extended_short": len(short), "keyword_forms": len(kws),
                               "random": len(g_rand), "pair_partners": len(partner_only), "pairs": len(pairs)}
    step = max(1, len(pcases) // 8)
    ctx.samples = [{"kind": pcases[i][0], "names": pcases[i][1], "observed": observed[i]} for i in range(0, len(pcases), step)]

    if unlisted:
        unlisted.sort(key=lambda v: len(json.dumps(v)))
        v = unlisted[0]
        v["broken_obligations"] = [o[0] for o in ctx.broken()]
        ctx.violation(v)
    elif ctx.broken():
        ctx.violation({"broken_obligations": [(o[0], o[2][:1500]) for o in ctx.broken()],
                       "note": "a theorem, a class hypothesis or a model/implementation correspondence no longer checks; "
                               "the direct search found no failing input"}, no_input=True)

    if ctx.tier == "thorough" and coq_ok:
        rc, out, err = vlib.sh("timeout 1500 coqchk -silent -o -Q theories Typify Typify.Props.C08", cwd=vlib.COQ,
                               timeout=1600)
        ctx.oblige("coqchk re-checks Props.C08 and dependencies", rc == 0, (out + err)[-1500:])
