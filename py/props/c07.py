"""C07 — recursive schemas produce finitely sized types.

Deciding method: Coq theorems over `Algo/Cycles.v` (line-by-line model of
`TypeSpace::break_cycles`, `get_child_ids`, `id_to_box`), tied to /repo on every
run by two correspondence channels

  K2  model vs. the REAL `break_cycles` on synthetic type spaces (hook
      `verif_break_cycles_graph`): exhaustive small multigraphs over all edge /
      node kinds + seeded random graphs; the FULL output is compared (every
      entry's kind and ordered child slots, the Box entries and their ids,
      next_id, the Box slice of `type_to_id`);
  K3  model vs. the real code on real schema histories: the snapshot taken
      right before each `break_cycles` call is fed to the model and the result
      compared with the state right after;

and by a direct evaluation of the property on the implementation with an
oracle written here (own DFS, independent of the model): no by-value cycle
reachable from the roots survives, nothing changes without a cycle, every
changed slot lay on a cycle and now points at a Box of its former target.

Env switches (testing only): C07_SKIP_COQ=1 skips the Props/C07 build+audit,
C07_EMULATE=unbox|extrabox|model-order|first-child-only|root-range emulates a mutation.
"""
import glob
import itertools
import json
import os
import random
import re
from concurrent.futures import ThreadPoolExecutor

import vlib

THEOREMS = [
    "C07_acyclic",
    "C07_fuel",
    "C07_recursive_finite",
    "C07_minimal",
    "C07_frame",
    "C07_acyclic_check_sound",
    "C07_wf_check_sound",
    "C07_closed_check_sound",
    "C07_children_eq_spec_partial",
    "C07_children_eq_spec_refuted",
    "C07_acyclic_spec",
    "C07_Known_2_fails",
    "C07_spec_acyclic_check_sound",
]
ALLOWED_AXIOMS = ()

EMULATE = os.environ.get("C07_EMULATE", "")
SKIP_COQ = os.environ.get("C07_SKIP_COQ", "") == "1"

HDR = ("From Typify Require Import Algo.Cycles.\n"
       "From Coq Require Import NArith List String. Import ListNotations. Open Scope N_scope.")

CORPUS = os.path.join(vlib.ROOT, "corpus", "C07")

# ---------------------------------------------------------------------------
# canonical nodes
#   ("S",ids) ("N",c) ("E",variants) ("O",c) ("A",c) ("T",ids) ("B",c) ("V",c)
#   ("H",c) ("M",k,v) ("X",params) ("L",);   variant = ("s",) | ("i",c) | ("t",ids) | ("p",ids)
#   "X" = native type with type parameters (x-rust-type): NO by-value slot for the code (get_child_ids: `_ => []`)
# ---------------------------------------------------------------------------


def slots(nd):
    """by-value child slots in order (= exactly the kinds get_child_ids lists)"""
    t = nd[0]
    if t == "S" or t == "T":
        return nd[1]
    if t == "N" or t == "O" or t == "A":
        return (nd[1],)
    if t == "E":
        out = []
        for v in nd[1]:
            if v[0] == "i":
                out.append(v[1])
            elif v[0] != "s":
                out.extend(v[1])
        return out
    return ()


def all_refs(nd):
    t = nd[0]
    if t in ("B", "V", "H"):
        return (nd[1],)
    if t == "M":
        return (nd[1], nd[2])
    return slots(nd)


def with_slots(nd, new):
    """same node with its by-value slots replaced (in order) by `new`"""
    t = nd[0]
    new = list(new)
    if t == "S" or t == "T":
        return (t, tuple(new))
    if t == "N" or t == "O" or t == "A":
        return (t, new[0])
    if t == "E":
        k = 0
        vs = []
        for v in nd[1]:
            if v[0] == "i":
                vs.append(("i", new[k]))
                k += 1
            elif v[0] == "s":
                vs.append(v)
            else:
                m = len(v[1])
                vs.append((v[0], tuple(new[k:k + m])))
                k += m
        return ("E", tuple(vs))
    return nd


def shape(nd):
    return with_slots(nd, [None] * len(slots(nd)))


def show_ids(ids):
    return ",".join(str(i) for i in ids)


def show_node(nd):
    t = nd[0]
    if t == "S" or t == "T" or t == "X":
        return "%s(%s)" % (t, show_ids(nd[1]))
    if t == "E":
        vs = []
        for v in nd[1]:
            if v[0] == "s":
                vs.append("s")
            elif v[0] == "i":
                vs.append("i:%d" % v[1])
            else:
                vs.append("%s:%s" % (v[0], show_ids(v[1])))
        return "E(%s)" % ";".join(vs)
    if t == "M":
        return "M(%d,%d)" % (nd[1], nd[2])
    if t == "L":
        return "L"
    return "%s(%d)" % (t, nd[1])


def show_graph(g):
    return " ".join("%d=%s" % (i, show_node(g[i])) for i in sorted(g))


def parse_ids(s):
    return tuple(int(x) for x in s.split(",")) if s else ()


def parse_node(s):
    if s == "L":
        return ("L",)
    t = s[0]
    body = s[2:-1]
    if t == "S" or t == "T" or t == "X":
        return (t, parse_ids(body))
    if t == "E":
        vs = []
        if body:
            for v in body.split(";"):
                if v == "s":
                    vs.append(("s",))
                elif v[0] == "i":
                    vs.append(("i", int(v[2:])))
                else:
                    vs.append((v[0], parse_ids(v[2:])))
        return ("E", tuple(vs))
    if t == "M":
        a, b = body.split(",")
        return ("M", int(a), int(b))
    return (t, int(body))


def coq_ids(ids):
    return "[" + ";".join(str(i) for i in ids) + "]"


def coq_node(nd, rev_struct=False):
    t = nd[0]
    if t == "S":
        ids = nd[1][::-1] if rev_struct else nd[1]
        return "NStruct " + coq_ids(ids)
    if t == "T":
        return "NTuple " + coq_ids(nd[1])
    if t == "X":
        return "NNative " + coq_ids(nd[1])
    if t == "E":
        vs = []
        for v in nd[1]:
            if v[0] == "s":
                vs.append("VSimple")
            elif v[0] == "i":
                vs.append("VItem %d" % v[1])
            elif v[0] == "t":
                vs.append("VTuple " + coq_ids(v[1]))
            else:
                vs.append("VStruct " + coq_ids(v[1]))
        return "NEnum [" + ";".join(vs) + "]"
    if t == "M":
        return "NMap %d %d" % (nd[1], nd[2])
    if t == "L":
        return "NLeaf"
    return {"N": "NNewtype", "O": "NOption", "A": "NArray", "B": "NBox", "V": "NVec", "H": "NSet"}[t] + " %d" % nd[1]


def coq_graph(g, rev_struct=False):
    return "[" + ";".join("(%d,%s)" % (i, coq_node(g[i], rev_struct)) for i in sorted(g)) + "]"


def coq_bidx(bidx):
    return "[" + ";".join("(%d,%d)" % (t, b) for t, b in sorted(bidx.items())) + "]"


def desc_node(nd):
    """canonical node -> input JSON of the hook verif_break_cycles_graph"""
    t = nd[0]
    if t == "S":
        return {"kind": "struct", "props": list(nd[1])}
    if t == "T":
        return {"kind": "tuple", "ids": list(nd[1])}
    if t == "E":
        vs = []
        for v in nd[1]:
            if v[0] == "s":
                vs.append({"k": "simple"})
            elif v[0] == "i":
                vs.append({"k": "item", "id": v[1]})
            elif v[0] == "t":
                vs.append({"k": "tuple", "ids": list(v[1])})
            else:
                vs.append({"k": "struct", "props": list(v[1])})
        return {"kind": "enum", "variants": vs}
    if t == "M":
        return {"kind": "map", "key": nd[1], "value": nd[2]}
    if t == "L":
        return {"kind": "leaf"}
    if t == "A":
        return {"kind": "array", "id": nd[1], "len": 2}
    return {"kind": {"N": "newtype", "O": "option", "B": "box", "V": "vec", "H": "set"}[t], "id": nd[1]}


def undesc_node(n):
    """input JSON of the hook -> canonical node (curated corpus)"""
    k = n["kind"]
    if k == "struct":
        return ("S", tuple(n.get("props", [])))
    if k == "tuple":
        return ("T", tuple(n.get("ids", [])))
    if k == "enum":
        vs = []
        for v in n["variants"]:
            if v["k"] == "simple":
                vs.append(("s",))
            elif v["k"] == "item":
                vs.append(("i", v["id"]))
            elif v["k"] == "tuple":
                vs.append(("t", tuple(v.get("ids", []))))
            else:
                vs.append(("p", tuple(v.get("props", []))))
        return ("E", tuple(vs))
    if k == "map":
        return ("M", n["key"], n["value"])
    m = {"newtype": "N", "option": "O", "array": "A", "box": "B", "vec": "V", "set": "H"}
    if k in m:
        return (m[k], n["id"])
    return ("L",)


def canon_entry(e):
    """entry of verif_dump -> canonical node"""
    k = e["kind"]
    if k == "struct":
        return ("S", tuple(p["type_id"] for p in e["props"]))
    if k == "newtype":
        return ("N", e["type_id"])
    if k == "enum":
        vs = []
        for v in e["variants"]:
            d = v["details"]
            kk = d["k"]
            if kk == "simple":
                vs.append(("s",))
            elif kk == "item":
                vs.append(("i", d["id"]))
            elif kk == "tuple":
                vs.append(("t", tuple(d["ids"])))
            else:
                vs.append(("p", tuple(p["type_id"] for p in d["props"])))
        return ("E", tuple(vs))
    if k == "tuple":
        return ("T", tuple(e["ids"]))
    if k == "map":
        return ("M", e["key"], e["value"])
    m = {"option": "O", "array": "A", "box": "B", "vec": "V", "set": "H"}
    if k in m:
        return (m[k], e["id"])
    if k == "native" and e.get("params"):
        return ("X", tuple(e["params"]))
    return ("L",)


# native generic types that store their type parameter INLINE (x-rust-type with `parameters`)
INLINE_NATIVE = {"std::option::Option", "core::option::Option", "std::cell::Cell", "std::cell::RefCell",
                 "std::num::Wrapping", "std::cmp::Reverse", "std::mem::ManuallyDrop", "std::sync::Mutex",
                 "std::sync::RwLock"}


def spec_conservative(g):
    """the Coq model's `spec_graph`: EVERY native type parameter counts as contained by value"""
    return {i: (("T", nd[1]) if nd[0] == "X" else nd) for i, nd in g.items()}


def spec_graph(space):
    """by-value graph of a dump under the SPEC relation: the IR by-value slots plus the type parameters of native
    types KNOWN to contain them inline (the code's get_child_ids has no such edge)"""
    g = {}
    for i, e in space["entries"].items():
        if e["kind"] == "native" and e.get("params") and e.get("type_name", "").lstrip(":") in INLINE_NATIVE:
            g[int(i)] = ("T", tuple(e["params"]))
        else:
            g[int(i)] = canon_entry(e)
    return g


def canon_space(space):
    """verif_dump -> (graph, next_id, box index as the code's type_to_id holds it)"""
    g = {int(i): canon_entry(e) for i, e in space["entries"].items()}
    bidx = {}
    for i in space.get("type_to_id", []):
        nd = g.get(i)
        if nd is not None and nd[0] == "B":
            bidx[nd[1]] = i
    return g, space["next_id"], bidx


# ---------------------------------------------------------------------------
# the oracle's own graph algorithms (independent of the Coq model)
# ---------------------------------------------------------------------------

def find_cycle(g, roots):
    """A by-value cycle reachable from `roots` (list of ids, first = last), or None."""
    color = {}
    for r in roots:
        if r not in g or color.get(r):
            continue
        color[r] = 1
        path = [r]
        stack = [iter(slots(g[r]))]
        while stack:
            adv = False
            for c in stack[-1]:
                if c not in g:
                    continue
                cc = color.get(c, 0)
                if cc == 1:
                    return path[path.index(c):] + [c]
                if cc == 0:
                    color[c] = 1
                    path.append(c)
                    stack.append(iter(slots(g[c])))
                    adv = True
                    break
            if not adv:
                color[path.pop()] = 2
                stack.pop()
    return None


def reach_set(g, src):
    """ids reachable from src by by-value edges (reflexive)"""
    seen = {src}
    todo = [src]
    while todo:
        u = todo.pop()
        nd = g.get(u)
        if nd is None:
            continue
        for c in slots(nd):
            if c not in seen:
                seen.add(c)
                todo.append(c)
    return seen


def slot_diff(in_g, out_g):
    """(changed slots [(owner, idx, old, new)], structural problems [text])"""
    changed = []
    problems = []
    for i, nd in in_g.items():
        od = out_g.get(i)
        if od is None:
            problems.append("entry %d disappeared" % i)
            continue
        if od == nd:
            continue
        if od[0] != nd[0] or shape(od) != shape(nd):
            problems.append("entry %d changed other than in a by-value slot: %s -> %s" % (i, show_node(nd), show_node(od)))
            continue
        for k, (a, b) in enumerate(zip(slots(nd), slots(od))):
            if a != b:
                changed.append((i, k, a, b))
    return changed, problems


def check_break(in_g, in_next, lo, hi, out_g, out_next):
    """The property on one break_cycles call; returns list of (kind, observed, expected)."""
    fails = []
    roots = list(range(lo, hi))
    cyc = find_cycle(out_g, roots)
    if cyc is not None:
        fails.append(("cycle-not-broken",
                      "by-value cycle %s reachable from roots %d..%d in the output" % ("->".join(map(str, cyc)), lo, hi),
                      "no node reachable from the roots lies on a cycle of by-value edges"))
    pre_cyc = find_cycle(in_g, roots)
    changed, problems = slot_diff(in_g, out_g)
    new_ids = sorted(i for i in out_g if i not in in_g)
    if pre_cyc is None:
        if changed or problems or new_ids or (out_next is not None and out_next != in_next):
            fails.append(("boxed-without-cycle",
                          "input has no by-value cycle reachable from the roots, yet changed slots=%s new entries=%s next_id %s->%s %s"
                          % (changed, [(i, show_node(out_g[i])) for i in new_ids], in_next, out_next, problems),
                          "output identical to input (no Box, next_id unchanged)"))
        return fails
    for p in problems:
        fails.append(("entry-changed-outside-slot", p, "only by-value slots are re-pointed"))
    used = set()
    reach = {}
    for (u, k, old, new) in changed:
        nb = out_g.get(new)
        if nb != ("B", old):
            fails.append(("slot-not-boxed-target",
                          "slot %d of entry %d: %d -> %d = %s" % (k, u, old, new, show_node(nb) if nb else None),
                          "the new target is a Box entry of the former target %d" % old))
            continue
        used.add(new)
        if old not in reach:
            reach[old] = reach_set(in_g, old)
        if u not in reach[old]:
            fails.append(("boxed-slot-not-on-cycle",
                          "slot %d of entry %d (-> %d) was boxed but %d does not reach %d by value in the input" % (k, u, old, old, u),
                          "only slots lying on a by-value cycle are boxed"))
    for i in new_ids:
        if out_g[i][0] != "B":
            fails.append(("new-entry-not-box", "new entry %d = %s" % (i, show_node(out_g[i])), "only Box entries are added"))
        elif i not in used:
            fails.append(("unused-new-box", "new entry %d = %s is referenced by no re-pointed slot" % (i, show_node(out_g[i])),
                          "Box entries are created only to cut a cycle"))
    if out_next is not None:
        if new_ids != list(range(in_next, in_next + len(new_ids))) or out_next != in_next + len(new_ids):
            fails.append(("id-allocation", "new ids %s next_id %d->%s" % (new_ids, in_next, out_next),
                          "fresh ids are next_id, next_id+1, ..."))
    return fails


# ---------------------------------------------------------------------------
# emulated mutations of the IMPLEMENTATION answer
# ---------------------------------------------------------------------------

def tamper(in_g, in_next, lo, hi, out_g, out_next):
    """returns (out_g, out_next, tampered?)"""
    if EMULATE == "unbox":
        changed, _ = slot_diff(in_g, out_g)
        if changed:
            u, k, old, new = changed[0]
            s = list(slots(out_g[u]))
            s[k] = old
            g2 = dict(out_g)
            g2[u] = with_slots(out_g[u], s)
            return g2, out_next, True
    elif EMULATE == "first-child-only":
        changed, _ = slot_diff(in_g, out_g)
        seen = set()
        g2 = None
        for (u, k, old, new) in changed:
            if u in seen:
                g2 = g2 or dict(out_g)
                s = list(slots(g2[u]))
                s[k] = old
                g2[u] = with_slots(g2[u], s)
            seen.add(u)
        if g2 is not None:
            return g2, out_next, True
    elif EMULATE == "extrabox":
        if find_cycle(in_g, range(lo, hi)) is None and out_next is not None:
            for u in sorted(out_g):
                s = list(slots(out_g[u]))
                if s and u in in_g:
                    g2 = dict(out_g)
                    g2[out_next] = ("B", s[0])
                    s[0] = out_next
                    g2[u] = with_slots(out_g[u], s)
                    return g2, out_next + 1, True
    return out_g, out_next, False


# ---------------------------------------------------------------------------
# model result parsing
# ---------------------------------------------------------------------------

def expect_str(in_g, in_bidx, out_g, out_next, out_bidx, pre_acyclic, rev=False):
    """what `run_case` must print if the model agrees with the implementation's answer (flags from the own DFS):
    graph in ascending id order; Box index = the input pairs (ascending target) then the new pairs in allocation order"""
    if any(t not in out_bidx for t in in_bidx):
        return None
    pairs = [(t, out_bidx[t]) for t in sorted(in_bidx)] + sorted(
        ((t, b) for t, b in out_bidx.items() if t not in in_bidx), key=lambda tb: tb[1])
    g = out_g
    if rev:
        g = {i: (("S", nd[1][::-1]) if nd[0] == "S" else nd) for i, nd in out_g.items()}
    return "ok next=%d acyclic=%d same=%d wf=1 closed=1 pre_acyclic=%d bidx=%s g=%s" % (
        out_next, find_cycle(out_g, sorted(out_g)) is None, len(out_g) == len(in_g), pre_acyclic,
        ",".join("%d>%d" % tb for tb in pairs), show_graph(g))


RE_OK = re.compile(r"^ok next=(\d+) acyclic=([01]) same=([01]) wf=([01]) closed=([01]) pre_acyclic=([01]) bidx=(\S*) g=(.*)$")
RE_PANIC = re.compile(r"^(panic:.*|oof) wf=([01]) closed=([01]) pre_acyclic=([01])$")


def parse_model(s, unrev_struct=False):
    m = RE_OK.match(s)
    if m:
        g = {}
        for tok in m.group(8).split(" "):
            if not tok:
                continue
            i, nd = tok.split("=", 1)
            nd = parse_node(nd)
            if unrev_struct and nd[0] == "S":
                nd = ("S", nd[1][::-1])
            g[int(i)] = nd
        bidx = {}
        if m.group(7):
            for tb in m.group(7).split(","):
                t, b = tb.split(">")
                bidx[int(t)] = int(b)
        return {"r": "ok", "next": int(m.group(1)), "acyclic": m.group(2) == "1", "same": m.group(3) == "1",
                "wf": m.group(4) == "1", "closed": m.group(5) == "1", "pre_acyclic": m.group(6) == "1",
                "bidx": bidx, "g": g}
    m = RE_PANIC.match(s)
    if m:
        return {"r": m.group(1), "wf": m.group(2) == "1", "closed": m.group(3) == "1", "pre_acyclic": m.group(4) == "1"}
    return {"r": "unparsable:" + s[:200], "wf": False, "closed": False, "pre_acyclic": None}


# ---------------------------------------------------------------------------
# K2 generators
# ---------------------------------------------------------------------------

EK7 = ["direct", "option", "array", "tuple", "box", "vec", "map"]
NK5 = ["struct", "newtype", "enum-item", "enum-tuple", "enum-struct"]
WRAP = {"option": "O", "array": "A", "box": "B", "vec": "V", "set": "H"}


class Builder:
    """definitions 0..n-1, intermediate unnamed nodes get the ids n.. ; structurally
    equal intermediate nodes are shared when `share` (as typify's type_to_id would)"""

    def __init__(self, n, share=True, rnd=None, gap_p=0.0):
        self.n = n
        self.g = {}
        self.nxt = n
        self.share = share
        self.memo = {}
        self.rnd = rnd
        self.gap_p = gap_p

    def alloc(self, nd, share=None):
        share = self.share if share is None else share
        if share and nd in self.memo:
            return self.memo[nd]
        if self.gap_p and self.rnd.random() < self.gap_p:
            self.nxt += self.rnd.randint(1, 3)
        i = self.nxt
        self.nxt += 1
        self.g[i] = nd
        self.memo[nd] = i
        return i

    def leaf(self):
        return self.alloc(("L",), share=True)

    def wrap(self, kind, c):
        if kind == "direct":
            return c
        if kind == "tuple":
            return self.alloc(("T", (c, self.leaf())))
        if kind == "map":
            return self.alloc(("M", self.leaf(), c))
        return self.alloc((WRAP[kind], c))

    def edge(self, j, kinds):
        """slot value for an edge to definition j through wrappers `kinds` (outer..inner)"""
        if isinstance(kinds, str):
            kinds = (kinds,)
        c = j
        for k in reversed(kinds):
            c = self.wrap(k, c)
        return c


def mk_def(kind, sl, rnd=None):
    sl = tuple(sl)
    if kind == "struct":
        return ("S", sl)
    if kind == "newtype":
        return ("N", sl[0])
    if kind == "enum-item":
        return ("E", (("s",),) + tuple(("i", s) for s in sl))
    if kind == "enum-tuple":
        return ("E", (("t", sl),))
    if kind == "enum-struct":
        if len(sl) >= 2:
            return ("E", (("i", sl[0]), ("p", sl[1:])))
        return ("E", (("p", sl),))
    if kind == "enum-mixed":
        vs = []
        k = 0
        while k < len(sl):
            r = rnd.random()
            if r < 0.15:
                vs.append(("s",))
            elif r < 0.5:
                vs.append(("i", sl[k]))
                k += 1
            else:
                m = rnd.randint(1, min(3, len(sl) - k))
                vs.append(("t" if r < 0.75 else "p", sl[k:k + m]))
                k += m
        if rnd.random() < 0.5:
            vs.insert(rnd.randint(0, len(vs)), ("s",))
        return ("E", tuple(vs))
    raise ValueError(kind)


def build_case(fam, n, kinds, edges, share=True, rnd=None, lo=0, hi=None, extra_boxes=(), gap_p=0.0, note=None):
    """kinds[i] node kind, edges[i] = [(j, ekind or tuple of wrappers)]"""
    b = Builder(n, share, rnd, gap_p)
    sl = [[b.edge(j, ek) for (j, ek) in edges[i]] for i in range(n)]
    for i in range(n):
        b.g[i] = mk_def(kinds[i], sl[i], rnd)
    for j in extra_boxes:
        b.alloc(("B", j), share=False)
    c = {"fam": fam, "g": b.g, "next": max(b.g) + 1, "lo": lo, "hi": n if hi is None else hi,
         "nk": list(kinds), "ek": [ek if isinstance(ek, str) else "+".join(ek) for es in edges for (_, ek) in es]}
    if note:
        c["note"] = note
    return c


def n2_edges(cfg):
    e0 = [(j, k) for j, k in ((0, cfg[0]), (1, cfg[1])) if k]
    e1 = [(j, k) for j, k in ((0, cfg[2]), (1, cfg[3])) if k]
    return [e0, e1]


def kinds_ok(kinds, edges):
    return all(k != "newtype" or len(es) == 1 for k, es in zip(kinds, edges))


def gen_k2(ctx):
    thorough = ctx.tier == "thorough"
    cases = []
    # --- n = 1: all node kinds x all sequences of <= 2 self edges (covers all multisets)
    seqs = [()] + [(a,) for a in EK7] + list(itertools.product(EK7, repeat=2))
    for nk in NK5:
        for sq in seqs:
            es = [[(0, k) for k in sq]]
            if kinds_ok([nk], es):
                cases.append(build_case("n1", 1, [nk], es))
    # --- n = 2
    alpha = [None] + EK7
    cfgs = list(itertools.product(alpha, repeat=4))
    for cfg in cfgs:
        cases.append(build_case("n2-struct", 2, ["struct", "struct"], n2_edges(cfg)))
    pairs = [p for p in itertools.product(NK5, repeat=2) if p != ("struct", "struct")]
    if thorough:
        for p in pairs:
            for cfg in cfgs:
                es = n2_edges(cfg)
                if kinds_ok(p, es):
                    cases.append(build_case("n2-kinds", 2, list(p), es))
    else:
        r = random.Random(ctx.seed * 7919 + 1)
        k = 0
        while k < 1500:
            p = r.choice(pairs)
            es = n2_edges(r.choice(cfgs))
            if kinds_ok(p, es):
                cases.append(build_case("n2-kinds", 2, list(p), es))
                k += 1
    # --- n = 3 over {none, direct, option}, struct nodes
    a3 = [None, "direct", "option"]

    def n3(cfg):
        return [[(j, cfg[3 * i + j]) for j in range(3) if cfg[3 * i + j]] for i in range(3)]
    if thorough:
        for cfg in itertools.product(a3, repeat=9):
            cases.append(build_case("n3", 3, ["struct"] * 3, n3(cfg)))
    else:
        r = random.Random(ctx.seed * 7919 + 2)
        for _ in range(1000):
            cases.append(build_case("n3", 3, ["struct"] * 3, n3([r.choice(a3) for _ in range(9)])))
    # --- seeded minority with UNSHARED intermediate nodes (n = 1, 2)
    r = random.Random(ctx.seed * 7919 + 3)
    want = 3000 if thorough else 300
    k = tries = 0
    while k < want and tries < want * 20:
        tries += 1
        if r.random() < 0.3:
            nk = r.choice(NK5)
            es = [[(0, r.choice(EK7)) for _ in range(r.randint(1, 3))]]
            kinds = [nk]
        else:
            kinds = [r.choice(NK5), r.choice(NK5)]
            es = [[(r.randrange(2), r.choice(EK7)) for _ in range(r.randint(0, 3))] for _ in range(2)]
        if not kinds_ok(kinds, es):
            continue
        c = build_case("unshared", len(kinds), kinds, es, share=False)
        if c["g"] != build_case("x", len(kinds), kinds, es, share=True)["g"]:
            cases.append(c)
            k += 1
    # --- random n <= 8
    r = random.Random(ctx.seed * 7919 + 4)
    ekw = ["direct"] * 5 + ["option"] * 4 + ["tuple"] * 2 + ["array", "box", "vec", "set", "map"]
    nkw = ["struct"] * 4 + ["enum-mixed"] * 3 + ["enum-item", "enum-tuple", "enum-struct", "newtype", "newtype"]
    for _ in range(20000 if thorough else 2000):
        n = r.randint(1, 8)
        kinds, edges = [], []
        for i in range(n):
            deg = r.choice([0, 1, 1, 1, 2, 2, 3, 4])
            es = []
            for _d in range(deg):
                if es and r.random() < 0.2:
                    es.append(r.choice(es))          # duplicate slot
                else:
                    ek = r.choice(ekw)
                    if r.random() < 0.12:
                        ek = (ek, r.choice(["option", "array", "tuple", "vec", "box"]))
                    # bias towards near targets so that long cycles appear
                    j = (i + 1) % n if r.random() < 0.3 else r.randrange(n)
                    es.append((j, ek))
            nk = r.choice(nkw)
            if nk == "newtype" and len(es) != 1:
                nk = "struct"
            kinds.append(nk)
            edges.append(es)
        lo, hi = 0, n
        if r.random() < 0.25:
            lo = r.randint(0, n)
            hi = r.randint(lo, n)
        xb = [r.randrange(n) for _ in range(r.choice([0, 0, 0, 1, 1, 2]))]
        cases.append(build_case("random", n, kinds, edges, share=r.random() < 0.8, rnd=r, lo=lo, hi=hi,
                                extra_boxes=xb, gap_p=0.3 if r.random() < 0.15 else 0.0))
    return cases


def hook_bidx(g):
    """the Box slice of type_to_id as the hook builds it: serde_json object order
    (keys sorted AS STRINGS), later insert overwrites"""
    bidx = {}
    for i in sorted(g, key=str):
        if g[i][0] == "B":
            bidx[g[i][1]] = i
    return bidx


def k2_desc(c):
    return {"next_id": c["next"], "lo": c["lo"], "hi": c["hi"],
            "nodes": {str(i): desc_node(nd) for i, nd in c["g"].items()}}


def run_c07(cases, chunk=4000):
    chunks = [cases[i:i + chunk] for i in range(0, len(cases), chunk)]
    out = []
    with ThreadPoolExecutor(max_workers=max(1, vlib.NCPU - 2)) as ex:
        for r in ex.map(lambda ch: vlib.run_bin("c07", ch), chunks):
            out.extend(r)
    return out


def bump(d, k, n=1):
    d[k] = d.get(k, 0) + n


def pascal(name):
    """rough heck-style PascalCase (enough to recognise the name-collision class)"""
    words = re.findall(r"[A-Za-z][a-z0-9]*|[0-9]+", re.sub(r"([a-z0-9])([A-Z])", r"\1 \2", name))
    return "".join(w[:1].upper() + w[1:].lower() if w.isupper() and len(w) > 1 else w[:1].upper() + w[1:] for w in words)


def name_collision(steps):
    """Does an inline (non-$ref) object property of some definition get a derived type name
    (Pascal(parent) + Pascal(property)) equal to the type name of a definition?"""
    defs = {}
    for st in steps:
        if st.get("op", "root") == "root":
            defs.update(st.get("doc", {}).get("definitions", {}))
        elif st.get("op") == "refs":
            defs.update(st.get("defs", {}))
    tnames = {pascal(d) for d in defs}
    for d, sch in defs.items():
        if not isinstance(sch, dict):
            continue
        for p, ps in (sch.get("properties") or {}).items():
            if isinstance(ps, dict) and "$ref" not in ps and ps.get("type") == "object" and "properties" in ps:
                if pascal(d) + pascal(p) in tnames:
                    return True
    return False


def known_match(ctx, v):
    """a listed finding whose (narrow) class this failure falls into, else None"""
    for f in ctx.findings_for():
        cls = f.get("class")
        if cls == "spurious-cycle-via-type-name-collision":
            if v.get("kind") == "box-without-schema-cycle" and isinstance(v.get("input"), dict):
                steps = v["input"].get("steps", [])
                w = (f.get("witness") or {}).get("steps")
                if (w is not None and json.dumps(w, sort_keys=True) == json.dumps(steps, sort_keys=True)) \
                        or name_collision(steps):
                    return f
        elif cls == "pure-newtype-alias-cycle-does-not-compile":
            if v.get("kind") == cls:      # raised only for E0055/E0119 in a module with a newtype/Box-only cycle
                return f
        elif cls == "containment-through-native-type-parameter":
            if v.get("kind") == cls:      # raised only for cycles that need a native type-parameter edge
                return f
        elif cls == v.get("kind"):
            w = f.get("witness")
            if w is None or json.dumps(w, sort_keys=True) == json.dumps(v.get("input"), sort_keys=True):
                return f
    return None


# ---------------------------------------------------------------------------
# K3 generator: abstract definition graph -> schema documents
# ---------------------------------------------------------------------------

NAMES = ["Alpha", "Beta", "Gamma", "Delta", "Eps", "Zeta", "Eta", "Theta", "Iota", "Kappa"]
BYVALUE = {"required", "optional", "nullable-oneof", "nullable-anyof", "tuple", "fixarr", "alias",
           "variant-tuple", "untagged"}
NOT_BYVALUE = {"vec", "set", "map"}
EDGE_KINDS_K3 = ["required", "required", "optional", "optional", "nullable-oneof", "nullable-anyof", "tuple", "fixarr",
                 "vec", "set", "map"]


def ref_of(name):
    return {"$ref": "#"} if name is None else {"$ref": "#/definitions/" + name}


def edge_schema(kind, r):
    if kind in ("required", "optional", "alias", "untagged", "variant-tuple"):
        return r
    if kind == "nullable-oneof":
        return {"oneOf": [r, {"type": "null"}]}
    if kind == "nullable-anyof":
        return {"anyOf": [r, {"type": "null"}]}
    if kind == "tuple":
        return {"type": "array", "items": [r, {"type": "integer"}], "minItems": 2, "maxItems": 2}
    if kind == "fixarr":
        return {"type": "array", "items": r, "minItems": 2, "maxItems": 2}
    if kind == "vec":
        return {"type": "array", "items": r}
    if kind == "set":
        return {"type": "array", "items": r, "uniqueItems": True}
    if kind == "map":
        return {"type": "object", "additionalProperties": r}
    raise ValueError(kind)


def obj_schema(props, optional):
    return {"type": "object", "properties": props, "required": sorted(p for p in props if p not in optional)}


def gen_schema_case(r, idx):
    """returns {"steps", "abs": {"defs":[{name,kind,edges:[(target,kind)]}], "by_value_cycle":bool}, "mode"}"""
    n = r.randint(1, 5)
    names = r.sample(NAMES, n)
    mode = r.choice(["root", "root", "refs", "two-refs", "root+refs"])
    if n == 1 and mode in ("two-refs", "root+refs"):
        mode = "refs"
    titled = mode == "root" and r.random() < 0.25
    split = r.randint(1, n - 1) if mode in ("two-refs", "root+refs") else n
    dag = r.random() < 0.35           # by-value edges only "forward": guaranteed free of containment cycles
    total = n + (1 if titled else 0)  # index n = the titled root schema
    order = list(range(total))
    r.shuffle(order)                  # position in the DAG order, independent of names / ids
    pos = {d: k for k, d in enumerate(order)}
    rname = lambda j: None if j == n else names[j]
    defs = []
    for i in range(total):
        if titled:
            allowed = list(range(total))
        elif i < split:
            allowed = list(range(split))      # the first batch cannot reference the second
        else:
            allowed = list(range(n))
        kind = "struct" if i == n else r.choice(["struct"] * 5 + ["enum"] * 3 + ["alias", "wrap", "untagged"])
        deg = 1 if kind in ("alias", "wrap", "untagged") else r.choice([0, 1, 1, 2, 2, 3] if kind == "struct" else [0, 1, 2, 2, 3, 4])
        edges = []
        for _ in range(deg):
            if kind == "alias":
                ek = "alias"
            elif kind == "untagged":
                ek = "untagged"
            elif kind == "wrap":
                ek = r.choice(["nullable-oneof", "tuple", "fixarr", "vec", "map"])
            else:
                ek = r.choice(EDGE_KINDS_K3)
            j = r.choice(allowed)
            if dag and ek not in NOT_BYVALUE and pos[j] <= pos[i]:
                fw = [x for x in allowed if pos[x] > pos[i]]
                if fw:
                    j = r.choice(fw)
                elif kind in ("alias", "untagged"):
                    kind, ek = "wrap", "vec"
                else:
                    ek = r.choice(["vec", "map", "set"] if kind != "wrap" else ["vec", "map"])
            edges.append([j, ek])
        defs.append({"name": rname(i), "kind": kind, "edges": edges})

    def def_schema(d):
        es = d["edges"]
        if d["kind"] == "alias":
            return dict(ref_of(rname(es[0][0])))
        if d["kind"] == "wrap":
            return edge_schema(es[0][1], ref_of(rname(es[0][0])))
        if d["kind"] == "untagged":
            return {r.choice(["oneOf", "anyOf"]): [ref_of(rname(es[0][0])), {"type": "integer"}]}
        if d["kind"] == "struct":
            props, optional = {}, set()
            for k, (j, ek) in enumerate(es):
                props["p%d" % k] = edge_schema(ek, ref_of(rname(j)))
                if ek == "optional" or (ek in ("tuple", "fixarr", "vec", "map", "set") and r.random() < 0.2):
                    optional.add("p%d" % k)
            if r.random() < 0.4:
                props["v"] = {"type": r.choice(["integer", "string", "boolean"])}
            return obj_schema(props, optional)
        # externally tagged enum
        variants = []
        k = 0
        vn = 0
        while k < len(es):
            x = r.random()
            if x < 0.4:
                j, ek = es[k]
                if ek == "optional":
                    es[k][1] = ek = "required"
                payload = edge_schema(ek, ref_of(rname(j)))
                k += 1
            elif x < 0.65 and es[k][1] in BYVALUE:
                m = r.randint(1, min(2, len(es) - k))
                if m == 2 and es[k + 1][1] not in BYVALUE:
                    m = 1
                items = []
                for e in es[k:k + m]:
                    e[1] = "variant-tuple"
                    items.append(ref_of(rname(e[0])))
                items.append({"type": "integer"})
                payload = {"type": "array", "items": items, "minItems": m + 1, "maxItems": m + 1}
                k += m
            else:
                m = r.randint(1, min(3, len(es) - k))
                props, optional = {}, set()
                for q, (j, ek) in enumerate(es[k:k + m]):
                    props["f%d" % q] = edge_schema(ek, ref_of(rname(j)))
                    if ek == "optional":
                        optional.add("f%d" % q)
                payload = obj_schema(props, optional)
                k += m
            variants.append({"type": "object", "properties": {"v%d" % vn: payload}, "required": ["v%d" % vn],
                             "additionalProperties": False})
            vn += 1
        if r.random() < 0.7 or not variants:
            variants.insert(r.randint(0, len(variants)), {"type": "string", "enum": ["w0", "w1"][:r.randint(1, 2)]})
        return {"oneOf": variants}

    schemas = [def_schema(d) for d in defs]
    b1 = {names[i]: schemas[i] for i in range(split)}
    b2 = {names[i]: schemas[i] for i in range(split, n)}
    if mode == "root":
        doc = {"definitions": b1}
        if titled:
            doc.update(schemas[n])
            doc["title"] = "Root"
            mode = "root-titled"
        steps = [{"op": "root", "doc": doc}]
    elif mode == "refs":
        steps = [{"op": "refs", "defs": b1}]
    elif mode == "two-refs":
        steps = [{"op": "refs", "defs": b1}, {"op": "refs", "defs": b2}]
    else:
        steps = [{"op": "root", "doc": {"definitions": b1}}, {"op": "refs", "defs": b2}]
    if r.random() < 0.2:
        props, optional = {}, set()
        for k in range(r.randint(1, 2)):
            ek = r.choice(["required", "optional", "nullable-oneof", "vec"])
            props["x%d" % k] = edge_schema(ek, ref_of(names[r.randrange(n)]))
            if ek == "optional":
                optional.add("x%d" % k)
        steps.append({"op": "add", "schema": obj_schema(props, optional), "name": "Extra"})
        mode += "+add"
    # schema-level containment graph (independent of typify): cycle over by-value edge kinds only?
    ag = {i: ("S", tuple(j for (j, ek) in d["edges"] if ek in BYVALUE)) for i, d in enumerate(defs)}
    cyc = find_cycle(ag, range(total))
    return {"steps": steps, "mode": mode, "titled": titled, "dag": dag,
            "abs": {"defs": defs, "by_value_cycle": cyc is not None}}


ROOT_TITLES = ["RootNode", "TopList", "DocTree", "MainChain", "OuterDoc"]
SELF_EDGES = ["required", "required", "optional", "optional", "nullable-oneof", "nullable-anyof", "tuple", "fixarr",
              "vec", "map", "set"]


def gen_titled_root_doc(r, title, names):
    """One root document whose TITLED root refers to itself through {"$ref": "#"}.
    names: definition names available (never mention the root unless shape == via-def).
    returns (doc, abstract defs list, by_value_cycle)"""
    R = {"$ref": "#"}
    shape = r.choice(["struct", "struct", "struct", "enum", "newtype", "via-def", "via-def"])
    n = len(names)
    root_ix = n
    via = None
    if shape == "via-def":
        if n == 0:
            shape = "struct"
        else:
            via = r.randrange(n)
    defs, absd = {}, []
    for i in range(n):
        props, optional, edges = {"k": {"type": "integer"}}, set(), []
        if i > 0 and r.random() < 0.5:
            ek = r.choice(["required", "optional", "vec", "tuple"])
            props["p0"] = edge_schema(ek, ref_of(names[i - 1]))
            edges.append([i - 1, ek])
            if ek == "optional":
                optional.add("p0")
        if r.random() < 0.25:           # a definition-level self loop: cut inside any range that holds the definitions
            props["s"] = ref_of(names[i])
            optional.add("s")
            edges.append([i, "optional"])
        if via == i:
            ek = r.choice(["required", "optional", "nullable-oneof", "tuple", "fixarr", "vec"])
            props["back"] = edge_schema(ek, R)
            edges.append([root_ix, ek])
            if ek == "optional":
                optional.add("back")
        defs[names[i]] = obj_schema(props, optional)
        absd.append({"name": names[i], "kind": "struct", "edges": edges})
    redges = []
    if shape == "newtype":
        ek = r.choice(["nullable-oneof", "tuple", "fixarr", "vec", "map"])
        root = edge_schema(ek, R)
        redges.append([root_ix, ek])
    elif shape == "enum":
        variants = []
        for q in range(r.randint(1, 3)):
            x = r.random()
            if x < 0.4:
                ek = r.choice(["required", "nullable-oneof", "tuple", "fixarr", "vec", "map"])
                payload = edge_schema(ek, R)
                redges.append([root_ix, ek])
            elif x < 0.7:
                m = r.randint(1, 2)
                payload = {"type": "array", "items": [R] * m + [{"type": "integer"}], "minItems": m + 1, "maxItems": m + 1}
                redges += [[root_ix, "variant-tuple"]] * m
            else:
                ek = r.choice(["required", "optional", "nullable-anyof", "vec"])
                payload = obj_schema({"f0": edge_schema(ek, R), "f1": {"type": "string"}}, {"f0"} if ek == "optional" else set())
                redges.append([root_ix, ek])
            variants.append({"type": "object", "properties": {"v%d" % q: payload}, "required": ["v%d" % q],
                             "additionalProperties": False})
        variants.insert(r.randint(0, len(variants)), {"type": "string", "enum": ["w0"]})
        root = {"oneOf": variants}
    else:
        props, optional = {"value": {"type": "integer"}}, set()
        k = 0
        if shape == "via-def":
            ek = r.choice(["required", "optional", "nullable-oneof", "tuple", "fixarr"])
            props["p0"] = edge_schema(ek, ref_of(names[via]))
            redges.append([via, ek])
            if ek == "optional":
                optional.add("p0")
            k = 1
        for q in range(r.randint(0 if shape == "via-def" else 1, 2)):
            ek = r.choice(SELF_EDGES)
            props["p%d" % (k + q)] = edge_schema(ek, R)
            redges.append([root_ix, ek])
            if ek == "optional":
                optional.add("p%d" % (k + q))
        for i in range(n):
            if i != via and r.random() < 0.3:
                props["d%d" % i] = ref_of(names[i])
                redges.append([i, "required"])
        root = obj_schema(props, optional)
    absd.append({"name": None, "kind": "root-" + shape, "edges": redges})
    doc = dict(root)
    doc["title"] = title
    if defs or r.random() < 0.5:
        doc["definitions"] = defs
    ag = {i: ("S", tuple(j for (j, ek) in d["edges"] if ek in BYVALUE)) for i, d in enumerate(absd)}
    return doc, absd, find_cycle(ag, range(len(absd))) is not None


def gen_titled_root_case(r, idx):
    """K3 stream: titled root schemas with {"$ref": "#"} self references (direct field, Option, nullable, tuple, fixed
    array, enum variants, newtype, through one definition and back), with and without `definitions`, optionally
    several add_root_schema / add_ref_types calls in one space."""
    names = r.sample(NAMES, r.randint(0, 2))
    titles = r.sample(ROOT_TITLES, 2)
    doc, absd, cyc = gen_titled_root_doc(r, titles[0], names)
    steps = [{"op": "root", "doc": doc}]
    mode = "titled-root"
    x = r.random()
    if x < 0.2:
        other = [nm for nm in NAMES if nm not in names]
        nm = r.choice(other)
        rec = r.random() < 0.6
        b = {nm: obj_schema({"k": {"type": "integer"}, **({"s": ref_of(nm)} if rec else {})}, {"s"})}
        absd = absd + [{"name": nm, "kind": "struct", "edges": [[len(absd), "optional"]] if rec else []}]
        cyc = cyc or rec
        steps.insert(r.choice([0, 1]), {"op": "refs", "defs": b})
        mode += "+refs"
    elif x < 0.4:
        names2 = r.sample([nm for nm in NAMES if nm not in names], r.randint(0, 1))
        doc2, absd2, cyc2 = gen_titled_root_doc(r, titles[1], names2)
        off = len(absd)
        absd = absd + [{"name": d["name"], "kind": d["kind"], "edges": [[j + off, ek] for (j, ek) in d["edges"]]} for d in absd2]
        cyc = cyc or cyc2
        steps.append({"op": "root", "doc": doc2})
        mode += "+root"
    return {"steps": steps, "mode": mode, "titled": True, "dag": False,
            "abs": {"defs": absd, "by_value_cycle": cyc}}


# ---------------------------------------------------------------------------
# rustc cross-check (E0072) of a sample of generated modules
# ---------------------------------------------------------------------------

def rustc_crosscheck(ctx, picks, expected_e0072=()):
    """picks: [(label, case)] -> (failures, info).  Compiles the generated module of every accepted pick in one scratch
    crate; an E0072 (recursive type has infinite size) in a module is a property violation with that document."""
    info = {"picked": len(picks)}
    res = run_c07([{"op": "gen", "settings": c.get("settings", {}), "steps": c["steps"], "code": True, "pre_cycles": False}
                   for (_, c) in picks], chunk=40)
    d = os.path.join(vlib.WORK, "c07_rustc")
    src = os.path.join(d, "src")
    os.makedirs(src, exist_ok=True)
    cargo = ('[package]\nname = "c07_rustc"\nversion = "0.1.0"\nedition = "2021"\n[workspace]\n[dependencies]\n'
             'serde = { version = "1.0.219", features = ["derive"] }\nserde_json = "1.0.140"\n')
    for (path, txt) in ((os.path.join(d, "Cargo.toml"), cargo),
                        (os.path.join(d, "rust-toolchain.toml"), open(os.path.join(vlib.HARNESS, "rust-toolchain.toml")).read()),
                        (os.path.join(d, "Cargo.lock.seed"), "")):
        if path.endswith(".seed"):
            continue
        if not os.path.exists(path) or open(path).read() != txt:
            open(path, "w").write(txt)
    lock = os.path.join(d, "Cargo.lock")
    if not os.path.exists(lock):
        open(lock, "w").write(open(os.path.join(vlib.REPO, "Cargo.lock")).read())
    for f in os.listdir(src):
        os.unlink(os.path.join(src, f))
    def deref_only_cycle(dump):
        """a cycle made of newtype entries (transparent aliases with a Deref impl) and Box entries only"""
        g = {}
        for i, e in dump["entries"].items():
            if e["kind"] == "newtype":
                g[int(i)] = ("N", e["type_id"])
            elif e["kind"] == "box":
                g[int(i)] = ("N", e["id"])
        g = {i: ("N", nd[1]) if nd[1] in g else ("L",) for i, nd in g.items()}
        return find_cycle(g, sorted(g)) is not None

    mods = {}
    alias_cycle = set()
    for i, ((label, c), r) in enumerate(zip(picks, res)):
        if r.get("r") != "done" or not r.get("all_ok"):
            continue
        rd = r.get("render", {})
        u = r.get("uses", {})
        if rd.get("r") != "ok" or "code" not in rd or u.get("chrono") or u.get("uuid") or u.get("regress"):
            continue
        open(os.path.join(src, "m_%d.rs" % i), "w").write(rd["code"])
        mods[i] = (label, c)
        if deref_only_cycle(r["dump"]):
            alias_cycle.add(i)
    info["modules"] = len(mods)
    failures, other, confirmed, other_samples = [], {}, [], []
    live = dict(mods)
    env = dict(vlib.ENV)
    env["CARGO_TARGET_DIR"] = os.path.join(d, "target")
    ran = False
    for attempt in range(3):
        open(os.path.join(src, "lib.rs"), "w").write(
            "#![allow(warnings)]\n" + "".join("pub mod m_%d;\n" % i for i in sorted(live)))
        rc, out, err = vlib.sh(["timeout", "900", "cargo", "check", "--offline", "--message-format=json"], cwd=d,
                               timeout=960, env=env)
        msgs = []
        for line in out.splitlines():
            try:
                j = json.loads(line)
            except ValueError:
                continue
            if j.get("reason") == "build-finished":
                ran = True
            if j.get("reason") == "compiler-message" and j.get("target", {}).get("name") == "c07_rustc":
                m = j["message"]
                if m.get("level") == "error" and m.get("spans"):
                    msgs.append(m)
        if not ran:
            info["cargo_error"] = err[-1500:]
            break
        bad_other = set()
        for m in msgs:
            code = (m.get("code") or {}).get("code")
            files = {sp["file_name"] for sp in m["spans"]}
            for fn in files:
                mm = re.search(r"m_(\d+)\.rs$", fn)
                if not mm:
                    continue
                i = int(mm.group(1))
                if i not in live:
                    continue
                label, c = live[i]
                if code == "E0072":
                    inp = {"steps": c["steps"]}
                    if c.get("settings"):
                        inp["settings"] = c["settings"]
                    if label in expected_e0072:
                        confirmed.append(label)
                    else:
                        failures.append({"kind": "rustc-E0072-infinite-size", "input": inp,
                                         "observed": (m.get("rendered") or m.get("message", ""))[:900],
                                         "expected": "the generated module compiles: every containment cycle passes "
                                                     "through a Box", "size": 0, "note": label})
                    bad_other.add(i)          # drop it before a re-run
                elif code in ("E0055", "E0119") and i in alias_cycle:
                    inp = {"steps": c["steps"]}
                    if c.get("settings"):
                        inp["settings"] = c["settings"]
                    failures.append({"kind": "pure-newtype-alias-cycle-does-not-compile", "input": inp,
                                     "observed": (m.get("rendered") or m.get("message", ""))[:600],
                                     "expected": "the generated module compiles", "size": 0, "note": label})
                    bad_other.add(i)
                else:
                    bump(other, str(code))
                    if len(other_samples) < 6:
                        other_samples.append({"module": label, "code": code, "message": m.get("message", "")[:200],
                                              "steps": c["steps"]})
                    bad_other.add(i)
        if rc == 0 or not bad_other:
            break
        for i in bad_other:
            live.pop(i, None)
    info["ran"] = ran
    info["other_error_codes_(not_C07)"] = other
    info["other_error_samples"] = other_samples
    info["modules_compiled_clean"] = len(live) if ran else 0
    info["expected_E0072_confirmed"] = sorted(set(confirmed))
    info["modules_with_newtype/Box-only_cycle"] = len(alias_cycle)
    seen = set()
    uniq = []
    for f in failures:
        k = json.dumps(f["input"], sort_keys=True)
        if k not in seen:
            seen.add(k)
            uniq.append(f)
    return uniq, info


# ---------------------------------------------------------------------------
# the check
# ---------------------------------------------------------------------------

def load_corpus():
    k2, k3 = [], []
    for p in sorted(glob.glob(os.path.join(CORPUS, "*.json"))):
        d = json.load(open(p))
        base = os.path.basename(p)
        if d.get("kind") == "graph":
            ds = d["desc"]
            g = {int(i): undesc_node(nd) for i, nd in ds["nodes"].items()}
            k2.append({"fam": "corpus", "g": g, "next": ds["next_id"], "lo": ds["lo"], "hi": ds["hi"], "note": base,
                       "nk": [], "ek": []})
        elif d.get("kind") == "schema":
            bvc = d.get("by_value_cycle")
            if d.get("schema_acyclic") is True:     # the seed carries its own schema-level verdict
                bvc = False
            k3.append({"steps": d["steps"], "settings": d.get("settings", {}), "mode": "corpus", "note": base,
                       "abs": {"by_value_cycle": bvc}})
    return k2, k3


def run(ctx):
    ctx.level = "proof"
    ctx.trusted = [
        "Coq 8.16.1 kernel + vm_compute (no native_compute); no axioms (Print Assumptions: closed under the global context)",
        "hand-written model Algo/Cycles.v of break_cycles / get_child_ids / id_to_box / assign, tied by K2 (synthetic "
        "type spaces through the hook verif_break_cycles_graph) and K3 (pre-break_cycles snapshots of real schema runs)",
        "hooks verif_dump / record_pre_cycles / verif_break_cycles_graph (read-only views; the hook builds a synthetic "
        "TypeSpace and calls the real break_cycles)",
        "the by-value relation (struct/newtype/enum variant payload/Option/array/tuple contain their children inline; "
        "Box/Vec/Set/Map do not) is the Rust layout fact the property rests on; rustc E0072 is not re-run here",
    ]
    ctx.assumptions = [
        "reading: 'containment cycle passes through a heap indirection' = the graph of by-value child slots "
        "(get_child_ids kinds) restricted to what is reachable from the converted definitions is acyclic",
        "reading of minimality: a schema without a cycle over by-value edge kinds yields no Box entry at all; and a "
        "break_cycles call on a space without reachable by-value cycle changes nothing",
        "WHERE the Box is placed (e.g. Box<Option<B>> rather than Option<Box<B>>) is property C03's matter, not C07's",
        "theorem hypotheses wf (Box slice of type_to_id consistent, ids < next_id) and closed (child ids and roots resolve) "
        "are validated on every real pre-snapshot",
    ]
    ctx.checker_cmd = ("make -f Makefile.coq theories/Props/C07.vo && coqc Audit_C07.v (Print Assumptions); "
                       "coqc cases_*.v (model run_case/check_case by vm_compute); thorough: coqchk -o Typify.Props.C07")
    thorough = ctx.tier == "thorough"
    if EMULATE:
        ctx.log("EMULATING mutation:", EMULATE)

    # ---- 0/1: proofs, harness, model
    coq_ok = False
    if SKIP_COQ:
        ctx.log("C07_SKIP_COQ=1: skipping Props/C07 build and audit (testing only)")
    else:
        coq_ok = vlib.standard_coq_obligations(ctx, "Props.C07", THEOREMS, ALLOWED_AXIOMS)
    vlib.build_harness(bins=("vh", "c07"))
    ok_m, out_m = vlib.coq_make(["theories/Algo/Cycles.vo"])
    ctx.oblige("model Algo/Cycles.vo builds", ok_m, out_m[-2000:])

    corpus_k2, corpus_k3 = load_corpus()
    failures = []          # direct-oracle failures: dict(kind,input,observed,expected,size)
    rev = EMULATE == "model-order"

    def eval_model(tag, exprs):
        """vm_compute of the model on all exprs.  The result of a shard is ONE Coq string whose read-back
        recurses over its length (stack overflow observed between 26k and 39k characters with an 8 MB stack), so
        shards are sized by the over-estimated output length (<= 14k characters), not by count."""
        if not ok_m:
            return None
        classes = {}
        for i, e in enumerate(exprs):
            c = 160                      # output <= ~80 chars of flags + the graph text (shorter than its Coq text)
            while c < len(e) + 80:
                c *= 2
            classes.setdefault(c, []).append(i)
        out = [None] * len(exprs)
        try:
            def one(c):
                return vlib.coq_eval_strings("%s_%d" % (tag, c), HDR, [exprs[i] for i in classes[c]],
                                             shard=max(1, 14000 // c))
            with ThreadPoolExecutor(max_workers=4) as ex:
                for c, res in zip(sorted(classes), ex.map(one, sorted(classes))):
                    for i, x in zip(classes[c], res):
                        out[i] = x
            return out
        except Exception as e:  # noqa
            ctx.oblige("model Cycles.v evaluates (%s)" % tag, False, str(e)[-2000:])
            return None

    def eval_model_fast(tag, fast, plain):
        """Fast path: each expr compares the model's output string INSIDE Coq with the string expected from the
        implementation's answer and prints "=" on equality (else the model's full output), so shards can be large;
        if a shard overflows the stack (many differing cases), fall back to the conservative full-output path."""
        if not ok_m:
            return None
        try:
            # (time is dominated by coqc elaborating the case list, ~9 ms per case, not by vm_compute)
            return vlib.coq_eval_strings(tag + "_fast", HDR, fast, shard=max(40, min(300, len(fast) // (3 * vlib.NCPU))))
        except Exception as e:  # noqa
            ctx.log("fast model path failed (%s); falling back to full outputs" % str(e)[-120:].replace("\n", " "))
            return eval_model(tag, plain)

    # =====================================================================
    # K2: synthetic graphs
    # =====================================================================
    cases = corpus_k2 + gen_k2(ctx)
    ctx.log("K2 cases:", len(cases))
    impl = run_c07([{"op": "graph", "desc": k2_desc(c)} for c in cases])
    ctx.log("K2 implementation done")

    fam_count, nk_dist, ek_dist, box_hist = {}, {}, {}, {}
    mism, hyp_bad, flag_bad, impl_panics = [], [], [], []
    n_cyc = n_tampered = 0
    # pass 1: the implementation's answers, the direct oracle, the expected model output
    plain, fast = [], []
    for ci, c in enumerate(cases):
        bump(fam_count, c["fam"])
        for k in c["nk"]:
            bump(nk_dist, k)
        for k in c["ek"]:
            bump(ek_dist, k)
        g, nxt, lo, hi = c["g"], c["next"], c["lo"], c["hi"]
        c["bidx"] = hook_bidx(g)
        e = "run_case %s %s %d %d %d" % (coq_graph(g, rev), coq_bidx(c["bidx"]), nxt, lo, hi)
        plain.append(e)
        r = impl[ci]
        if r.get("r") != "ok":
            desc = k2_desc(c)
            impl_panics.append({"input": desc, "result": r})
            failures.append({"kind": "implementation-panic", "input": desc, "observed": r,
                             "expected": "break_cycles terminates normally on a closed type space", "size": len(g)})
            c["_out"] = c["_exp"] = None
            fast.append(e)
            continue
        out_g, out_next, out_bidx = canon_space(r["dump"])
        out_g, out_next, tampered = tamper(g, nxt, lo, hi, out_g, out_next)
        n_tampered += tampered
        c["_out"] = (out_g, out_next, out_bidx)
        c["_pre_ac"] = find_cycle(g, sorted(g)) is None
        if find_cycle(g, range(lo, hi)) is not None:
            n_cyc += 1
            ctx.nontrivial.add("%d..%d|%d|%s" % (lo, hi, nxt, show_graph(g)))
        bump(box_hist, str(len([i for i in out_g if i not in g])))
        for (kind, obs, exp) in check_break(g, nxt, lo, hi, out_g, out_next):
            failures.append({"kind": kind, "input": k2_desc(c), "observed": obs, "expected": exp, "size": len(g),
                             "output": show_graph(out_g), "family": c["fam"], "note": c.get("note")})
        c["_exp"] = expect_str(g, c["bidx"], out_g, out_next, out_bidx, c["_pre_ac"], rev)
        if c["_exp"] is None:
            fast.append(e)
        else:
            fast.append('(let r := %s in if String.eqb r %s%%string then "="%%string else r)' % (e, vlib.coq_str(c["_exp"])))
    ctx.log("K2 direct oracle done: %d failures" % len(failures))
    model = eval_model_fast("c07_k2", fast, plain)
    ctx.log("K2 model done")
    # pass 2: correspondence
    for ci, c in enumerate(cases):
        if model is None or c["_out"] is None:
            continue
        out_g, out_next, out_bidx = c["_out"]
        ms = c["_exp"] if model[ci] == "=" else model[ci]
        m = parse_model(ms, rev)
        if m["r"] != "ok" or not m["wf"] or not m["closed"]:
            hyp_bad.append({"input": k2_desc(c), "model": ms[:300]})
            continue
        if m["g"] != out_g or m["next"] != out_next or m["bidx"] != out_bidx:
            if len(mism) < 50:
                mism.append({"input": k2_desc(c), "family": c["fam"], "note": c.get("note"),
                             "impl": "next=%d bidx=%s g=%s" % (out_next, sorted(out_bidx.items()), show_graph(out_g)),
                             "model": "next=%d bidx=%s g=%s" % (m["next"], sorted(m["bidx"].items()), show_graph(m["g"]))})
            else:
                mism.append(None)
        my_post = find_cycle(m["g"], sorted(m["g"])) is None
        if m["pre_acyclic"] != c["_pre_ac"] or m["acyclic"] != my_post:
            flag_bad.append({"input": k2_desc(c), "model": ms[:300], "dfs_pre_acyclic": c["_pre_ac"],
                             "dfs_post_acyclic": my_post})
    n_k2 = len(cases)
    ctx.evaluations += n_k2
    if model is not None:
        ctx.oblige("correspondence K2: break_cycles (Coq model) = break_cycles (Rust) on %d synthetic type spaces "
                   "(entries, slots, Box ids, next_id, Box index)" % n_k2, not mism,
                   "%d mismatches; first: %s" % (len(mism), json.dumps([x for x in mism if x][:3])))
        ctx.oblige("K2: model never panics / runs out of fuel and wf=closed=1 on generated spaces", not hyp_bad,
                   json.dumps(hyp_bad[:3]))
        ctx.oblige("K2: proven checker acyclic_check agrees with the independent DFS on input and output graphs",
                   not flag_bad, json.dumps(flag_bad[:3]))
    else:
        ctx.oblige("correspondence K2 (model could not be evaluated)", False, "")
    ctx.oblige("K2: implementation never panics on closed synthetic spaces", not impl_panics, json.dumps(impl_panics[:2]))
    ctx.coverage["K2_cases_per_family"] = fam_count
    ctx.coverage["K2_cases"] = n_k2
    ctx.coverage["K2_mismatches"] = len(mism)
    ctx.coverage["K2_node_kind_distribution"] = nk_dist
    ctx.coverage["K2_edge_kind_distribution"] = ek_dist
    ctx.coverage["K2_cases_with_reachable_cycle"] = n_cyc
    ctx.coverage["K2_new_box_entries_histogram"] = box_hist
    ctx.samples = [{"channel": "K2", "family": cases[i]["fam"], "input": "%d..%d next=%d %s" % (
        cases[i]["lo"], cases[i]["hi"], cases[i]["next"], show_graph(cases[i]["g"])),
        "model": (model[i][:300] if model else None)} for i in range(0, n_k2, max(1, n_k2 // 6))][:6]
    ctx.log("K2 compared: %d cases, %d with cycle, %d mismatches, %d oracle failures" % (n_k2, n_cyc, len(mism), len(failures)))

    # =====================================================================
    # K3: real schemas
    # =====================================================================
    r3 = random.Random(ctx.seed * 104729 + 5)
    scases = list(corpus_k3) + [gen_schema_case(r3, i) for i in range(1500 if thorough else 150)]
    r3t = random.Random(ctx.seed * 15485863 + 11)
    scases += [gen_titled_root_case(r3t, i) for i in range(400 if thorough else 60)]
    sres = run_c07([{"op": "gen", "settings": sc.get("settings", {}), "steps": sc["steps"], "code": False, "pre_cycles": True}
                    for sc in scases], chunk=100)
    ctx.log("K3 implementation done:", len(scases), "schema histories")
    skipped, skip_reasons = [], {}
    exprs = []
    finals = []     # indices of the schema histories that were accepted
    mode_dist, k3_ek, k3_dk = {}, {}, {}
    range_bad = []
    for si, (sc, res) in enumerate(zip(scases, sres)):
        bump(mode_dist, sc["mode"])
        if res.get("r") != "done" or not res.get("all_ok") or "dump" not in res:
            skipped.append(si)
            why = json.dumps([s.get("r", "?") + ":" + str(s.get("msg", s.get("kind", "")))[:80] for s in res.get("steps", [])]) \
                if res.get("r") == "done" else str(res)[:120]
            bump(skip_reasons, why)
            continue
        for d in sc["abs"].get("defs", []):
            bump(k3_dk, d["kind"])
            for (_, ek) in d["edges"]:
                bump(k3_ek, ek)
        pre = res.get("pre_cycles", [])
        ref_steps = [k for k, st in enumerate(sc["steps"]) if st.get("op", "root") in ("root", "refs")]
        if len(pre) != len(ref_steps):
            failures.append({"kind": "snapshot-count", "input": {"steps": sc["steps"]}, "observed": len(pre),
                             "expected": len(ref_steps), "size": 99})
            continue
        sc["_final"] = canon_space(res["dump"])
        sc["_names"] = {int(i): (e.get("name") or e.get("type_name") or e["kind"]) for i, e in res["dump"]["entries"].items()}
        sc["_spec"] = spec_graph(res["dump"])
        spaces = [canon_space(p["space"]) for p in pre]
        snaps = []
        for k, p in enumerate(pre):
            in_g, in_next, bidx = spaces[k]
            lo, hi = p["base_id"], p["base_id"] + p["def_len"]
            if EMULATE == "root-range" and k == len(pre) - 1 and ref_steps[k] == len(sc["steps"]) - 1 \
                    and p["space"].get("ref_to_id", {}).get("#") == hi - 1 \
                    and sc["steps"][ref_steps[k]].get("op", "root") == "root":
                hi -= 1                     # the seeded change: the titled root's id lies outside the range
                sc["_shrunk"] = True
            # the reference types THIS call created (definitions + titled root), read off the document and the
            # snapshot's ref_to_id -- independent of the range the Rust computed
            st = sc["steps"][ref_steps[k]]
            if st.get("op", "root") == "root":
                want = ["#/" + nm for nm in (st["doc"].get("definitions") or {})]
                if isinstance(st["doc"].get("title"), str):
                    want.append("#")
            else:
                want = ["#/" + nm for nm in st["defs"]]
            r2i = p["space"].get("ref_to_id", {})
            miss = [(w, r2i.get(w)) for w in want if w not in r2i or not (lo <= r2i[w] < hi)]
            if miss:
                range_bad.append({"input": {"steps": sc["steps"]}, "snapshot": k, "range": [lo, hi],
                                  "reference types outside the range": miss})
            if k + 1 < len(pre):
                post_g, _, post_bidx = spaces[k + 1]
                # next_id right after this break_cycles is known iff the next step is the next batch
                exact_next = pre[k + 1]["base_id"] if ref_steps[k + 1] == ref_steps[k] + 1 else None
            else:
                post_g, exact_next, post_bidx = sc["_final"]
                if ref_steps[k] != len(sc["steps"]) - 1:
                    exact_next = None      # a later add_type allocated ids
            snaps.append((in_g, in_next, lo, hi, bidx, post_g, post_bidx, exact_next))
            exprs.append("run_case %s %s %d %d %d" % (coq_graph(in_g, rev), coq_bidx(bidx), in_next, lo, hi))
        sc["_snaps"] = snaps
        finals.append(si)
        exprs.append("check_case %s" % coq_graph(sc["_final"][0]))
    model3 = eval_model("c07_k3", exprs)
    ctx.log("K3 model done:", len(exprs), "evaluations")
    per_case = {}
    if model3 is not None:
        it = iter(model3)
        for si in finals:
            per_case[si] = ([next(it) for _ in scases[si]["_snaps"]], next(it))
    mism3, hyp3, chk3 = [], [], []
    n_snap = n_cyc3 = n_box3 = n_nobox_expected = n_bound_from_model = 0
    for si in finals:
        sc = scases[si]
        fin_g = sc["_final"][0]
        inp = {"steps": sc["steps"]}
        if sc.get("settings"):
            inp["settings"] = sc["settings"]
        size = len(fin_g)
        mres = per_case.get(si)
        fin_tampered = False
        for k, (in_g, in_next, lo, hi, bidx, post_g, post_bidx, exact_next) in enumerate(sc["_snaps"]):
            n_snap += 1
            m = parse_model(mres[0][k], rev) if mres else None
            if sc.get("_shrunk") and k == len(sc["_snaps"]) - 1 and m and m["r"] == "ok":
                # emulated mutation: what the code would leave behind had it used the shrunken range
                post_g, post_bidx, exact_next = dict(m["g"]), dict(m["bidx"]), m["next"]
                fin_g = dict(m["g"])
                fin_tampered = True
                n_tampered += 1
            bound = exact_next
            if bound is None:
                # ids were allocated by a later add_type: the state right after break_cycles ends at the model's next
                if not (m and m["r"] == "ok"):
                    continue
                bound = m["next"]
                n_bound_from_model += 1
            pg = {i: nd for i, nd in post_g.items() if i < bound}
            pb = {t: b for t, b in post_bidx.items() if b < bound}
            pg, bound, tampered = tamper(in_g, in_next, lo, hi, pg, bound)
            if tampered:
                n_tampered += 1
                if k == len(sc["_snaps"]) - 1:
                    fin_g = dict(fin_g)
                    fin_g.update(pg)
                    fin_tampered = True
            if find_cycle(in_g, range(lo, hi)) is not None:
                n_cyc3 += 1
                ctx.nontrivial.add("K3|%d..%d|%d|%s" % (lo, hi, in_next, show_graph(in_g)))
            for (kind, obs, exp) in check_break(in_g, in_next, lo, hi, pg, bound if exact_next is not None else None):
                failures.append({"kind": kind, "input": inp, "snapshot": k, "observed": obs, "expected": exp, "size": size,
                                 "pre": show_graph(in_g), "post": show_graph(pg), "note": sc.get("note")})
            if m is not None:
                if m["r"] != "ok" or not m["wf"] or not m["closed"]:
                    hyp3.append({"input": inp, "snapshot": k, "model": mres[0][k][:300]})
                elif m["g"] != pg or m["next"] != bound or m["bidx"] != pb:
                    mism3.append({"input": inp, "snapshot": k, "note": sc.get("note"),
                                  "impl": "next=%s bidx=%s g=%s" % (bound, sorted(pb.items()), show_graph(pg)),
                                  "model": "next=%d bidx=%s g=%s" % (m["next"], sorted(m["bidx"].items()), show_graph(m["g"]))})
        # oracles on the final dump
        cyc = find_cycle(fin_g, sorted(fin_g))
        if cyc is not None:
            failures.append({"kind": "final-ir-has-by-value-cycle", "input": inp,
                             "observed": "by-value cycle " + " -> ".join(
                                 "%s(#%d)" % (sc["_names"].get(i, "?"), i) for i in cyc),
                             "expected": "whole by-value graph of the final type space acyclic", "size": size,
                             "final": show_graph(fin_g), "note": sc.get("note")})
        elif not fin_tampered:
            scyc = find_cycle(sc["_spec"], sorted(sc["_spec"]))
            if scyc is not None:
                failures.append({"kind": "containment-through-native-type-parameter", "input": inp,
                                 "observed": "cycle %s through the inline type parameter of a native type; final: %s; natives: %s"
                                 % ("->".join(map(str, scyc)), show_graph(fin_g),
                                    {i: "T" + str(list(nd[1])) for i, nd in sc["_spec"].items() if fin_g.get(i, ("L",))[0] == "X"}),
                                 "expected": "every containment cycle passes through a Box (or the schema is rejected)",
                                 "size": size, "note": sc.get("note")})
        if mres is not None and not fin_tampered:
            # check_case prints the proven checker on the code's relation and on the conservative SPEC relation
            mc = re.match(r"^acyclic=([01])(?: spec_acyclic=([01]))?$", mres[1])
            my_spec = find_cycle(spec_conservative(fin_g), sorted(fin_g)) is None
            if cyc is None and not (mc and mc.group(1) == "1"):
                # the Coq-evaluated validator decides the property on the final IR, whatever range the Rust chose
                failures.append({"kind": "final-ir-cycle-by-proven-checker", "input": inp, "observed": mres[1],
                                 "expected": "acyclic_check (Coq; C07_acyclic_check_sound) accepts the whole final type space",
                                 "size": size, "final": show_graph(fin_g), "note": sc.get("note")})
            if not mc or mc.group(1) != "1" or (mc.group(2) is not None and (mc.group(2) == "1") != my_spec):
                chk3.append({"input": inp, "check_case": mres[1], "dfs_spec_acyclic": my_spec, "final": show_graph(fin_g)})
        boxes = [i for i, nd in fin_g.items() if nd[0] == "B"]
        n_box3 += len(boxes)
        if sc["abs"].get("by_value_cycle") is False:
            n_nobox_expected += 1
            if boxes:
                failures.append({"kind": "box-without-schema-cycle", "input": inp,
                                 "observed": "Box entries %s in %s" % (boxes, show_graph(fin_g)),
                                 "expected": "no boxed member: the definitions contain no containment cycle "
                                             "(no cycle over required/optional/nullable/tuple/fixed-array/alias/variant edges)",
                                 "size": size, "note": sc.get("note")})
    n_k3 = len(scases)
    ctx.evaluations += len(exprs) + n_k3
    if model3 is not None:
        ctx.oblige("correspondence K3: break_cycles (Coq model) on the pre-snapshot = state after the real break_cycles, "
                   "%d snapshots of %d schema histories" % (n_snap, len(finals)), not mism3,
                   "%d mismatches; first: %s" % (len(mism3), json.dumps(mism3[:2])))
        ctx.oblige("K3: theorem hypotheses wf=1 closed=1 hold (and the model neither panics nor runs out of fuel) "
                   "on every real pre-break_cycles snapshot (%d)" % n_snap, not hyp3, json.dumps(hyp3[:2]))
        ctx.oblige("proven checker acyclic_check accepts every real output graph (%d final type spaces) and "
                   "spec_acyclic_check agrees with the independent DFS over the conservative SPEC relation" % len(finals),
                   not chk3, json.dumps(chk3[:2]))
    else:
        ctx.oblige("correspondence K3 (model could not be evaluated)", False, "")
    ctx.oblige("K3: the range handed to break_cycles covers every reference type the call created (all definitions and "
               "the titled root; lib.rs add_ref_types_impl/add_root_schema), %d calls" % n_snap, not range_bad,
               json.dumps(range_bad[:2]))
    ctx.coverage["K3_range_misses"] = len(range_bad)

    # ---- rustc cross-check (E0072) on a sample of the real generated modules
    if not EMULATE or EMULATE == "compile-only":
        r3c = random.Random(ctx.seed * 7919 + 3)
        cyc_cases = [si for si in finals if scases[si]["mode"] not in ("corpus",) and not scases[si].get("titled")
                     and scases[si]["abs"].get("by_value_cycle")]
        r3c.shuffle(cyc_cases)
        titled_cases = [si for si in finals if scases[si].get("titled") and scases[si]["mode"] != "corpus"]
        r3c.shuffle(titled_cases)
        pick_ix = [si for si in finals if scases[si]["mode"] == "corpus"] \
            + titled_cases[:(150 if thorough else 40)] + cyc_cases[:(150 if thorough else 30)]
        picks = [(scases[si].get("note") or "%s#%d" % (scases[si]["mode"], si), scases[si]) for si in pick_ix]
        expect = tuple(lbl for (lbl, c) in picks if "finding_c07_2" in lbl)
        try:
            rfail, rinfo = rustc_crosscheck(ctx, picks, expect)
        except Exception as e:  # noqa
            rfail, rinfo = [], {"ran": False, "exception": repr(e)}
        ctx.coverage["rustc_crosscheck"] = rinfo
        ctx.oblige("rustc cross-check ran: cargo check of %d generated modules (%d compiled clean)" % (
            rinfo.get("modules", 0), rinfo.get("modules_compiled_clean", 0)), bool(rinfo.get("ran")),
            json.dumps(rinfo)[:1500])
        failures.extend(rfail)
        ctx.evaluations += rinfo.get("modules", 0)
        ctx.log("rustc cross-check:", json.dumps(rinfo)[:400])
    ctx.oblige("K3: generator keeps rejected schema histories a small fraction (%d of %d skipped)" % (len(skipped), n_k3),
               len(skipped) * 5 <= n_k3, json.dumps(skip_reasons))
    ctx.coverage.update({
        "K3_schema_histories": n_k3, "K3_skipped_not_ok": len(skipped), "K3_skip_reasons": skip_reasons,
        "K3_snapshots": n_snap, "K3_snapshots_with_reachable_cycle": n_cyc3,
        "K3_snapshots_bounded_by_model_next_(later_add_type)": n_bound_from_model, "K3_box_entries_in_final_dumps": n_box3,
        "K3_histories_expected_without_box": n_nobox_expected, "K3_mode_distribution": mode_dist,
        "K3_definition_kind_distribution": k3_dk, "K3_edge_kind_distribution": k3_ek, "K3_mismatches": len(mism3),
        "emulated_mutation": EMULATE or None, "tampered_answers": n_tampered,
        "rule": ("K2: definitions 0..n-1 with 5 node kinds, 7(+set) edge kinds through shared/unshared unnamed nodes: "
                 "n=1 all sequences of <=2 self edges, n=2 all 8^4 edge configs (struct x struct exhaustive; all 25 kind "
                 "pairs exhaustive in thorough, sampled in quick), n=3 over {none,direct,option} (exhaustive in thorough), "
                 "random n<=8 with mixed enums, duplicate slots, two-level wrappers, pre-existing Box entries, id gaps, "
                 "partial ranges; K3: schema histories generated from an abstract definition graph (struct / alias / "
                 "wrapper newtype / externally tagged enum / untagged enum; required, optional, nullable oneOf/anyOf, "
                 "tuple, fixed array, vec, set, map edges; root docs, titled roots with $ref '#', add_ref_types, two "
                 "batches; a dedicated stream of TITLED self-referential roots ({$ref:#} as direct/optional/nullable/tuple/"
                 "fixed-array field, inside enum variants, as newtype, through one definition and back, with/without "
                 "`definitions`, several add_root_schema/add_ref_types calls in one space); a sample of real modules is "
                 "compiled (rustc E0072 cross-check); two "
                 "batches, trailing add_type); the random schema stream is free of finding C07-1's class by construction: "
                 "definition names come from a fixed list of single words, property/variant names are p<i>/f<i>/v<i>/x<i>/v "
                 "and no inline named object is generated, so no derived name parent+Pascal(prop) can equal a definition's "
                 "type name; nor does it generate x-rust-type (finding C07-2's class); both classes are represented by their "
                 "witnesses in the curated corpus; "
                 "nontrivial = distinct inputs with a by-value cycle reachable from the roots"),
    })
    for si in finals[:40]:
        if len(ctx.samples) >= 12:
            break
        if scases[si]["mode"] != "corpus":
            ctx.samples.append({"channel": "K3", "mode": scases[si]["mode"], "steps": scases[si]["steps"],
                                "final": show_graph(scases[si]["_final"][0])})
    ctx.log("K3 compared: %d snapshots, %d with cycle, %d skipped histories, %d mismatches" % (
        n_snap, n_cyc3, len(skipped), len(mism3)))

    # =====================================================================
    # verdict
    # =====================================================================
    unlisted = []
    for v in failures:
        f = known_match(ctx, v)
        if f:
            ctx.known_finding(f["id"], "%s: %s (e.g. %s)" % (f["id"], f["summary"], json.dumps(v["input"], sort_keys=True)))
        else:
            unlisted.append(v)
    kinds = {}
    for v in unlisted:
        bump(kinds, v["kind"])
    ctx.coverage["direct_oracle_failures"] = kinds
    ctx.oblige("direct property evaluation (own DFS oracle) on %d break_cycles calls + %d final type spaces: "
               "no unlisted violation" % (n_k2 + n_snap, len(finals)), not unlisted,
               json.dumps(kinds) + " " + json.dumps(unlisted[:2], default=str)[:1500])
    if unlisted:
        unlisted.sort(key=lambda v: (v.get("size", 99), len(json.dumps(v["input"]))))
        v = dict(unlisted[0])
        v["failures_by_kind"] = kinds
        v["broken_obligations"] = [o[0] for o in ctx.broken()]
        ctx.violation(v)
    elif ctx.broken():
        ctx.violation({"broken_obligations": [(o[0], o[2][:1500]) for o in ctx.broken()],
                       "note": "a theorem or the model/implementation correspondence no longer checks; the direct "
                               "oracle found no failing input"}, no_input=True)

    if thorough and coq_ok:
        rc, out, err = vlib.sh("timeout 1500 coqchk -silent -o -Q theories Typify Typify.Props.C07", cwd=vlib.COQ,
                               timeout=1600)
        ctx.oblige("coqchk re-checks Props.C07 and dependencies", rc == 0, (out + err)[-1500:])
        ctx.coverage["coqchk_output_tail"] = (out + err)[-1200:]
