"""C12 — generated output is a deterministic function of settings and schema.

Deciding method: Coq theorems (Props/C12.v) over Algo/HashOrder.v — every
hash-ordered collection of the sources is invariant under the hasher, sorted
maps erase insertion order, OutputSpace sees insertion order only within one
key — tied to /repo by (T3) an inventory of every HashMap/HashSet/RandomState/
env/time/thread/rand mention regenerated with syn on every run
(Gen/HashSites.v; `C12_hash_sites_covered` is recompiled over it), (K1) model
vs. implementation on generated inputs for parse_obj and the is_subset site,
and (direct) byte comparison of the real generator's output across fresh
processes x key-order permutations x whitespace variants, plus repeated
rendering in one process.  Process-level nondeterminism cannot be exhibited by
a theorem: the inventory + multi-process comparison are what cover it.
"""
import glob
import json
import os
import random
from concurrent.futures import ThreadPoolExecutor

import vlib

THEOREMS = [
    "C12_hash_sites_covered",
    "C12_known_sites_present",
    "C12_unique_order_irrelevant",
    "C12_unique_is_nodup",
    "C12_variant_names_order_irrelevant",
    "C12_subset_order_irrelevant",
    "C12_mutually_exclusive_order_irrelevant",
    "C12_counts_order_irrelevant",
    "C12_macro_impls_vec_determined_by_set",
    "C12_macro_impls_dedup_deterministic",
    "C12_macro_impls_hashset_regression_witness",
    "C12_macro_patch_replace_order_irrelevant",
    "C12_macro_crates_order_irrelevant",
    "C12_macro_crates_refuted",
    "C12_filling_stack_balanced",
    "C12_filling_renderings_independent",
    "C12_filling_fuel_monotone",
    "C12_filling_address_irrelevant",
    "C12_parse_perm",
    "C12_output_sorted",
    "C12_output_perm_distinct_keys",
    "C12_output_same_key_order_matters",
    "C12_to_stream_insert_history_irrelevant",
    "C12_output_same_key_arrival_order_by_id",
    "C12_output_hash_ordered_ids_observable",
    "C12_render_twice",
]
GEN_V = os.path.join(vlib.COQ, "theories", "Gen", "HashSites.v")
CORPUS = os.path.join(vlib.ROOT, "corpus", "C12")
N_PROC = 8

# ---------------------------------------------------------------------------
# raw-preserving JSON: permute object members, vary whitespace / escapes; number
# tokens are kept verbatim (so the content is the same document)
# ---------------------------------------------------------------------------


class Num(str):
    pass


class Obj(list):
    pass


def load_raw(text):
    return json.loads(text, object_pairs_hook=Obj, parse_float=Num, parse_int=Num, parse_constant=Num)


def has_dup_keys(v):
    if isinstance(v, Obj):
        ks = [k for k, _ in v]
        return len(set(ks)) != len(ks) or any(has_dup_keys(x) for _, x in v)
    if isinstance(v, list):
        return any(has_dup_keys(x) for x in v)
    return False


def count_objects(v):
    if isinstance(v, Obj):
        return (1 if len(v) > 1 else 0) + sum(count_objects(x) for _, x in v)
    if isinstance(v, list):
        return sum(count_objects(x) for x in v)
    return 0


STYLES = ("compact", "pretty", "spaced", "wild")


def dump_raw(v, order, style, rnd, ascii_esc=False, depth=0):
    """order: 'keep' | 'sorted' | 'reversed' | 'random' (object members only; arrays keep their order)."""
    def ws():
        if style == "wild":
            return rnd.choice(["", " ", "\n", "\t", " \r\n ", "  "])
        return ""
    if isinstance(v, Obj):
        items = list(v)
        if order == "sorted":
            items.sort(key=lambda kv: kv[0])
        elif order == "reversed":
            items.sort(key=lambda kv: kv[0], reverse=True)
        elif order == "random":
            rnd.shuffle(items)
        parts = []
        for k, x in items:
            ks = json.dumps(k, ensure_ascii=ascii_esc)
            vs = dump_raw(x, order, style, rnd, ascii_esc, depth + 1)
            if style == "compact":
                parts.append(ks + ":" + vs)
            elif style == "pretty":
                parts.append("\n" + "  " * (depth + 1) + ks + ": " + vs)
            elif style == "spaced":
                parts.append(ks + " : " + vs)
            else:
                parts.append(ws() + ks + ws() + ":" + ws() + vs + ws())
        if style == "pretty":
            return "{" + ",".join(parts) + ("\n" + "  " * depth if parts else "") + "}"
        if style == "spaced":
            return "{ " + " , ".join(parts) + " }"
        return "{" + ",".join(parts) + "}"
    if isinstance(v, list):
        parts = [dump_raw(x, order, style, rnd, ascii_esc, depth + 1) for x in v]
        if style == "pretty":
            return "[" + ",".join("\n" + "  " * (depth + 1) + p for p in parts) + ("\n" + "  " * depth if parts else "") + "]"
        if style == "spaced":
            return "[ " + " , ".join(parts) + " ]"
        if style == "wild":
            return "[" + ",".join(ws() + p + ws() for p in parts) + "]"
        return "[" + ",".join(parts) + "]"
    if isinstance(v, Num):
        return str(v)
    if isinstance(v, str):
        return json.dumps(v, ensure_ascii=ascii_esc)
    return json.dumps(v)


def variant(text, raw, p, seed):
    """the document as process p sees it (p = 0: the original bytes)"""
    rnd = random.Random("%s/%d" % (seed, p))
    if p == 0 or raw is None:
        return text, "original"
    plan = {1: ("sorted", "compact", False), 2: ("reversed", "pretty", True), 3: ("random", "spaced", False)}
    order, style, esc = plan.get(p, ("random", rnd.choice(STYLES), rnd.random() < 0.5))
    return dump_raw(raw, order, style, rnd, esc), "%s/%s%s" % (order, style, "/ascii-escapes" if esc else "")


# ---------------------------------------------------------------------------
# schema generator: many properties / variants / definitions
# ---------------------------------------------------------------------------
WORDS = ("alpha beta gamma delta epsilon zeta eta theta iota kappa lambda mu nu xi omicron pi rho sigma tau upsilon "
         "phi chi psi omega red green blue cyan magenta yellow black white orange purple north south east west up "
         "down left right inner outer first second third fourth fifth sixth").split()


def gen_name(rnd, used, style=None):
    for _ in range(100):
        n = rnd.choice(WORDS)
        if rnd.random() < 0.5:
            n += rnd.choice(["_", "-", ""]) + rnd.choice(WORDS)
        if rnd.random() < 0.2:
            n += str(rnd.randrange(100))
        st = style or rnd.choice(["snake", "camel", "kebab", "upper"])
        if st == "camel":
            n = "".join(w.capitalize() for w in n.replace("-", "_").split("_"))
        elif st == "upper":
            n = n.upper().replace("-", "_")
        elif st == "snake":
            n = n.replace("-", "_")
        key = n.lower().replace("-", "").replace("_", "")
        if key not in used:
            used.add(key)
            return n
    raise RuntimeError("names exhausted")


def gen_simple(rnd, defs_names, depth):
    r = rnd.random()
    if r < 0.2:
        s = {"type": "string"}
        if rnd.random() < 0.3:
            s["format"] = rnd.choice(["uuid", "date-time", "date", "ipv4", "uri"])
        elif rnd.random() < 0.2:
            s["maxLength"] = rnd.randrange(1, 40)
        elif rnd.random() < 0.15:
            s["pattern"] = "^[a-z]{%d}$" % rnd.randrange(1, 9)
        if rnd.random() < 0.2 and "format" not in s and "pattern" not in s and "maxLength" not in s:
            s["default"] = rnd.choice(WORDS)
        return s
    if r < 0.35:
        s = {"type": "integer"}
        if rnd.random() < 0.5:
            s["format"] = rnd.choice(["int32", "uint8", "int64", "uint64", "uint32"])
        if rnd.random() < 0.3:
            s["minimum"] = rnd.choice([0, 1])
        if rnd.random() < 0.2:
            s["default"] = rnd.randrange(1, 100)
        return s
    if r < 0.42:
        return {"type": "boolean", **({"default": rnd.random() < 0.5} if rnd.random() < 0.3 else {})}
    if r < 0.47:
        return {"type": "number"}
    if r < 0.62 and defs_names:
        return {"$ref": "#/definitions/" + rnd.choice(defs_names)}
    if r < 0.72:
        return {"type": "array", "items": gen_simple(rnd, defs_names, depth + 1),
                **({"uniqueItems": True} if rnd.random() < 0.2 else {})}
    if r < 0.78:
        return {"type": "object", "additionalProperties": gen_simple(rnd, defs_names, depth + 1)}
    if r < 0.84:
        return {"type": ["string", "null"]}
    if r < 0.92 and depth < 2:
        return gen_object(rnd, defs_names, depth + 1, rnd.randrange(1, 5))
    return gen_string_enum(rnd, rnd.randrange(2, 6))


def gen_string_enum(rnd, n):
    used = set()
    vals = [gen_name(rnd, used) for _ in range(n)]
    s = {"type": "string", "enum": vals}
    if rnd.random() < 0.2:
        s["default"] = rnd.choice(vals)
    return s


def gen_object(rnd, defs_names, depth, nprops):
    used = set()
    props = {}
    for _ in range(nprops):
        props[gen_name(rnd, used)] = gen_simple(rnd, defs_names, depth)
    names = list(props)
    rnd.shuffle(names)
    req = names[: rnd.randrange(0, len(names) + 1)]
    s = {"type": "object", "properties": props}
    if req:
        s["required"] = req
    if rnd.random() < 0.25:
        s["additionalProperties"] = False
    if rnd.random() < 0.3:
        s["description"] = " ".join(rnd.choice(WORDS) for _ in range(rnd.randrange(2, 8)))
    return s


def gen_tagged(rnd, defs_names, nvar):
    """oneOf of objects with one or two constant-valued required properties (tag choice: enums.rs:340-356;
    mutual exclusivity: util.rs:363-379)"""
    used = set()
    tags = [gen_name(rnd, used, "snake") for _ in range(rnd.choice([1, 1, 2, 3]))]
    vused = set()
    subs = []
    for _ in range(nvar):
        o = gen_object(rnd, defs_names, 1, rnd.randrange(0, 4))
        for t in tags:
            o["properties"][t] = {"type": "string", "enum": [gen_name(rnd, vused)]}
        o["required"] = sorted(set(o.get("required", []) + tags), key=lambda x: rnd.random())
        subs.append(o)
    return {"oneOf": subs}


def gen_untagged(rnd, defs_names, nvar):
    subs = []
    for _ in range(nvar):
        subs.append(gen_simple(rnd, defs_names, 1))
    return {rnd.choice(["oneOf", "anyOf"]): subs}


def gen_external(rnd, defs_names, nvar):
    used = set()
    subs = []
    for _ in range(nvar):
        n = gen_name(rnd, used)
        if rnd.random() < 0.4:
            subs.append({"type": "string", "enum": [n]})
        else:
            subs.append({"type": "object", "properties": {n: gen_simple(rnd, defs_names, 1)}, "required": [n],
                         "additionalProperties": False})
    return {"oneOf": subs}


def gen_doc(rnd, size):
    used = set()
    ndefs = rnd.randrange(2, 6) if size == "small" else rnd.randrange(8, 40)
    names = [gen_name(rnd, used, "camel") for _ in range(ndefs)]
    defs = {}
    for n in names:
        r = rnd.random()
        big = size != "small"
        if r < 0.4:
            defs[n] = gen_object(rnd, names, 0, rnd.randrange(1, 30 if big else 6))
        elif r < 0.55:
            defs[n] = gen_string_enum(rnd, rnd.randrange(2, 30 if big else 6))
        elif r < 0.7:
            defs[n] = gen_tagged(rnd, names, rnd.randrange(2, 8 if big else 4))
        elif r < 0.8:
            defs[n] = gen_untagged(rnd, names, rnd.randrange(2, 5))
        elif r < 0.9:
            defs[n] = gen_external(rnd, names, rnd.randrange(2, 8 if big else 4))
        elif r < 0.95:
            a = gen_object(rnd, names, 0, rnd.randrange(1, 4))
            b = gen_object(rnd, names, 0, rnd.randrange(1, 4))
            defs[n] = {"allOf": [a, b]}
        else:
            defs[n] = gen_simple(rnd, names, 0)
    doc = {"$schema": "http://json-schema.org/draft-07/schema#", "definitions": defs}
    if rnd.random() < 0.5:
        doc.update(gen_object(rnd, names, 0, rnd.randrange(1, 6)))
        doc["title"] = gen_name(rnd, used, "camel")
    return doc


# ---------------------------------------------------------------------------
# defaults family: a DEFAULT value on every IR kind value.rs `output_value` /
# defaults.rs handle (Set, Vec, Map, Struct, Tuple, Array, Enum in all four
# tag styles, Newtype, Option, Box, Native, JsonValue, scalars), collections
# with >= 4 items so that an unordered iteration cannot hide
# ---------------------------------------------------------------------------
def _words(rnd, n):
    return rnd.sample(WORDS, n)


def gen_defaults_doc(rnd, all_kinds=False):
    colors = _words(rnd, rnd.randrange(4, 9))
    k_int, k_ext = rnd.choice(["kind", "type", "tag"]), _words(rnd, 2)
    defs = {
        "Color": {"type": "string", "enum": colors},
        "Name": {"type": "string", "maxLength": 40, "minLength": 1},
        "Inner": {"type": "object", "properties": {
            "label": {"type": "string", "default": rnd.choice(WORDS)},
            "count": {"type": "integer", "default": rnd.randrange(1, 99)},
            "tags": {"type": "array", "uniqueItems": True, "items": {"type": "string"}, "default": _words(rnd, rnd.randrange(4, 8))},
            "weights": {"type": "object", "additionalProperties": {"type": "integer"},
                        "default": {w: i for i, w in enumerate(_words(rnd, rnd.randrange(4, 8)))}},
        }},
        "Shape": {"oneOf": [
            {"type": "object", "properties": {k_int: {"type": "string", "enum": ["circle"]}, "r": {"type": "number"},
                                              "marks": {"type": "array", "uniqueItems": True, "items": {"type": "integer"}}},
             "required": [k_int, "r"]},
            {"type": "object", "properties": {k_int: {"type": "string", "enum": ["square"]}, "side": {"type": "integer"}},
             "required": [k_int, "side"]}]},
        "Ext": {"oneOf": [
            {"type": "string", "enum": [k_ext[0]]},
            {"type": "object", "properties": {k_ext[1]: {"type": "array", "uniqueItems": True, "items": {"type": "integer"}}},
             "required": [k_ext[1]], "additionalProperties": False},
            {"type": "object", "properties": {"pair": {"type": "array", "items": [{"type": "integer"}, {"type": "string"}],
                                                       "minItems": 2, "maxItems": 2}},
             "required": ["pair"], "additionalProperties": False}]},
        "Unt": {"anyOf": [{"type": "integer"}, {"type": "array", "items": {"type": "string"}}]},
        "Node": {"type": "object", "properties": {"next": {"$ref": "#/definitions/Node"}, "v": {"type": "integer"}}},
    }
    ints = lambda n: rnd.sample(range(1, 200), n)
    n4 = lambda: rnd.randrange(4, 10)
    inner_val = lambda: {"label": rnd.choice(WORDS), "count": rnd.randrange(1, 50), "tags": _words(rnd, n4()),
                         "weights": {w: i for i, w in enumerate(_words(rnd, n4()))}}
    kinds = {
        "set_s": lambda: {"type": "array", "uniqueItems": True, "items": {"type": "string"}, "default": _words(rnd, n4())},
        "set_i": lambda: {"type": "array", "uniqueItems": True, "items": {"type": "integer"}, "default": ints(n4())},
        "set_enum": lambda: {"type": "array", "uniqueItems": True, "items": {"$ref": "#/definitions/Color"},
                             "default": rnd.sample(colors, 4)},
        "set_any": lambda: {"type": "array", "uniqueItems": True, "default": ints(4) + _words(rnd, 2)},
        "vec_s": lambda: {"type": "array", "items": {"type": "string"}, "default": _words(rnd, n4())},
        "vec_i": lambda: {"type": "array", "items": {"type": "integer"}, "default": ints(n4())},
        "vec_set": lambda: {"type": "array", "items": {"type": "array", "uniqueItems": True, "items": {"type": "integer"}},
                            "default": [ints(4), ints(5), ints(4)]},
        "vec_struct": lambda: {"type": "array", "items": {"$ref": "#/definitions/Inner"}, "default": [inner_val(), inner_val()]},
        "map_i": lambda: {"type": "object", "additionalProperties": {"type": "integer"},
                          "default": {w: i for i, w in enumerate(_words(rnd, n4()))}},
        "map_s": lambda: {"type": "object", "additionalProperties": {"type": "string"},
                          "default": {w: rnd.choice(WORDS) for w in _words(rnd, n4())}},
        "map_set": lambda: {"type": "object", "additionalProperties": {"type": "array", "uniqueItems": True, "items": {"type": "string"}},
                            "default": {w: _words(rnd, 4) for w in _words(rnd, 4)}},
        "map_struct": lambda: {"type": "object", "additionalProperties": {"$ref": "#/definitions/Inner"},
                               "default": {w: inner_val() for w in _words(rnd, 4)}},
        "tuple": lambda: {"type": "array", "items": [{"type": "integer"}, {"type": "string"}, {"type": "boolean"},
                                                     {"type": "array", "uniqueItems": True, "items": {"type": "string"}}],
                          "minItems": 4, "maxItems": 4, "default": [rnd.randrange(9), rnd.choice(WORDS), True, _words(rnd, 4)]},
        "array4": lambda: {"type": "array", "items": {"type": "integer"}, "minItems": 4, "maxItems": 4, "default": ints(4)},
        "enum": lambda: {"$ref": "#/definitions/Color", "default": rnd.choice(colors)},
        "struct": lambda: {"$ref": "#/definitions/Inner", "default": inner_val()},
        "newtype": lambda: {"$ref": "#/definitions/Name", "default": rnd.choice(WORDS)},
        "opt_set": lambda: {"type": ["array", "null"], "uniqueItems": True, "items": {"type": "string"}, "default": _words(rnd, n4())},
        "opt_map": lambda: {"type": ["object", "null"], "additionalProperties": {"type": "integer"},
                            "default": {w: i for i, w in enumerate(_words(rnd, n4()))}},
        "internal": lambda: {"$ref": "#/definitions/Shape",
                             "default": rnd.choice([{k_int: "square", "side": 3}, {k_int: "circle", "r": 1.5, "marks": ints(5)}])},
        "external": lambda: {"$ref": "#/definitions/Ext",
                             "default": rnd.choice([k_ext[0], {k_ext[1]: ints(5)}, {"pair": [7, "seven"]}])},
        "untagged": lambda: {"$ref": "#/definitions/Unt", "default": rnd.choice([5, _words(rnd, 4)])},
        "boxed": lambda: {"$ref": "#/definitions/Node", "default": {"v": 1, "next": {"v": 2, "next": {"v": 3}}}},
        "any": lambda: {"default": {w: rnd.choice([1, [1, 2, 3], {"b": 1, "a": 2}, "s", None]) for w in _words(rnd, n4())}},
        "bool": lambda: {"type": "boolean", "default": True},
        "float": lambda: {"type": "number", "default": 1.5},
        "uuid": lambda: {"type": "string", "format": "uuid", "default": "00000000-0000-0000-0000-000000000000"},
        "string": lambda: {"type": "string", "default": rnd.choice(WORDS)},
        "u8": lambda: {"type": "integer", "format": "uint8", "default": rnd.randrange(0, 255)},
    }
    names = list(kinds)
    chosen = names if (all_kinds or rnd.random() < 0.35) else rnd.sample(names, rnd.randrange(4, 14))
    props = {}
    for k in chosen:
        props["%s_%s" % (k, rnd.choice(WORDS))] = kinds[k]()
    defs["Holder"] = {"type": "object", "properties": props}
    # defaults on named definitions (newtype / struct level `impl Default`)
    if all_kinds or rnd.random() < 0.6:
        defs["TagSet"] = {"type": "array", "uniqueItems": True, "items": {"type": "string"}, "default": _words(rnd, n4())}
    if all_kinds or rnd.random() < 0.6:
        defs["Weights"] = {"type": "object", "additionalProperties": {"type": "integer"},
                           "default": {w: i for i, w in enumerate(_words(rnd, n4()))}}
    if all_kinds or rnd.random() < 0.5:
        defs["Settings"] = {"type": "object", "properties": {"inner": {"$ref": "#/definitions/Inner"}, "names": kinds["set_s"]()},
                            "default": {"inner": inner_val(), "names": _words(rnd, 4)}}
    return {"$schema": "http://json-schema.org/draft-07/schema#", "definitions": defs}, sorted(chosen)


# ---------------------------------------------------------------------------
# recursive types with member defaults (value.rs FILLING stack: fd85c79 / 4ed7b48)
# ---------------------------------------------------------------------------
REC_DOCS = {
    "recdef": {"definitions": {"T": {"type": "object", "properties": {
        "kids": {"type": "array", "items": {"$ref": "#/definitions/T"}, "default": []},
        "next": {"$ref": "#/definitions/T", "default": {"kids": []}}}}}},
    "recn": {"definitions": {"RecN": {"type": "object", "properties": {
        "left": {"$ref": "#/definitions/RecN", "default": {}}, "right": {"$ref": "#/definitions/RecN", "default": {}},
        "v": {"type": "integer", "default": 3}}}}},
    "mutual": {"definitions": {
        "A": {"type": "object", "properties": {"b": {"$ref": "#/definitions/B", "default": {"tags": ["x", "y"]}},
                                                "n": {"type": "integer", "default": 1}}},
        "B": {"type": "object", "properties": {"a": {"$ref": "#/definitions/A", "default": {"n": 5}},
                                                "tags": {"type": "array", "items": {"type": "string"}, "uniqueItems": True,
                                                         "default": ["p", "q", "r", "s"]}}},
        "H": {"type": "object", "properties": {"a": {"$ref": "#/definitions/A", "default": {}},
                                                "b": {"$ref": "#/definitions/B", "default": {}}}}}},
}
# a space whose rendering PANICS on the unchanged tree (finding C01-11: patch rename `my type` -> format_ident!),
# with recursive member defaults in the same space
PANIC_CASE = ({"patch": {"A": {"rename": "my type"}}},
              {"definitions": dict(REC_DOCS["recn"]["definitions"],
                                   A={"type": "object", "properties": {"a": {"type": "string"},
                                                                        "r": {"$ref": "#/definitions/RecN", "default": {}}}})})


def gen_rec_doc(rnd):
    """random recursive / mutually recursive structs whose members default to values of the recursive types.
    (The rendered default grows exponentially with the number of recursive defaulted members - every member default not
    already in progress is expanded again - so at most 4 of them per document.)"""
    n = rnd.randrange(1, 3)
    names = ["R%d" % i for i in range(n)]
    defs = {}
    budget = 4
    for nm in names:
        props = {}
        for j in range(rnd.randrange(1, 3)):
            if budget == 0:
                break
            budget -= 1
            tgt = rnd.choice(names)
            dv = rnd.choice([{}, {"v": rnd.randrange(9)}, {"tags": _words(rnd, 4)}])
            props["m%d_%s" % (j, rnd.choice(WORDS))] = {"$ref": "#/definitions/" + tgt, "default": dv}
        if rnd.random() < 0.6:
            props["kids"] = {"type": "array", "items": {"$ref": "#/definitions/" + rnd.choice(names)}, "default": []}
        if rnd.random() < 0.3 and budget > 0:
            budget -= 1
            props["by_name"] = {"type": "object", "additionalProperties": {"$ref": "#/definitions/" + rnd.choice(names)},
                                "default": {w: {} for w in _words(rnd, 2)}}
        props["v"] = {"type": "integer", "default": rnd.randrange(1, 9)}
        props["tags"] = {"type": "array", "uniqueItems": True, "items": {"type": "string"}, "default": _words(rnd, 4)}
        defs[nm] = {"type": "object", "properties": props}
    return {"definitions": defs}


def sequence_check(ctx, viol):
    """render -> (caught panic) -> render sequences on ONE thread vs the same documents alone in fresh processes"""
    rnd = random.Random(ctx.seed * 31 + 77)
    docs = {k: ({}, v) for k, v in REC_DOCS.items()}
    for i in range(4 if ctx.tier == "quick" else 24):
        docs["rec%d" % i] = ({"struct_builder": i % 2 == 0}, gen_rec_doc(rnd))
    docs["panic"] = PANIC_CASE
    names = [k for k in docs if k != "panic"]
    step = lambda k, spaces=1, renders=1: {"name": k, "settings": docs[k][0], "text": json.dumps(docs[k][1]),
                                           "spaces": spaces, "renders": renders}
    seqs = [[step(k, 3, 4)] for k in names]
    seqs.append([step("panic", 2, 2)] + [step(k, 2, 2) for k in names])
    for _ in range(4 if ctx.tier == "quick" else 16):
        order = [rnd.choice(names + ["panic"]) for _ in range(rnd.randrange(3, 9))]
        seqs.append([step(k, rnd.randrange(1, 3), rnd.randrange(1, 4)) for k in order])
    # reference: each document alone, first rendering of a fresh process (two processes each)
    ref_cases = [{"id": k, "settings": docs[k][0], "text": json.dumps(docs[k][1]), "light": True} for k in docs]
    refs = run_parallel([ref_cases, ref_cases])
    ref = {}
    for rs in refs:
        for c, r in zip(ref_cases, rs):
            val = r.get("tokens_digest") if r.get("outcome") == "ok" else r.get("outcome")
            if ref.setdefault(c["id"], val) != val:
                viol.append({"kind": "differs-across-processes-or-encodings", "document": "seq:" + c["id"], "settings": c["settings"],
                             "settings_name": "seq", "run_a": {"process": 0, "encoding": "original", "text": c["text"], "result": refs[0][0]},
                             "run_b": {"process": 1, "encoding": "original", "text": c["text"], "result": r}})
    res = run_parallel([[{"id": i, "op": "seq", "steps": sq}] for i, sq in enumerate(seqs)])
    n_renders, bad = 0, []
    for sq, rs in zip(seqs, res):
        for st, out in zip(sq, rs[0]["steps"]):
            for o in out["outs"]:
                n_renders += 1
                if o != ref[st["name"]]:
                    bad.append({"sequence": [x["name"] for x in sq], "step": st["name"], "in_sequence": o[:300],
                                "alone_in_fresh_process": (ref[st["name"]] or "")[:300]})
    if os.environ.get("C12_EMULATE") == "seq":
        bad.append({"emulated": True})
    ctx.oblige("direct: %d renderings in %d same-thread sequences (recursive member defaults, repeated renderings, fresh "
               "spaces, after a caught render panic) equal the document alone in a fresh process" % (n_renders, len(seqs)),
               not bad, json.dumps(bad[:3]))
    ctx.evaluations += n_renders
    ctx.coverage["sequence_renderings"] = n_renders
    ctx.coverage["sequence_count"] = len(seqs)
    ctx.coverage["sequence_panic_outcome"] = (ref.get("panic") or "")[:160]
    if bad and not bad[0].get("emulated"):
        b = bad[0]
        k = b["step"]
        viol.append({"kind": "rendering-depends-on-what-was-rendered-before-on-the-thread", "document": "seq:" + k,
                     "settings_name": "seq", "settings_of_step": docs[k][0], "sequence": b["sequence"],
                     "sequence_steps": [s_ for s_ in seqs if [x["name"] for x in s_] == b["sequence"]][0],
                     "observed_in_sequence": b["in_sequence"], "expected_alone": b["alone_in_fresh_process"],
                     "replay": "c12 run  <<< {\"op\":\"seq\",\"steps\":sequence_steps}  vs  the step's document alone"})
    return docs


# ---------------------------------------------------------------------------
# same-output-key family: two DIFFERENT types (type ids) filing items under ONE OutputSpace key, so the
# order of arrival (= iteration order of TypeSpace.id_to_entry) is visible in the bytes
# ---------------------------------------------------------------------------
def gen_same_key_doc(rnd, npairs=None):
    cap = lambda w: w.capitalize()
    used = set()

    def fresh(n):
        out = []
        while len(out) < n:
            w = rnd.choice(WORDS)
            if w not in used:
                used.add(w)
                out.append(w)
        return out

    def member(pfx):
        # a member with a non-intrinsic default: its default fn is filed under (Defaults, <type name>)
        r = rnd.random()
        if r < 0.5:
            return {"type": "string", "default": pfx + "-" + rnd.choice(WORDS)}
        if r < 0.8:
            return {"type": "array", "items": {"type": "string"}, "default": [pfx] + _words(rnd, 3)}
        return {"type": "object", "additionalProperties": {"type": "string"}, "default": {pfx: rnd.choice(WORDS)}}

    def tagged(tag, variants):
        subs = []
        for vname, members in variants:
            props = {tag: {"type": "string", "enum": [vname]}}
            props.update(members)
            subs.append({"type": "object", "properties": props, "required": [tag]})
        return {"oneOf": subs}

    defs = {}
    kinds = []
    for _ in range(npairs or rnd.randrange(3, 7)):
        e, v, w, m1, m2 = fresh(5)
        pat = rnd.choice(["variant-vs-struct", "variant-vs-variant", "external-variant-vs-struct"])
        kinds.append(pat)
        tag = rnd.choice(["kind", "type", "t"])
        if pat == "variant-vs-struct":
            # enum E, variant V {m1 default}  and  struct EV {m2 default}: both under key "EV"
            defs[cap(e)] = tagged(tag, [(v, {m1: member("enum")}), ("plain", {})])
            defs[cap(e) + cap(v)] = {"type": "object", "properties": {m2: member("struct")}}
        elif pat == "variant-vs-variant":
            # enum E variant V_W  and  enum EV variant W: both under key "EVW"
            defs[cap(e)] = tagged(tag, [(v + "_" + w, {m1: member("first")}), ("plain", {})])
            defs[cap(e) + cap(v)] = tagged(tag, [(w, {m2: member("second")}), ("plain2", {})])
        else:
            defs[cap(e)] = {"oneOf": [
                {"type": "object", "properties": {cap(v): {"type": "object", "properties": {m1: member("ext")}}},
                 "required": [cap(v)], "additionalProperties": False},
                {"type": "string", "enum": ["unit"]}]}
            defs[cap(e) + cap(v)] = {"type": "object", "properties": {m2: member("struct")}}
    # some unrelated types in between so that the colliding ids are not neighbours
    for _ in range(rnd.randrange(2, 8)):
        (n,) = fresh(1)
        defs[cap(n) + "Pad"] = {"type": "object", "properties": {"p": {"type": "integer"}}}
    return {"definitions": defs}, kinds


# which generator families exercise a source file (used to focus the search when the inventory changes)
FOCUS_BY_FILE = [
    ("value.rs", "defaults"), ("defaults.rs", "defaults"), ("lib.rs", "samekey"), ("output.rs", "samekey"),
    ("type_entry.rs", "samekey"),
    ("structs.rs", "objects"), ("enums.rs", "enums"), ("merge.rs", "allof"), ("util.rs", "enums"),
]


def focus_of(uncovered):
    fams = set()
    for u in uncovered or []:
        f = u.split("|")[0].strip()
        hit = [fam for pat, fam in FOCUS_BY_FILE if f.endswith("/" + pat)]
        if f.endswith(("/lib.rs", "/output.rs", "/type_entry.rs")):
            hit = hit + ["all"]  # the central files: every family, plus the same-output-key family
        fams.update(hit or ["all"])
    return sorted(fams)


SETTINGS = [
    ("default", {}),
    ("builder+derives+BTreeMap", {"struct_builder": True, "derives": ["::schemars::JsonSchema", "PartialEq"],
                                  "map_type": "::std::collections::BTreeMap"}),
    ("IndexMap+derive", {"map_type": "::indexmap::IndexMap", "derives": ["Eq"]}),
    ("builder+HashMap+crates", {"struct_builder": True, "map_type": "::std::collections::HashMap",
                                "unknown_crates": "allow",
                                "crates": [{"name": "std", "version": "1.0.0"}]}),
]


def collect_docs(ctx, focus=()):
    """(name, text) list.  `focus`: generator families to enlarge (inventory changed in the files they exercise)."""
    rnd = random.Random(ctx.seed * 7919 + 12)
    docs = []
    for p in sorted(glob.glob(os.path.join(vlib.REPO, "typify", "tests", "schemas", "*.json"))):
        docs.append(("fixture:" + os.path.basename(p), open(p).read()))
    for extra in ("example.json", "extension-schema.json"):
        p = os.path.join(vlib.REPO, extra)
        if os.path.exists(p):
            docs.append(("fixture:" + extra, open(p).read()))
    if ctx.tier == "thorough":
        for extra in ("typify-impl/tests/vega.json", "typify-impl/tests/github.json"):
            p = os.path.join(vlib.REPO, extra)
            if os.path.exists(p):
                docs.append(("fixture:" + extra, open(p).read()))
    n_gen = 20 if ctx.tier == "quick" else 240
    for i in range(n_gen):
        size = "small" if i % 3 == 0 else "big"
        d = gen_doc(rnd, size)
        style = rnd.choice(STYLES)
        docs.append(("gen:%d:%s" % (i, size), dump_raw(load_raw(json.dumps(d)), "keep", style, rnd)))
    n_sk = (2 if ctx.tier == "quick" else 12) + (30 if ("samekey" in focus or "all" in focus) else 0)
    for i in range(n_sk):
        d, _kinds = gen_same_key_doc(rnd)
        docs.append(("gen:same-output-key:%d" % i, json.dumps(d)))
    for k, d in REC_DOCS.items():
        docs.append(("gen:recursive-defaults:%s" % k, json.dumps(d, indent=1)))
    for i in range(4 if ctx.tier == "quick" else 20):
        docs.append(("gen:recursive-defaults:%d" % i, json.dumps(gen_rec_doc(rnd))))
    n_def = (8 if ctx.tier == "quick" else 40) + (40 if ("defaults" in focus or "all" in focus) else 0)
    for i in range(n_def):
        d, kinds = gen_defaults_doc(rnd)
        docs.append(("gen:%d:defaults" % (n_gen + i), dump_raw(load_raw(json.dumps(d)), "keep", rnd.choice(STYLES), rnd)))
    frnd = random.Random(ctx.seed * 104729 + 5)
    extra_n = 30
    k = n_gen + n_def
    for fam in focus:
        for i in range(extra_n):
            if fam in ("objects", "all"):
                d = {"definitions": {"O%d" % j: gen_object(frnd, [], 0, frnd.randrange(10, 40)) for j in range(3)}}
            elif fam == "enums":
                names = ["E%d" % j for j in range(4)]
                d = {"definitions": {n: frnd.choice([gen_tagged, gen_external, gen_untagged])(frnd, [], frnd.randrange(3, 9))
                                     if j else gen_string_enum(frnd, frnd.randrange(8, 30)) for j, n in enumerate(names)}}
            elif fam == "allof":
                d = {"definitions": {"M%d" % j: {"allOf": [gen_object(frnd, [], 0, frnd.randrange(2, 8)),
                                                           gen_object(frnd, [], 0, frnd.randrange(2, 8))]} for j in range(3)}}
            else:
                continue
            docs.append(("gen:%d:focus-%s" % (k, fam), json.dumps(d)))
            k += 1
    return docs


def corpus_cases():
    out = []
    if os.path.isdir(CORPUS):
        for p in sorted(glob.glob(os.path.join(CORPUS, "*.json"))):
            c = json.load(open(p))
            c["_file"] = os.path.basename(p)
            out.append(c)
    return out


def run_proc(cases):
    alt = os.environ.get("C12_BIN")  # emulation only: a c12 binary built against a MUTATED COPY of /repo
    if not alt:
        return vlib.run_bin("c12", cases, args=("run",), timeout=3000)
    inp = "".join(json.dumps(c) + "\n" for c in cases)
    rc, out, err = vlib.sh([alt, "run"], input=inp, timeout=3000)
    if rc != 0:
        raise RuntimeError("%s failed rc=%s: %s" % (alt, rc, err[-2000:]))
    return [json.loads(l) for l in out.splitlines() if l.strip()]


def run_parallel(batches):
    with ThreadPoolExecutor(max_workers=vlib.NCPU) as ex:
        return list(ex.map(run_proc, batches))


def sig(r):
    return (r.get("outcome"), r.get("tokens_digest"), r.get("pretty_digest"))


# ---------------------------------------------------------------------------
def coq_site_report(ctx):
    """uncovered / missing sites, evaluated by Coq itself on the regenerated table (works even when Props/C12.v fails)"""
    hdr = ("From Typify Require Import Algo.HashOrder Gen.HashSites.\nFrom Coq Require Import String List Bool.\n"
           "Open Scope string_scope.\n"
           "Definition show_site (s : site) : string := s_file s ++ \" | \" ++ s_fn s ++ \" | \" ++ s_kind s ++ \" | \" ++ s_cons s.\n")
    exprs = ['String.concat " ;; " (map show_site (filter (fun s => negb (covered s)) hash_sites))',
             'String.concat " ;; " (map (fun k => show_site (fst k)) (filter (fun k => negb (present hash_sites k)) known_sites))']
    ok, out = vlib.coq_make(["theories/Gen/HashSites.vo"])
    if not ok:
        return None, None, out[-1500:]
    r = vlib.coq_eval_strings("c12sites", hdr, exprs)
    unc = [x for x in r[0].split(" ;; ") if x.strip()]
    mis = [x for x in r[1].split(" ;; ") if x.strip()]
    return unc, mis, ""


def k1_correspondence(ctx):
    rnd = random.Random(ctx.seed + 1201)
    n = 150 if ctx.tier == "quick" else 600
    alphabet = "abAB01_-zZ~ !"
    cases, exprs = [], []
    # parse_obj: key order after real parsing vs the sorted-map model (incl. duplicate keys: last wins)
    for i in range(n):
        m = rnd.randrange(0, 7)
        kvs = []
        for j in range(m):
            k = "".join(rnd.choice(alphabet) for _ in range(rnd.randrange(0, 4)))
            kvs.append((k, j))
        text = "{" + ",".join("%s:%d" % (json.dumps(k), v) for k, v in kvs) + "}"
        cases.append({"id": i, "op": "keys", "text": text})
        exprs.append('let m := parse_obj %s in String.append (String.concat "," (map fst m)) (String.append "|" (String.concat "," (map (fun kv => shown (snd kv)) m)))'
                     % vlib.coq_list(kvs, lambda kv: "(%s, %d)" % (vlib.coq_str(kv[0]), kv[1])))
    # is_subset site: two object schemas with the same required constant-valued properties
    mcases = []
    for i in range(n):
        props = rnd.sample(["p", "q", "r", "s"], rnd.randrange(1, 4))
        def side():
            o = {"type": "object", "properties": {}, "required": list(props)}
            fixed = []
            for p_ in props:
                if rnd.random() < 0.75:
                    v = rnd.choice(["a", "b", "c"])
                    o["properties"][p_] = {"type": "string", "enum": [v]}
                    fixed.append((p_, v))
                else:
                    o["properties"][p_] = {"type": "string"}
            rnd.shuffle(o["required"])
            return o, fixed
        a, fa = side()
        b, fb = side()
        mcases.append({"id": n + i, "op": "mutex", "a": a, "b": b})
        # the Rust code iterates `required` (a BTreeSet: sorted); model gets the same sequence
        fa.sort()
        fb.sort()
        pl = rnd.choice(["place_front", "place_back"]), rnd.choice(["place_front", "place_back"])
        f = lambda kv: "(%s, %s)" % (vlib.coq_str(kv[0]), vlib.coq_str(kv[1]))
        exprs.append("show_bool (fixed_props_exclusive (string * string) pair_eqb (@%s _) (@%s _) %s %s)"
                     % (pl[0], pl[1], vlib.coq_list(fa, f), vlib.coq_list(fb, f)))
    res = run_proc(cases + mcases)
    hdr = ("From Typify Require Import Algo.HashOrder.\nFrom Coq Require Import String List Bool NArith.\n"
           "Import ListNotations.\nOpen Scope string_scope.\n"
           "Definition pair_eqb (a b : string * string) := String.eqb (fst a) (fst b) && String.eqb (snd a) (snd b).\n"
           "Definition shown (n : nat) : string := String (Ascii.ascii_of_nat (48 + n)) EmptyString.\n")
    model = vlib.coq_eval_strings("c12k1", hdr, exprs, shard=400)
    mism = []
    for c, r, m in zip(cases + mcases, res, model):
        if r.get("r") != m:
            mism.append({"case": c, "impl": r.get("r"), "model": m})
    return len(exprs), mism


def run(ctx):
    ctx.level = "proof"
    ctx.trusted = [
        "Coq 8.16.1 kernel + vm_compute; no axioms (Print Assumptions: closed under the global context for every C12 theorem)",
        "translator T3 `c12 sites` (syn 2, full): path/use/macro-token/string-literal scan of the non-test sources of "
        "typify-impl, typify-macro, cargo-typify, typify; name-based tracking of bindings/fields for the consumption class",
        "hand-written models Algo/HashOrder.v (hash sets/maps as enumeration lists + arbitrary valid hasher `place`; "
        "BTreeMap as strictly sorted association list under String.compare = byte order; OutputSpace)",
        "std HashSet/HashMap API meaning (insert returns freshness, is_subset = len test + all(contains), entry/and_modify/"
        "or_insert, into_iter enumerates each element once) is modelled, not verified",
        "dependencies' own hash use (serde_json, schemars, syn, quote, regress, heck ...) is outside the inventory; covered "
        "only by the multi-process byte comparison and the feature check (no preserve_order)",
        "macro front-end: `macro_*` settings of the c12 binary MIRROR typify-macro's HashSet/HashMap code (proc-macro crates "
        "cannot be linked); thorough tier expands the REAL macro in fresh rustc processes (control input + the witness of fixed finding C12-F1)",
    ]
    ctx.assumptions = [
        "reading: 'settings' = a TypeSpaceSettings value (builder) or the macro's token input; 'schema content' = the parsed "
        "JSON value (object member order, whitespace and string escapes are encoding, array order is content)",
        "valid_place: a hasher only permutes (Permutation (place x s) (x :: s)); theorems quantify over all such hashers",
        "C12_parse_perm / C12_macro_patch_replace need NoDup keys (duplicate keys in a JSON object: last one wins, "
        "so member order is content there); C12_macro_crates needs pairwise distinct ORIGINAL crate names",
        "evidence level partial: hash seeding of the real runtime is covered by the inventory translator + multi-process "
        "comparison, not by a theorem",
    ]
    ctx.checker_cmd = ("c12 sites /repo coq/theories/Gen/HashSites.v && make -f Makefile.coq theories/Props/C12.vo && "
                       "coqc Audit_C12.v (Print Assumptions); thorough: coqchk -o")

    vlib.build_harness(bins=("c12",))

    # ---- translator T3
    rc, out, err = vlib.sh([os.path.join(vlib.TARGET, "debug", "c12"), "sites", os.environ.get("C12_REPO", vlib.REPO), GEN_V], timeout=300)
    ctx.oblige("translator T3 (hash-site inventory) runs on current source", rc == 0, (out + err)[-2000:])
    sites = []
    if rc == 0:
        inv = json.loads(out)
        sites = inv["sites"]
        ctx.coverage["inventory_sites"] = len(sites)
        ctx.coverage["inventory_scanned_files"] = len(inv["scanned"])
        ctx.coverage["inventory_skipped_test_files"] = inv["skipped"]
        kinds = {}
        for s in sites:
            kinds[s["kind"]] = kinds.get(s["kind"], 0) + 1
        ctx.coverage["inventory_by_kind"] = kinds
        ctx.coverage["inventory"] = ["%s | %s | %s | %s" % (s["file"], s["fn"], s["kind"], s["cons"]) for s in sites]
    if os.environ.get("C12_EMULATE") == "reintroduce-hashset" and rc == 0:
        # emulated mutation: fix 9ffca46 reverted (HashSet back in into_name_and_impls)
        f = '"typify-macro/src/token_utils.rs" "TypeAndImpls::into_name_and_impls" "HashSet"'
        extra = "".join('\n  mk_site %s "%s";' % (f, c) for c in
                        ("path:HashSet", "bind:impls", "call:impls.insert", "call:impls.remove", "call:impls.into_iter"))
        txt = open(GEN_V).read().replace("Definition hash_sites : list site := [", "Definition hash_sites : list site := [" + extra)
        open(GEN_V, "w").write(txt)
    if os.environ.get("C12_EMULATE") == "new-site" and rc == 0:
        # emulated mutation: a new HashMap iterated into the output
        txt = open(GEN_V).read().replace("Definition hash_sites : list site := [",
                                         'Definition hash_sites : list site := [\n  mk_site "typify-impl/src/lib.rs" '
                                         '"TypeSpace::to_stream" "HashMap" "call:by_name.into_iter.for_each";')
        open(GEN_V, "w").write(txt)

    coq_ok = vlib.standard_coq_obligations(ctx, "Props.C12", THEOREMS, ())
    unc = None
    try:
        unc, mis, msg = coq_site_report(ctx)
        if unc is None:
            ctx.oblige("Gen/HashSites.v compiles", False, msg)
        else:
            ctx.oblige("inventory: every regenerated site is whitelisted (covered)", not unc, "UNCOVERED: " + " ;; ".join(unc))
            ctx.oblige("inventory: every whitelisted site still exists", not mis, "MISSING: " + " ;; ".join(mis))
            ctx.coverage["uncovered_sites"] = unc
            ctx.coverage["missing_sites"] = mis
    except Exception as e:  # noqa
        ctx.oblige("inventory evaluation in Coq", False, str(e))

    # ---- hypothesis of parse_obj: sorted maps (no preserve_order anywhere in the build)
    rc, out, err = vlib.sh(["cargo", "tree", "--offline", "-e", "features", "-i", "serde_json"], cwd=vlib.HARNESS, timeout=300)
    rc2, out2, err2 = vlib.sh(["cargo", "tree", "--offline", "-e", "features", "-i", "schemars"], cwd=vlib.HARNESS, timeout=300)
    feat_ok = rc == 0 and rc2 == 0 and "preserve_order" not in out and "preserve_order" not in out2
    ctx.oblige("cargo tree -e features: serde_json / schemars built without preserve_order", feat_ok, (out + err + out2 + err2)[-800:])
    rc, out, err = vlib.sh([os.path.join(vlib.TARGET, "debug", "c12"), "selftest"], timeout=60)
    st_ok = False
    if rc == 0:
        st = json.loads(out)
        st_ok = (st["definitions"] == ["Alpha", "Zed"] and st["properties"] == ["b", "m", "q"] and st["extensions"] == ["aext", "zext"]
                 and st["json_sorted"] == '{"a":{"y":1,"z":0},"b":1,"c":[{"j":2,"k":1}]}' and st["dup_last_wins"])
    ctx.oblige("selftest: serde_json::Map and schemars::Map iterate in sorted key order, last duplicate wins", st_ok, out + err)

    # ---- K1: model vs implementation
    try:
        nk1, mism = k1_correspondence(ctx)
        if os.environ.get("C12_EMULATE") == "k1":
            mism = mism + [{"emulated": True}]
        ctx.oblige("correspondence K1: parse_obj (Coq) = serde_json key order; fixed_props_exclusive (Coq) = "
                   "all_mutually_exclusive (Rust hook) on %d generated inputs" % nk1, not mism, json.dumps(mism[:4]))
        ctx.evaluations += nk1
        ctx.coverage["k1_cases"] = nk1
        ctx.coverage["k1_mismatches"] = len(mism)
    except Exception as e:  # noqa
        ctx.oblige("correspondence K1 ran", False, str(e))

    # ---- direct evaluation: bytes across processes x key orders x whitespace
    focus = focus_of(unc)
    if os.environ.get("C12_FOCUS"):
        focus = os.environ["C12_FOCUS"].split(",")
    if focus:
        ctx.log("inventory changed: search concentrates on families %s (sites: %s)" % (focus, "; ".join(unc or [])[:400]))
    ctx.coverage["focus_families"] = focus
    ctx.coverage["defaults_family_kinds"] = ("set_s set_i set_enum set_any vec_s vec_i vec_set vec_struct map_i map_s map_set map_struct "
                                             "tuple array4 enum struct newtype opt_set opt_map internal external untagged boxed any bool "
                                             "float uuid string u8 + definition-level defaults on a set, a map and a struct").split(" ", 29)
    docs = collect_docs(ctx, focus)
    settings = SETTINGS if ctx.tier == "thorough" else SETTINGS[:3]
    base = []  # (cid, docname, settings name, settings, text, raw)
    skipped_dups = []
    for name, text in docs:
        try:
            raw = load_raw(text)
            if has_dup_keys(raw):
                skipped_dups.append(name)
                raw = None
        except Exception:  # noqa
            raw = None
        for si, (sn, s) in enumerate(settings):
            if name.startswith("fixture:typify-impl") and sn != "default":
                continue
            # thorough: generated documents rotate through two of the four settings (fixtures get all)
            if ctx.tier == "thorough" and name.startswith("gen:") and si % 2 != sum(map(ord, name)) % 2:
                continue
            base.append((len(base), name, sn, s, text, raw))
    curated = corpus_cases()
    for c in curated:
        text = c["text"] if "text" in c else json.dumps(c["doc"])
        raw = load_raw(text)
        base.append((len(base), "corpus:" + c["_file"], "corpus", c["settings"], text, raw))
    ctx.log("direct: %d documents, %d (document, settings) cases, %d processes" % (len(docs) + len(curated), len(base), N_PROC))

    batches, meta = [], []
    chunk = max(1, (len(base) + 1) // 2)
    for p in range(N_PROC):
        for lo in range(0, len(base), chunk):
            b, m = [], []
            for cid, name, sn, s, text, raw in base[lo:lo + chunk]:
                vt, vdesc = variant(text, raw, p, "%d/%d" % (ctx.seed, cid))
                b.append({"id": [cid, p, "orig"], "settings": s, "text": text})
                m.append((cid, p, "original", text))
                if p > 0 and raw is not None:
                    b.append({"id": [cid, p, "var"], "settings": s, "text": vt, "light": True})
                    m.append((cid, p, vdesc, vt))
            batches.append(b)
            meta.append(m)
    results = run_parallel(batches)
    by_case = {}
    pids = set()
    for b, m, rs in zip(batches, meta, results):
        for c, mm, r in zip(b, m, rs):
            by_case.setdefault(mm[0], []).append((mm, r))
            pids.add(r.get("pid"))
    ctx.coverage["distinct_processes"] = len(pids)

    if os.environ.get("C12_EMULATE") == "bytes":
        # emulated mutation: one process reports other bytes for one case (as an unordered iteration would)
        mm, r = by_case[3][5]
        r = dict(r)
        r["tokens_digest"] = "0" * 32 + ":1"
        by_case[3][5] = (mm, r)

    n_runs = 0
    outcomes = {}
    viol = []
    known_hits = {}
    sorted_fail = []
    n_permuted_objects = 0
    for cid, name, sn, s, text, raw in base:
        runs = by_case.get(cid, [])
        n_runs += len(runs)
        ref = sig(runs[0][1])
        oc = (ref[0] or "").split(":")[0]
        outcomes[oc] = outcomes.get(oc, 0) + 1
        if raw is not None:
            n_permuted_objects += count_objects(raw)
        bad = None
        for mm, r in runs:
            if sig(r) != ref:
                bad = ("differs-across-processes-or-encodings", runs[0], (mm, r))
                break
            if r.get("outcome") == "ok" and not (r.get("render_twice_same") and r.get("to_tokens_same")):
                bad = ("repeated-rendering-differs", (mm, r), (mm, r))
                break
            if r.get("outcome") == "ok" and not r.get("second_space_same"):
                bad = ("second-type-space-in-same-process-differs", (mm, r), (mm, r))
                break
        if bad:
            viol.append({"kind": bad[0], "document": name, "settings_name": sn, "settings": s,
                         "run_a": {"process": bad[1][0][1], "encoding": bad[1][0][2], "text": bad[1][0][3], "result": bad[1][1]},
                         "run_b": {"process": bad[2][0][1], "encoding": bad[2][0][2], "text": bad[2][0][3], "result": bad[2][1]}})
        else:
            r0 = runs[0][1]
            if r0.get("outcome") == "ok":
                ctx.nontrivial.add("%s/%s" % (name, sn))
                names = r0.get("item_names") or []
                # OutputSpace: crate-level items come out sorted by name (byte order), whatever the definition order was
                if names != sorted(names, key=lambda x: x.encode()):
                    sorted_fail.append({"document": name, "names": names[:40]})
                if len(ctx.samples) < 10 and cid % 7 == 0:
                    ctx.samples.append({"document": name, "settings": sn, "tokens_digest": r0.get("tokens_digest"),
                                        "items": r0.get("n_items"), "runs": len(runs),
                                        "encodings": sorted({mm[2] for mm, _ in runs})[:6]})
    ctx.evaluations += n_runs
    ctx.coverage.update({
        "defaults_family_documents": len([1 for n, _ in docs if n.endswith(":defaults")]),
        "documents": len(docs) + len(curated), "cases_document_x_settings": len(base), "generator_runs_compared": n_runs,
        "fresh_processes_per_case": N_PROC, "outcome_distribution": outcomes,
        "objects_with_permuted_members": n_permuted_objects, "documents_with_duplicate_keys_not_permuted": skipped_dups,
        "settings_used": [sn for sn, _ in settings],
        "rule": "per case: original bytes in 8 fresh processes + 7 re-encodings (sorted/reversed/shuffled members at every depth, "
                "compact/pretty/spaced/wild whitespace, \\u escapes) each in its own process; compared: outcome text, digest of "
                "to_stream().to_string(), digest of prettyplease text; in-process: to_stream twice, ToTokens, a second TypeSpace; "
                "distinct = (document, settings) with outcome ok",
    })
    ctx.oblige("direct: crate-level items are emitted in sorted name order (OutputSpace)", not sorted_fail, json.dumps(sorted_fail[:2]))

    # ---- listed known findings (none at present: C12-F1 is fixed; a fixed entry suppresses nothing)
    listed = {f["id"]: f for f in ctx.findings_for()}
    for fid, (name, kind) in known_hits.items():
        if fid in listed:
            ctx.known_finding(fid, "%s: %s (reproduced on %s: %s)" % (fid, listed[fid]["summary"], name, kind))
        else:
            viol.append({"kind": "unlisted-known-class", "id": fid, "document": name})

    # ---- same-thread sequences (thread-local state: value.rs FILLING)
    try:
        sequence_check(ctx, viol)
    except Exception as e:  # noqa
        ctx.oblige("same-thread sequence check ran", False, str(e))

    # ---- thorough: the REAL macro in fresh rustc processes (control input must be deterministic)
    if ctx.tier == "thorough" or os.environ.get("C12_REAL_MACRO"):
        try:
            real_macro(ctx, viol, listed)
        except Exception as e:  # noqa
            ctx.oblige("real macro expansion ran", False, str(e))

    ctx.oblige("direct property evaluation: identical bytes across %d processes x encodings for all %d cases (outside listed classes)"
               % (N_PROC, len(base)), not viol, json.dumps([{k: v for k, v in x.items() if k not in ("run_a", "run_b")} for x in viol[:3]]))

    if viol:
        v = min(viol, key=lambda x: len(json.dumps(x)))
        v = attach_outputs(v)
        v["broken_obligations"] = [o[0] for o in ctx.broken()]
        ctx.violation(v)
    elif ctx.broken():
        ctx.violation({"broken_obligations": [(o[0], o[2][:1500]) for o in ctx.broken()],
                       "note": "a theorem, the inventory, or a correspondence no longer checks; the multi-process byte "
                               "comparison found no differing output"}, no_input=True)

    if ctx.tier == "thorough" and coq_ok:
        rc, out, err = vlib.sh("timeout 1500 coqchk -silent -o -Q theories Typify Typify.Props.C12", cwd=vlib.COQ, timeout=1600)
        ctx.oblige("coqchk re-checks Props.C12 and dependencies", rc == 0, (out + err)[-1500:])
        ctx.coverage["coqchk_output_tail"] = (out + err)[-600:]


def nondet(settings, doc_text, tries=3):
    """does this document give different bytes? (tries x {as is, members sorted, members reversed}, each run in its own
    fresh process).  Returns (a, b) = two (text, result-with-full-output) that differ, or None."""
    texts = [doc_text]
    try:
        raw = load_raw(doc_text)
        if not has_dup_keys(raw):
            rnd = random.Random(1)
            texts += [dump_raw(raw, "sorted", "compact", rnd), dump_raw(raw, "reversed", "compact", rnd)]
    except Exception:  # noqa
        pass
    batches = [[{"id": i, "settings": settings, "text": t, "full": True, "light": True}] for _ in range(tries) for i, t in enumerate(texts)]
    res = run_parallel(batches)
    first = None
    for b, rs in zip(batches, res):
        cur = (b[0]["text"], rs[0])
        if first is None:
            first = cur
        elif sig(cur[1]) != sig(first[1]):
            return first, cur
    return None


def shrink_doc(settings, text, budget=120):
    """greedy: drop definitions, then properties of object definitions, while the document stays nondeterministic"""
    try:
        doc = json.loads(text)
    except Exception:  # noqa
        return text
    key = "definitions" if "definitions" in doc else ("$defs" if "$defs" in doc else None)
    used = [0]

    def still(d):
        if used[0] >= budget:
            return False
        used[0] += 1
        return nondet(settings, json.dumps(d)) is not None

    if not still(doc):
        return text
    if key:
        for _pass in (1, 2):  # second pass: definitions that were still referenced during the first
            for n in sorted(doc[key]):
                d2 = json.loads(json.dumps(doc))
                del d2[key][n]
                if still(d2):
                    doc = d2
        for n in sorted(doc[key]):
            props = doc[key][n].get("properties") if isinstance(doc[key][n], dict) else None
            if isinstance(props, dict):
                for pn in sorted(props):
                    d2 = json.loads(json.dumps(doc))
                    del d2[key][n]["properties"][pn]
                    if pn in d2[key][n].get("required", []):
                        d2[key][n]["required"].remove(pn)
                    if still(d2):
                        doc = d2
    for k in [k for k in doc if k not in (key,)]:
        d2 = {x: y for x, y in doc.items() if x != k}
        if still(d2):
            doc = d2
    return json.dumps(doc)


def attach_outputs(v):
    """minimise the document and record two differing FULL outputs (fresh processes) in the replay file"""
    try:
        if "run_a" in v and "settings" in v:
            small = shrink_doc(v["settings"], v["run_a"]["text"])
            pair = nondet(v["settings"], small, tries=4) or nondet(v["settings"], v["run_a"]["text"], tries=4)
            if pair:
                (ta, ra), (tb, rb) = pair
                v["minimised"] = {"document_a": ta, "document_b": tb, "same_bytes": ta == tb,
                                  "outcome_a": ra.get("outcome"), "outcome_b": rb.get("outcome"),
                                  "output_a": ra.get("pretty", ra.get("tokens")), "output_b": rb.get("pretty", rb.get("tokens")),
                                  "first_difference": first_diff(ra.get("pretty") or ra.get("tokens") or "",
                                                                 rb.get("pretty") or rb.get("tokens") or "")}
            for k in ("run_a", "run_b"):
                r = run_proc([{"id": k, "settings": v["settings"], "text": v[k]["text"], "full": True}])[0]
                v[k]["replayed_tokens"] = r.get("tokens", r.get("outcome"))
    except Exception as e:  # noqa
        v["replay_error"] = str(e)
    return v


def first_diff(a, b):
    la, lb = a.splitlines(), b.splitlines()
    for i, (x, y) in enumerate(zip(la, lb)):
        if x != y:
            return {"line": i + 1, "a": "\n".join(la[max(0, i - 2):i + 3]), "b": "\n".join(lb[max(0, i - 2):i + 3])}
    return {"line": min(len(la), len(lb)) + 1, "a": "", "b": ""}


MACRO_DIR = os.path.join(vlib.WORK, "c12macro")


def expand_macro(body, n):
    """expand `typify::import_types!(<body>)` n times, each in a fresh rustc process; returns list of texts"""
    os.makedirs(os.path.join(MACRO_DIR, "src"), exist_ok=True)
    open(os.path.join(MACRO_DIR, "Cargo.toml"), "w").write(
        '[package]\nname = "c12macro"\nversion = "0.1.0"\nedition = "2021"\n\n[workspace]\n\n[dependencies]\n'
        'typify = { path = "/repo/typify" }\nserde = { version = "1.0.219", features = ["derive"] }\nserde_json = "1.0.140"\n')
    for f in ("Cargo.lock", "rust-toolchain.toml"):
        open(os.path.join(MACRO_DIR, f), "w").write(open(os.path.join(vlib.REPO, f)).read())
    src = os.path.join(MACRO_DIR, "src", "main.rs")
    outs = []
    env = dict(vlib.ENV)
    env["RUSTC_BOOTSTRAP"] = "1"
    for i in range(n):
        open(src, "w").write("// run %d\nmod my { pub struct X; pub struct Y; }\ntypify::import_types!(%s);\nfn main() {}\n" % (i, body))
        rc, out, err = vlib.sh(["cargo", "rustc", "--offline", "--", "-Zunpretty=expanded"], cwd=MACRO_DIR, env=env, timeout=1200)
        if rc != 0:
            raise RuntimeError("macro expansion failed: " + err[-1500:])
        outs.append("\n".join(l for l in out.splitlines() if not l.startswith("// run")))
    return outs


def real_macro(ctx, viol, listed):
    sdir = os.path.join(MACRO_DIR, "schemas")
    os.makedirs(sdir, exist_ok=True)
    wit = os.path.join(sdir, "f1.json")
    open(wit, "w").write(json.dumps({"definitions": {"E": {"oneOf": [{"type": "string", "format": "fa"},
                                                                     {"type": "string", "format": "fb"}]}}}))
    ctl = os.path.join(sdir, "control.json")
    defs = {("T%d" % i): {"type": "object", "properties": {"a": {"type": "string"}, "b": {"$ref": "#/definitions/T%d" % ((i + 1) % 12)}}}
            for i in range(12)}
    open(ctl, "w").write(json.dumps({"definitions": defs}))
    patch = ", ".join('T%d = { rename = "R%d", derives = [PartialEq] }' % (i, i) for i in range(0, 12, 2))
    repl = ", ".join("T%d = crate::my::X" % i for i in range(1, 12, 4))
    control = ('schema = "%s", struct_builder = true, patch = { %s }, replace = { %s }, '
               'convert = { { type = "string", format = "fa" } = crate::my::X, { type = "string", format = "fb" } = crate::my::Y : ?Display }' % (ctl, patch, repl))
    outs = expand_macro(control, N_PROC)
    same = len(set(outs)) == 1
    ctx.coverage["real_macro_control_expansions"] = len(outs)
    ctx.evaluations += len(outs)
    if not same:
        viol.append({"kind": "real-macro-expansion-differs-across-processes", "macro_input": control,
                     "run_a": {"text": outs[0][-3000:]}, "run_b": {"text": [o for o in outs if o != outs[0]][0][-3000:]}})
    witness = ('schema = "%s", convert = { { type = "string", format = "fa" } = crate::my::X, { type = "string", format = "fb" } = crate::my::X }' % wit)
    outs = expand_macro(witness, 2 * N_PROC)
    ctx.evaluations += len(outs)
    ctx.coverage["real_macro_witness_distinct_outputs"] = len(set(outs))
    ctx.coverage["real_macro_witness_From_impl_counts"] = sorted({o.count("From<crate::my::X>") for o in outs})
    # C12-F1 is FIXED (9ffca46, findings/C12.json "fixed"): not recognised as a class any more, so a
    # regression (HashSet back in into_name_and_impls) is an ordinary violation
    if len(set(outs)) > 1:
        viol.append({"kind": "real-macro-expansion-differs-across-processes (regression of fix 9ffca46, C12-F1)",
                     "macro_input": witness, "run_a": {"text": outs[0][-3000:]},
                     "run_b": {"text": [o for o in outs if o != outs[0]][0][-3000:]}})
