"""Compiled-world builder (channel K5/K6): run typify on cases, compile the
generated modules into driver crates, execute requests against them.

    w = World(ctx, "c02", cases, chunks_fn=None)
    w.build()
    w.gen[i]            -> `vh gen` result of case i (steps, render, dump, types ...)
    w.status[i]         -> "ok" | "not-generated" | "compile-error" (+ w.compile_errors[i])
    w.chunk_failures    -> {(i, tag): [messages]}   (driver chunks that did not compile)
    w.query([{"m": i, "t": "Foo", "op": "de", "input": ...}, ...]) -> list of results

Per module the driver offers, for every top-level `pub struct`/`pub enum` T:
  de            input = JSON text        -> {"ok": value} | {"err": msg}
  parse         input = string (FromStr)
  try_from_str / try_from_string / try_from_ref_string
  display       input = JSON text: deserialize, then to_string()
  default       T::default()
(only those whose impls the syn scan found), plus whatever extra chunks
`chunks_fn(i, gen_result)` returns: list of (tag, rust_items_text, arms) where
arms is a list of (type, op, expr) added to the dispatch table.
"""
import hashlib
import json
import os
import re
import shutil
import subprocess

import vlib

WORLD_ROOT = os.path.join(vlib.WORK, "world")
WORLD_TARGET = os.path.join(vlib.WORK, "world-target")
NSPLIT = 8

RT = r'''
#![allow(warnings)]
pub mod rt {
    use serde_json::{json, Value};
    use std::fmt::Display;
    pub fn ser<T: serde::Serialize>(x: &T) -> Value {
        match serde_json::to_value(x) {
            Ok(v) => json!({"ok": v, "text": serde_json::to_string(x).unwrap_or_default()}),
            Err(e) => json!({"ser_err": e.to_string()}),
        }
    }
    pub fn de<T: serde::Serialize + serde::de::DeserializeOwned>(input: &Value) -> Value {
        let text = input.as_str().unwrap_or("");
        match serde_json::from_str::<T>(text) {
            Ok(x) => ser(&x),
            Err(e) => json!({"err": e.to_string()}),
        }
    }
    pub fn de_only<T: serde::de::DeserializeOwned>(input: &Value) -> Value {
        let text = input.as_str().unwrap_or("");
        match serde_json::from_str::<T>(text) {
            Ok(_) => json!({"ok": null}),
            Err(e) => json!({"err": e.to_string()}),
        }
    }
    pub fn parse<T: std::str::FromStr + serde::Serialize>(input: &Value) -> Value
    where T::Err: Display {
        match input.as_str().unwrap_or("").parse::<T>() {
            Ok(x) => ser(&x),
            Err(e) => json!({"err": e.to_string()}),
        }
    }
    pub fn try_from_str<T: for<'a> TryFrom<&'a str> + serde::Serialize>(input: &Value) -> Value
    where for<'a> <T as TryFrom<&'a str>>::Error: Display {
        match T::try_from(input.as_str().unwrap_or("")) {
            Ok(x) => ser(&x),
            Err(e) => json!({"err": e.to_string()}),
        }
    }
    pub fn try_from_string<T: TryFrom<String> + serde::Serialize>(input: &Value) -> Value
    where <T as TryFrom<String>>::Error: Display {
        match T::try_from(input.as_str().unwrap_or("").to_string()) {
            Ok(x) => ser(&x),
            Err(e) => json!({"err": e.to_string()}),
        }
    }
    pub fn try_from_ref_string<T: for<'a> TryFrom<&'a String> + serde::Serialize>(input: &Value) -> Value
    where for<'a> <T as TryFrom<&'a String>>::Error: Display {
        let s = input.as_str().unwrap_or("").to_string();
        let r = match T::try_from(&s) {
            Ok(x) => ser(&x),
            Err(e) => json!({"err": e.to_string()}),
        };
        r
    }
    pub fn display<T: serde::de::DeserializeOwned + serde::Serialize + Display>(input: &Value) -> Value {
        let text = input.as_str().unwrap_or("");
        match serde_json::from_str::<T>(text) {
            Ok(x) => json!({"ok": x.to_string(), "ser": serde_json::to_value(&x).unwrap_or(Value::Null)}),
            Err(e) => json!({"err": e.to_string()}),
        }
    }
    pub fn default<T: Default + serde::Serialize>() -> Value {
        ser(&T::default())
    }
}
'''

MAIN_TAIL = r'''
fn main() {
    use std::io::{BufRead, Write};
    std::panic::set_hook(Box::new(|_| {}));
    let stdin = std::io::stdin();
    let stdout = std::io::stdout();
    let mut out = std::io::BufWriter::new(stdout.lock());
    for line in stdin.lock().lines() {
        let line = line.unwrap();
        if line.trim().is_empty() { continue; }
        let v: serde_json::Value = serde_json::from_str(&line).unwrap();
        let m = v["m"].as_str().unwrap_or("").to_string();
        let t = v["t"].as_str().unwrap_or("").to_string();
        let op = v["op"].as_str().unwrap_or("").to_string();
        let input = v["input"].clone();
        let r = std::panic::catch_unwind(|| dispatch(&m, &t, &op, &input));
        let r = match r {
            Ok(r) => r,
            Err(e) => {
                let msg = if let Some(s) = e.downcast_ref::<String>() { s.clone() }
                          else if let Some(s) = e.downcast_ref::<&str>() { s.to_string() } else { "?".to_string() };
                serde_json::json!({"panic": msg})
            }
        };
        writeln!(out, "{}", r).unwrap();
    }
}
'''

CARGO_MEMBER = '''[package]
name = "%s"
version = "0.0.0"
edition = "2021"

[dependencies]
serde = { version = "1.0.219", features = ["derive"] }
serde_json = "1.0.140"
chrono = { version = "0.4.40", features = ["serde"] }
uuid = { version = "1.16.0", features = ["serde"] }
regress = "0.10.3"

[profile.dev]
opt-level = 0
debug = false
incremental = false
'''

STUB = '''pub mod __drv {
    pub fn dispatch(_t: &str, _op: &str, _i: &::serde_json::Value) -> ::serde_json::Value {
        ::serde_json::json!({"uncompilable": true})
    }
}
'''


def rs_str(x):
    """Rust string literal."""
    out = ['"']
    for c in x:
        if c in '"\\':
            out.append("\\" + c)
        elif ord(c) < 32 or ord(c) == 127:
            out.append("\\u{%x}" % ord(c))
        else:
            out.append(c)
    out.append('"')
    return "".join(out)


def impl_table(scan):
    """{type: set(trait-ish keys)} from the syn scan of root-module impls."""
    t = {}
    for im in scan.get("impls", []):
        if im["mod"] != "" or not im.get("trait"):
            continue
        tr = re.sub(r"\s+", "", im["trait"])
        ty = re.sub(r"\s+", "", im["for"])
        t.setdefault(ty, set()).add(tr)
    return t


def std_arms(scan):
    """Dispatch arms for the standard ops, from what the scan shows."""
    arms = []
    it = impl_table(scan)
    for item in scan.get("items", []):
        if item["mod"] != "" or item["kind"] not in ("struct", "enum") or item["vis"] != "pub":
            continue
        n = item["name"]
        P = "super::%s" % n
        has_de = any(d.endswith("Deserialize") for d in item.get("derives", [])) or \
            any("Deserialize<" in x for x in it.get(n, ()))
        has_ser = any(d.endswith("Serialize") for d in item.get("derives", []))
        tr = it.get(n, set())
        if has_de and has_ser:
            arms.append((n, "de", "crate::rt::de::<%s>(input)" % P))
        elif has_de:
            arms.append((n, "de", "crate::rt::de_only::<%s>(input)" % P))
        if has_ser:
            if any(x in ("::std::str::FromStr", "std::str::FromStr") for x in tr):
                arms.append((n, "parse", "crate::rt::parse::<%s>(input)" % P))
            if any(x.endswith("TryFrom<&str>") for x in tr):
                arms.append((n, "try_from_str", "crate::rt::try_from_str::<%s>(input)" % P))
            if any(x.endswith("TryFrom<::std::string::String>") or x.endswith("TryFrom<String>") for x in tr):
                arms.append((n, "try_from_string", "crate::rt::try_from_string::<%s>(input)" % P))
            if any(x.endswith("TryFrom<&::std::string::String>") or x.endswith("TryFrom<&String>") for x in tr):
                arms.append((n, "try_from_ref_string", "crate::rt::try_from_ref_string::<%s>(input)" % P))
            if any(x in ("::std::default::Default", "Default") for x in tr):
                arms.append((n, "default", "crate::rt::default::<%s>()" % P))
            if has_de and any(x in ("::std::fmt::Display",) for x in tr):
                arms.append((n, "display", "crate::rt::display::<%s>(input)" % P))
    return arms


class World:
    def __init__(self, ctx, name, cases, chunks_fn=None, nsplit=NSPLIT):
        self.ctx = ctx
        self.name = name
        self.cases = cases
        self.chunks_fn = chunks_fn
        self.nsplit = max(1, min(nsplit, len(cases)))
        self.gen = []
        self.status = []
        self.compile_errors = {}
        self.chunk_failures = {}
        self.driver_errors = {}
        self.arms = {}
        self.dir = None
        self.bins = {}

    # ------------------------------------------------------------------
    def generate(self):
        vlib.build_harness(bins=("vh",))
        self.gen = vlib.run_vh("gen", [dict(c, code=True) for c in self.cases])
        self.status = []
        for g in self.gen:
            if g.get("r") == "done" and g.get("all_ok") and g.get("render", {}).get("r") == "ok":
                self.status.append("ok")
            else:
                self.status.append("not-generated")
        return self.gen

    def _module_text(self, i, dropped=()):
        g = self.gen[i]
        code = g["render"]["code"]
        chunks = [("std", "", std_arms(g["render"]["scan"]))]
        if self.chunks_fn:
            chunks += list(self.chunks_fn(i, g) or [])
        body = [code, "\n// ==== driver ====\npub mod __drv {\n"]
        arms_all = []
        for tag, items, arms in chunks:
            if tag in dropped:
                continue
            body.append("// chunk:%s\n%s\n// endchunk\n" % (tag, items))
            arms_all += [(tag, a) for a in arms]
        body.append("pub fn dispatch(t: &str, op: &str, input: &::serde_json::Value) -> ::serde_json::Value {\n"
                    "    match (t, op) {\n")
        for tag, (ty, op, expr) in arms_all:
            body.append("        (%s, %s) => { %s } // arm:%s\n" % (rs_str(ty), rs_str(op), expr.replace("\n", " "), tag))
        body.append("        _ => ::serde_json::json!({\"unsupported\": true}),\n    }\n}\n}\n")
        self.arms[i] = [(ty, op) for _, (ty, op, _) in arms_all]
        text = "".join(body)
        regions = []
        gen_lines = 0
        cur = None
        for ln, l in enumerate(text.split("\n"), 1):
            if l == "// ==== driver ====":
                gen_lines = ln - 1
            elif gen_lines and l.startswith("// chunk:"):
                cur = (ln, l[len("// chunk:"):])
            elif gen_lines and l == "// endchunk" and cur:
                regions.append((cur[0], ln + 1, cur[1]))
                cur = None
            elif gen_lines:
                m = re.search(r"// arm:(\S+)$", l)
                if m:
                    regions.append((ln, ln + 1, m.group(1)))
        return text, gen_lines, regions

    def _key(self):
        h = hashlib.sha256()
        h.update(vlib.repo_fingerprint().encode())
        h.update(json.dumps(self.cases, sort_keys=True).encode())
        h.update(RT.encode())
        h.update(open(__file__, "rb").read())
        if self.chunks_fn:
            h.update((self.chunks_fn.__module__ + self.chunks_fn.__qualname__).encode())
            try:
                import inspect
                h.update(inspect.getsource(inspect.getmodule(self.chunks_fn)).encode())
            except Exception:  # noqa
                pass
        return h.hexdigest()[:12]

    def build(self, max_rounds=6):
        if not self.gen:
            self.generate()
        # one builder per world name at a time (concurrent checks share names such as "faithful")
        with vlib.Lock("world-" + self.name):
            return self._build(max_rounds)

    def _build(self, max_rounds=6):
        key = self._key()
        self.dir = os.path.join(WORLD_ROOT, "%s-%s" % (self.name, key))
        marker = os.path.join(self.dir, "built.json")
        if os.path.exists(marker):
            st = json.load(open(marker))
            self.status = st["status"]
            self.compile_errors = {int(k): v for k, v in st["compile_errors"].items()}
            self.chunk_failures = {tuple(json.loads(k)): v for k, v in st["chunk_failures"].items()}
            self.driver_errors = {int(k): v for k, v in st["driver_errors"].items()}
            self.arms = {int(k): [tuple(a) for a in v] for k, v in st["arms"].items()}
            self.bins = {int(k): v for k, v in st["bins"].items()}
            if all(os.path.exists(b) for b in self.bins.values()):
                self.ctx.log("world %s: reused %s" % (self.name, self.dir))
                return self
        # evict older worlds of the same name (disk)
        os.makedirs(WORLD_ROOT, exist_ok=True)
        for d in os.listdir(WORLD_ROOT):
            if d.startswith(self.name + "-") and d != os.path.basename(self.dir):
                shutil.rmtree(os.path.join(WORLD_ROOT, d), ignore_errors=True)
        shutil.rmtree(self.dir, ignore_errors=True)
        os.makedirs(self.dir)
        idx = [i for i, s in enumerate(self.status) if s == "ok"]
        groups = [idx[k::self.nsplit] for k in range(self.nsplit)]
        groups = [g for g in groups if g]
        pk = ["w%s_%d" % (key[:8], k) for k in range(len(groups))]
        with open(os.path.join(self.dir, "Cargo.toml"), "w") as f:
            f.write("[workspace]\nresolver = \"2\"\nmembers = [%s]\n" % ", ".join(json.dumps(p) for p in pk))
        with open(os.path.join(self.dir, "rust-toolchain.toml"), "w") as f:
            f.write("[toolchain]\nchannel = \"1.80.1\"\n")
        os.makedirs(os.path.join(self.dir, ".cargo"))
        with open(os.path.join(self.dir, ".cargo", "config.toml"), "w") as f:
            f.write("[net]\noffline = true\n[build]\ntarget-dir = %s\n" % json.dumps(WORLD_TARGET))
        shutil.copy(os.path.join(vlib.REPO, "Cargo.lock"), os.path.join(self.dir, "Cargo.lock"))
        dropped = {i: set() for i in idx}
        meta = {}
        for k, g in enumerate(groups):
            d = os.path.join(self.dir, pk[k])
            os.makedirs(os.path.join(d, "src"))
            with open(os.path.join(d, "Cargo.toml"), "w") as f:
                f.write(CARGO_MEMBER % pk[k])
            main = [RT]
            for i in g:
                main.append("mod m_%d;\n" % i)
            main.append("fn dispatch(m: &str, t: &str, op: &str, input: &serde_json::Value) -> serde_json::Value {\n    match m {\n")
            for i in g:
                main.append("        \"%d\" => m_%d::__drv::dispatch(t, op, input),\n" % (i, i))
            main.append("        _ => serde_json::json!({\"nomodule\": true}),\n    }\n}\n")
            main.append(MAIN_TAIL)
            with open(os.path.join(d, "src", "main.rs"), "w") as f:
                f.write("".join(main))
            for i in g:
                txt, gl, regions = self._module_text(i)
                meta[i] = (k, gl, regions)
                with open(os.path.join(d, "src", "m_%d.rs" % i), "w") as f:
                    f.write(txt)
        rounds = 0
        while True:
            rounds += 1
            with vlib.Lock("world-cargo"):
                p = subprocess.run(["cargo", "build", "--offline", "--message-format=json", "-q"], cwd=self.dir,
                                   env=vlib.ENV, capture_output=True, text=True, timeout=3000)
            errs = {}
            other = []
            for line in p.stdout.splitlines():
                try:
                    m = json.loads(line)
                except ValueError:
                    continue
                if m.get("reason") != "compiler-message":
                    continue
                msg = m["message"]
                if msg.get("level") != "error":
                    continue
                placed = False
                for sp in msg.get("spans", []):
                    mm = re.search(r"m_(\d+)\.rs$", sp["file_name"])
                    if mm and sp.get("is_primary", True):
                        errs.setdefault(int(mm.group(1)), []).append((sp["line_start"], msg.get("code", {}) and msg["code"].get("code"), msg["message"]))
                        placed = True
                        break
                if not placed:
                    other.append(msg["message"])
            if p.returncode == 0:
                break
            if not errs or rounds > max_rounds:
                raise RuntimeError("world build failed without attributable errors: %s %s" % (other[:5], p.stderr[-2000:]))
            for i, es in errs.items():
                k, gl, regions = meta[i]
                d = os.path.join(self.dir, pk[k])
                gen_err = [e for e in es if e[0] <= gl]
                if gen_err:
                    self.status[i] = "compile-error"
                    self.compile_errors[i] = [[e[1], e[2]] for e in gen_err][:10]
                    with open(os.path.join(d, "src", "m_%d.rs" % i), "w") as f:
                        f.write(STUB)
                    self.arms[i] = []
                    continue
                progressed = False
                for ln, code, text in es:
                    tag = None
                    for a, b, t in regions:
                        if a <= ln < b:
                            tag = t
                    if tag is None or tag == "std":
                        self.driver_errors.setdefault(i, []).append([code, text, tag])
                        tag = tag or "std"
                    if tag not in dropped[i]:
                        dropped[i].add(tag)
                        self.chunk_failures.setdefault((i, tag), []).append([code, text])
                        progressed = True
                if not progressed:
                    self.status[i] = "compile-error"
                    self.compile_errors[i] = [[e[1], e[2]] for e in es][:10]
                    with open(os.path.join(d, "src", "m_%d.rs" % i), "w") as f:
                        f.write(STUB)
                    self.arms[i] = []
                    continue
                txt, gl2, regions2 = self._module_text(i, dropped[i])
                meta[i] = (k, gl2, regions2)
                with open(os.path.join(d, "src", "m_%d.rs" % i), "w") as f:
                    f.write(txt)
        os.makedirs(os.path.join(self.dir, "bin"))
        for k, g in enumerate(groups):
            src = os.path.join(WORLD_TARGET, "debug", pk[k])
            dst = os.path.join(self.dir, "bin", pk[k])
            shutil.copy(src, dst)
            for i in g:
                self.bins[i] = dst
        # drop this world's build artefacts from the shared target (disk)
        for sub in ("debug/deps", "debug/incremental", "debug/.fingerprint", "debug"):
            dd = os.path.join(WORLD_TARGET, sub)
            if os.path.isdir(dd):
                for fn in os.listdir(dd):
                    if fn.startswith("w%s_" % key[:8]):
                        pth = os.path.join(dd, fn)
                        if os.path.isdir(pth):
                            shutil.rmtree(pth, ignore_errors=True)
                        else:
                            try:
                                os.unlink(pth)
                            except OSError:
                                pass
        with open(marker, "w") as f:
            json.dump({"status": self.status, "compile_errors": self.compile_errors,
                       "chunk_failures": {json.dumps(list(k)): v for k, v in self.chunk_failures.items()},
                       "driver_errors": self.driver_errors, "arms": self.arms, "bins": self.bins}, f)
        self.ctx.log("world %s: built %d modules in %d round(s), %d compile errors, %d chunk failures" % (
            self.name, len(idx), rounds, len(self.compile_errors), len(self.chunk_failures)))
        return self

    # ------------------------------------------------------------------
    def has_arm(self, i, ty, op):
        return (ty, op) in set(self.arms.get(i, []))

    def query(self, reqs, timeout=1200):
        """reqs: list of {"m": case index, "t": type, "op": op, "input": ...}."""
        out = [None] * len(reqs)
        by_bin = {}
        for n, r in enumerate(reqs):
            b = self.bins.get(r["m"])
            if b is None or self.status[r["m"]] != "ok":
                out[n] = {"nomodule": True, "status": self.status[r["m"]]}
                continue
            by_bin.setdefault(b, []).append(n)
        for b, ns in by_bin.items():
            inp = "".join(json.dumps({"m": str(reqs[n]["m"]), "t": reqs[n]["t"], "op": reqs[n]["op"],
                                      "input": reqs[n].get("input")}) + "\n" for n in ns)
            p = subprocess.run([b], input=inp, capture_output=True, text=True, timeout=timeout)
            lines = [l for l in p.stdout.splitlines() if l.strip()]
            if len(lines) != len(ns):
                raise RuntimeError("world driver %s: %d answers for %d requests (rc=%s) %s" % (
                    b, len(lines), len(ns), p.returncode, p.stderr[-500:]))
            for n, l in zip(ns, lines):
                out[n] = json.loads(l)
        return out
