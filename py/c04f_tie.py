"""C04F -- tie of the Coq models used by Props/C04F.v to the real code, on universes of the fragment:

  S  schemars model:   Algo/Schemars.schema_of_rust U  =  the `definitions` the REAL schemars 0.8.22 derive
                       produces (schema_for!(X) of every named type X of the compiled ORIGIN crate), by kernel
                       conversion (exact equality of the schema terms), for every universe with rust_frag = true;
                       universes outside the fragment are classified out (both polarities are generated);
  F  C04F_schemars_in_frag evaluated: in_frag (real definitions) = true whenever rust_frag U = true;
  K  converter model:  Algo/Convert.convert_doc (definitions) = Some (the REAL typify type space) (K3, exact);
  W  the proven checker wire_equiv_all (ir_of_rust U) T on every definition (what C04F_convert_wire_equiv states).

Standalone: python3 py/c04f_tie.py [--n N] [--seed S];  from the check: c04f_tie.run(ctx, n, seed, tag)."""
import json
import os
import random
import re
import sys
from concurrent.futures import ThreadPoolExecutor

import rustgen
import tocoq
import vlib

T = rustgen.T

FRAG_FIELDS = ["a", "b", "count", "data", "first_name", "flag", "id", "items", "last_seen_at", "max_size", "name",
               "opt_level", "tags", "type_", "value", "x", "y"]
FRAG_TYPES = ["Alpha", "Beta", "Color", "Config", "Delta", "Entry", "Event", "Item", "Level2", "Node", "Point",
              "Record", "Shape", "Status", "Token", "UserInfo", "Vec3", "Wrapper"]
FRAG_VARIANTS = ["A", "B", "Cc", "FooBar", "HTTPError", "Off", "On", "Ok2", "VeryLongVariantName", "X"]


class FragGen:
    def __init__(self, rng):
        self.r = rng

    def leaf(self):
        r = self.r
        x = r.random()
        if x < 0.15:
            return T("bool")
        if x < 0.6:
            return T("int", n=r.choice(list(rustgen.INTS)))
        return T("string")

    def ty(self, byval, anyref, depth=0, opt=True):
        """byval: names usable by value; anyref: names usable behind Vec / map"""
        r = self.r
        x = r.random()
        if byval and x < 0.25 and depth == 0:
            return T("ref", name=r.choice(byval))
        if depth >= 2 or x < 0.55:
            return self.leaf()
        x = r.random()
        if x < 0.3 and opt and depth == 0:
            inner = r.choice([self.leaf(), T("vec", t=self.ty([], anyref, depth + 2, False)),
                              T("hashmap", t=self.ty([], anyref, depth + 2, False))])
            return T("option", t=inner)
        if x < 0.7:
            inner = T("ref", name=r.choice(anyref)) if (anyref and r.random() < 0.4) else self.ty([], anyref, depth + 1, r.random() < 0.3)
            if inner["k"] == "option" and inner["t"]["k"] not in ("bool", "int", "string", "vec", "hashmap", "btreemap"):
                inner = self.leaf()
            return T("vec", t=inner)
        inner = T("ref", name=r.choice(anyref)) if (anyref and r.random() < 0.4) else self.ty([], anyref, depth + 1, False)
        return T(r.choice(["hashmap", "btreemap"]), t=inner)

    def universe(self, perturb):
        r = self.r
        n = r.randint(2, 6)
        names = sorted(r.sample(FRAG_TYPES, n))
        rank = list(names)
        r.shuffle(rank)
        defs = {}
        for nm in rank:
            lower = rank[:rank.index(nm)]
            x = r.random()
            if x < 0.66:
                k = r.randint(1, 5)
                fnames = sorted(r.sample(FRAG_FIELDS, k))
                fields = []
                for fn in fnames:
                    ty = self.ty(lower, names)
                    f = {"name": fn, "ty": ty, "rename": None, "default": False, "skip_none": ty["k"] == "option"}
                    if fn == "type_":
                        f["rename"] = "type"
                    fields.append(f)
                d = {"kind": "struct", "name": nm, "rename_all": r.choice([None, None, "camelCase", "snake_case", "kebab-case",
                                                                          "PascalCase", "SCREAMING_SNAKE_CASE"]),
                     "deny": r.random() < 0.4, "cdefault": False, "derive_default": False, "fields": fields}
            elif x < 0.93:
                vs = r.sample(FRAG_VARIANTS, r.randint(1, 4))
                d = {"kind": "enum", "name": nm, "tagging": {"k": "external"},
                     "rename_all": r.choice([None, "snake_case", "kebab-case", "lowercase", "SCREAMING_SNAKE_CASE"]), "deny": False,
                     "variants": [{"name": v, "rename": ("renamed" if r.random() < 0.1 else None), "kind": "unit", "tys": [],
                                   "fields": [], "rename_all": None} for v in vs]}
            else:
                d = {"kind": "newtype", "name": nm, "ty": self.ty(lower, names), "derive_default": False}
            defs[nm] = d
        u = {"types": [defs[nm] for nm in names], "roots": []}
        how = None
        if perturb:
            how = r.choice(["float", "opt-ref", "default", "unsorted-fields", "unsorted-types", "no-skip", "tuple", "internal",
                            "unit-struct", "box", "struct-variant", "array"])
            structs = [d for d in u["types"] if d["kind"] == "struct"]
            d = r.choice(structs) if structs else None
            if how == "unsorted-types":
                u["types"].reverse()
            elif how == "internal":
                u["types"].append({"kind": "enum", "name": "Zed", "tagging": {"k": "internal", "tag": "t"}, "rename_all": None, "deny": False,
                                   "variants": [{"name": "A", "rename": None, "kind": "unit", "tys": [], "fields": [], "rename_all": None}]})
            elif how == "unit-struct":
                u["types"].append({"kind": "unit_struct", "name": "Zed", "derive_default": False})
            elif how == "struct-variant":
                u["types"].append({"kind": "enum", "name": "Zed", "tagging": {"k": "external"}, "rename_all": None, "deny": False,
                                   "variants": [{"name": "A", "rename": None, "kind": "struct", "tys": [], "rename_all": None,
                                                 "fields": [{"name": "x", "ty": T("bool"), "rename": None, "default": False, "skip_none": False}]}]})
            elif d is None:
                how = "none-applicable"
            elif how == "float":
                d["fields"][0]["ty"] = T("float", n="f64")
                d["fields"][0]["skip_none"] = False
            elif how == "opt-ref":
                d["fields"][0]["ty"] = T("option", t=T("ref", name=u["types"][0]["name"])) if u["types"][0] is not d else T("option", t=T("option", t=T("bool")))
                d["fields"][0]["ty"] = T("option", t=T("box", t=T("ref", name=d["name"])))
                d["fields"][0]["skip_none"] = True
            elif how == "default":
                d["fields"][0]["ty"] = T("int", n="u8")
                d["fields"][0]["default"] = True
                d["fields"][0]["skip_none"] = False
            elif how == "unsorted-fields":
                if len(d["fields"]) > 1:
                    d["fields"].reverse()
                else:
                    how = "none-applicable"
            elif how == "no-skip":
                d["fields"][0]["ty"] = T("option", t=T("string"))
                d["fields"][0]["skip_none"] = False
            elif how == "tuple":
                d["fields"][0]["ty"] = T("tuple", ts=[T("bool"), T("string")])
                d["fields"][0]["skip_none"] = False
            elif how == "box":
                d["fields"][0]["ty"] = T("box", t=T("int", n="i32"))
                d["fields"][0]["skip_none"] = False
            elif how == "array":
                d["fields"][0]["ty"] = T("array", t=T("bool"), n=2)
                d["fields"][0]["skip_none"] = False
        # whatever the perturbation did: skip_serializing_if = "Option::is_none" only on Option members (else rustc E0308)
        for dd in u["types"]:
            for f in dd.get("fields", []):
                if f["ty"]["k"] != "option":
                    f["skip_none"] = False
            for v in dd.get("variants", []):
                for f in v.get("fields", []):
                    if f["ty"]["k"] != "option":
                        f["skip_none"] = False
        # a last struct that mentions every type behind a Vec: schema_for!(ZzRoot) then lists EVERY type of the
        # universe under `definitions` (a newtype over a named type is `{"$ref": ..}` there, but
        # `{"allOf": [{"$ref": ..}]}` when it is itself the root of schema_for!)
        others = [d["name"] for d in u["types"]]
        u["types"].append({"kind": "struct", "name": "ZzRoot", "rename_all": None, "deny": False, "cdefault": False,
                           "derive_default": False,
                           "fields": [{"name": "r%02d" % k, "ty": T("vec", t=T("ref", name=x)), "rename": None, "default": False,
                                       "skip_none": False} for k, x in enumerate(others)]})
        u["roots"] = ["ZzRoot"]
        u["perturb"] = how
        return u


def generate(seed, n):
    out = []
    for i in range(n):
        rng = random.Random("%s/c04f/%d" % (seed, i))
        out.append(FragGen(rng).universe(perturb=(i % 4 == 3)))
    return out


def strip_root(doc):
    return {k: v for k, v in doc.items() if k not in ("$schema", "definitions", "title")}


HEADER = (tocoq.COQ_HEADER +
          "From Typify Require Import Spec.Valid IR.Serde Algo.Heck Algo.Sanitize Algo.Convert Algo.RustDefs Algo.Schemars "
          "Check.WireEquiv.\nClose Scope string_scope.\n")


def coq_case(i, u, real_defs, dump):
    lines = ["Definition U_%d : universe := %s.\n" % (i, rustgen.cq_universe(u))]
    try:
        cd = tocoq.cdefs(real_defs)
    except tocoq.Unsupported:
        cd = None
    if cd is None:
        # the real schemars uses a keyword the schema AST has not: the universe must be outside the fragment
        lines.append('Goal True. tryif (assert (rust_frag ascii_classes U_%d = true) by (vm_compute; reflexivity)) '
                     'then idtac "S %d MISMATCH" else idtac "S %d OUT". Abort.\n' % (i, i, i))
        return "".join(lines)
    lines.append("Definition D_%d : defs := %s.\n" % (i, cd))
    n = len(u["types"])
    if dump is not None:
        lines.append("Definition T_%d : space := %s.\n" % (i, tocoq.cspace(dump)))
        kgoal = "convert_doc ascii_classes D_%d = Some T_%d" % (i, i)
        pairs = "[" + "; ".join("(%d%%N, %d%%N)" % (k + 1, k + 1) for k in range(n)) + "]"
        wgoal = "wire_equiv_all (ir_of_rust U_%d) T_%d %s = true" % (i, i, pairs)
    else:
        kgoal = wgoal = "False"
    t = ('Goal True. tryif (assert (rust_frag_s ascii_classes U_{i} = true) by (vm_compute; reflexivity)) then ('
         '(tryif (assert (schema_of_rust U_{i} = D_{i}) by (vm_compute; reflexivity)) then idtac "S {i} OK" else idtac "S {i} MISMATCH"); '
         '(tryif (assert (in_frag ascii_classes D_{i} = true) by (vm_compute; reflexivity)) then idtac "F {i} OK" else idtac "F {i} MISMATCH"); '
         '(tryif (assert ({k}) by (vm_compute; reflexivity)) then idtac "K {i} OK" else idtac "K {i} MISMATCH"); '
         '(tryif (assert (rust_frag ascii_classes U_{i} = true) by (vm_compute; reflexivity)) then '
         '  (tryif (assert ({w}) by (vm_compute; reflexivity)) then idtac "W {i} OK" else idtac "W {i} MISMATCH") '
         ' else (tryif (assert ({w}) by (vm_compute; reflexivity)) then idtac "W {i} WIDE_OK" else idtac "W {i} WIDE_NO"))) '
         'else (tryif (assert (schema_of_rust U_{i} = D_{i}) by (vm_compute; reflexivity)) then idtac "S {i} OUT_EQ" else idtac "S {i} OUT"). '
         'Abort.\n').format(i=i, k=kgoal, w=wgoal)
    lines.append(t)
    return "".join(lines)


def evaluate(ctx, tag, universes, origin, shard=40, timeout=900):
    """origin: a built rustgen.Origin over `universes`.  Returns {i: {"S":..,"F":..,"K":..,"W":..}}."""
    reqs, meta = [], []
    for ui, u in enumerate(universes):
        if origin.status[ui] != "ok" or not u["types"] or u["types"][-1]["name"] != "ZzRoot":
            continue
        reqs.append({"m": ui, "t": "ZzRoot", "op": "schema"})
        meta.append(ui)
    ans = origin.query(reqs)
    real = {}
    for ui, a in zip(meta, ans):
        if "ok" in a:
            real[ui] = dict(a["ok"].get("definitions", {}))
            real[ui]["ZzRoot"] = strip_root(a["ok"])
    ids = sorted(ui for ui in real if set(real[ui]) == {d["name"] for d in universes[ui]["types"]})
    cases = [{"settings": {}, "steps": [{"op": "refs", "defs": real[ui]}], "code": False} for ui in ids]
    gens = vlib.run_vh("gen", cases)
    mut = os.environ.get("C04F_MUTATE", "")
    dumps = {}
    for ui, g in zip(ids, gens):
        dumps[ui] = g.get("dump") if g.get("all_ok") else None
    if mut == "schemars" and ids:        # emulation: the real schemars answers something else for u8
        for ui in ids:
            for x, s in real[ui].items():
                for p in (s.get("properties") or {}).values():
                    if p.get("format") == "uint8":
                        p.pop("minimum", None)
    dev = os.environ.get("C04F_DEV_COQ")
    if dev:
        vlib.COQ = dev
    else:
        ok, out = vlib.coq_make(["theories/Algo/Schemars.vo", "theories/Check/WireEquiv.vo"])
        if not ok:
            raise RuntimeError(out[-3000:])
    d = os.path.join(vlib.WORK, "cases", tag)
    os.makedirs(d, exist_ok=True)
    for f in os.listdir(d):
        os.unlink(os.path.join(d, f))
    paths = []
    for k in range(0, len(ids), shard):
        p = os.path.join(d, "tie_%d.v" % (k // shard))
        with open(p, "w") as f:
            f.write(HEADER)
            for ui in ids[k:k + shard]:
                f.write(coq_case(ui, universes[ui], real[ui], dumps[ui]))
        paths.append(p)

    def one(p):
        rc, out, err = vlib.coqc_file(p, timeout)
        if rc != 0:
            raise RuntimeError("coqc failed on %s:\n%s" % (p, (out + err)[-3000:]))
        return out
    res = {}
    with ThreadPoolExecutor(max_workers=vlib.NCPU) as ex:
        for out in ex.map(one, paths):
            for m in re.finditer(r"^([SFKW]) (\d+) (\w+)", out, re.M):
                res.setdefault(int(m.group(2)), {})[m.group(1)] = m.group(3)
    return res, real, dumps


def summarize(res, universes):
    infrag = [i for i, r in res.items() if r.get("S") in ("OK", "MISMATCH")]
    out = [i for i, r in res.items() if r.get("S") in ("OUT", "OUT_EQ")]
    mism = {k: [i for i in infrag if res[i].get(k) != "OK"] for k in "SFK"}
    mism["W"] = [i for i in infrag if res[i].get("W") == "MISMATCH"]
    narrow = [i for i in infrag if res[i].get("W") in ("OK", "MISMATCH")]
    return {"evaluated": len(res), "in_fragment": len(infrag), "in_narrow_fragment(rust_frag)": len(narrow),
            "wide_only_wire_equiv_true": len([i for i in infrag if res[i].get("W") == "WIDE_OK"]), "outside": len(out),
            "outside_but_schema_equal": len([i for i in out if res[i]["S"] == "OUT_EQ"]),
            "mismatch_S_schemars_model": mism["S"], "mismatch_F_in_frag": mism["F"],
            "mismatch_K_converter_model": mism["K"], "mismatch_W_wire_equiv": mism["W"],
            "outside_by_perturbation": {}}


if __name__ == "__main__":
    import argparse
    ap = argparse.ArgumentParser()
    ap.add_argument("--n", type=int, default=24)
    ap.add_argument("--seed", default="1")
    a = ap.parse_args()

    class C:
        tier = "quick"
        seed = a.seed

        def log(self, *x):
            print(*x, flush=True)
    us = generate(a.seed, a.n)
    vlib.build_harness(bins=("vh",))
    o = rustgen.Origin(C(), "c04fdev", us).build()
    print("origin compile errors:", o.compile_errors)
    res, real, dumps = evaluate(C(), "c04fdev", us, o)
    s = summarize(res, us)
    print(json.dumps(s))
    from collections import Counter
    print(Counter((us[i].get("perturb"), r.get("S")) for i, r in res.items()))
    for k in "SFKW":
        for i in s["mismatch_%s" % {"S": "S_schemars_model", "F": "F_in_frag", "K": "K_converter_model", "W": "W_wire_equiv"}[k]][:2]:
            print(k, i, res[i]); print(rustgen.rs_universe(us[i])); print(json.dumps(real[i])[:1500])
