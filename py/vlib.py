"""Shared machinery for /verif checks (python3 stdlib only).

A property check is a module py/props/cXX.py exposing `run(ctx)`; it records
obligations, correspondence batches, violations and known findings on `ctx`
(class Ctx below) and `bin/check` turns that into the exit status, the
VIOLATION / KNOWN-FINDING lines and evidence/<id>.json.
"""
import fcntl
import hashlib
import json
import os
import re
import subprocess
import sys
import time
from concurrent.futures import ThreadPoolExecutor

ROOT = "/verif"
REPO = "/repo"
WORK = os.path.join(ROOT, "work")
COQ = os.path.join(ROOT, "coq")
HARNESS = os.path.join(ROOT, "harness")
TARGET = os.path.join(WORK, "target")
VH = os.path.join(TARGET, "debug", "vh")
NCPU = os.cpu_count() or 4

ENV = dict(os.environ)
ENV.update({"CARGO_NET_OFFLINE": "true", "RUST_BACKTRACE": "0"})

FORBIDDEN = re.compile(
    r"\b(Admitted|admit|Axiom|Axioms|Parameter|Parameters|Conjecture|Conjectures|"
    r"Admit Obligations|Unset Guard Checking|Unset Positivity Checking|Unset Universe Checking|"
    r"bypass_check|type-in-type|impredicative-set|native_compute)\b"
)

# axioms the standard library / Flocq declare; every other axiom is a failure
STD_AXIOMS = {
    "ClassicalDedekindReals.sig_forall_dec",
    "ClassicalDedekindReals.sig_not_dec",
    "FunctionalExtensionality.functional_extensionality_dep",
    "Classical_Prop.classic",
}


def sh(cmd, cwd=None, timeout=3600, env=None, input=None):
    p = subprocess.run(
        cmd, cwd=cwd, env=env or ENV, input=input, capture_output=True, text=True,
        timeout=timeout, shell=isinstance(cmd, str),
    )
    return p.returncode, p.stdout, p.stderr


class Lock:
    def __init__(self, name):
        os.makedirs(WORK, exist_ok=True)
        self.path = os.path.join(WORK, name + ".lock")

    def __enter__(self):
        self.f = open(self.path, "w")
        fcntl.flock(self.f, fcntl.LOCK_EX)
        return self

    def __exit__(self, *a):
        fcntl.flock(self.f, fcntl.LOCK_UN)
        self.f.close()


# --------------------------------------------------------------------------
# Rust side
# --------------------------------------------------------------------------

class HarnessBuildError(Exception):
    pass


def build_harness(bins=("vh",)):
    """(Re)build harness binaries against /repo's current working tree (path
    dependency).  Only the named binaries are built, so a broken sibling
    binary never blocks a check."""
    cmd = ["cargo", "build", "--offline"]
    for b in bins:
        cmd += ["--bin", b]
    lock = os.path.join(HARNESS, "Cargo.lock")
    try:
        src = open(os.path.join(REPO, "Cargo.lock")).read()
        if not os.path.exists(lock) or open(lock).read() != src:
            open(lock, "w").write(src)
    except OSError:
        pass
    with Lock("cargo"):
        rc, out, err = sh(cmd, cwd=HARNESS, timeout=1800)
    if rc != 0:
        raise HarnessBuildError(err[-6000:])
    return VH


def run_bin(binname, cases, args=(), timeout=1800):
    """Run harness binary `binname` over JSON-lines cases; returns results."""
    inp = "".join(json.dumps(c) + "\n" for c in cases)
    rc, out, err = sh([os.path.join(TARGET, "debug", binname), *args], input=inp, timeout=timeout)
    if rc != 0:
        raise RuntimeError("%s failed rc=%s: %s" % (binname, rc, err[-2000:]))
    res = [json.loads(l) for l in out.splitlines() if l.strip()]
    if len(res) != len(cases):
        raise RuntimeError("%s: %d results for %d cases" % (binname, len(res), len(cases)))
    return res


def run_vh(sub, cases, args=(), timeout=1800):
    """Run `vh <sub>` over JSON-lines cases; returns list of results."""
    inp = "".join(json.dumps(c) + "\n" for c in cases)
    rc, out, err = sh([VH, sub, *args], input=inp, timeout=timeout)
    if rc != 0:
        raise RuntimeError("vh %s failed rc=%s: %s" % (sub, rc, err[-2000:]))
    res = [json.loads(l) for l in out.splitlines() if l.strip()]
    if len(res) != len(cases):
        raise RuntimeError("vh %s: %d results for %d cases" % (sub, len(res), len(cases)))
    return res


def regen_tables(which="all"):
    rc, out, err = sh([VH, "tables", REPO, os.path.join(COQ, "theories", "Gen"), which], timeout=300)
    if rc != 0:
        return False, (out + err)[-4000:]
    return True, ""


# --------------------------------------------------------------------------
# Coq side
# --------------------------------------------------------------------------

def coq_make(targets, timeout=3000):
    """Full .vo build (never -vos) of the given targets under a lock."""
    with Lock("coqmake"):
        rc, out, err = sh([os.path.join(ROOT, "bin", "coqproject")], cwd=COQ, timeout=120)
        if rc != 0:
            return False, out + err
        rc, out, err = sh(
            ["timeout", str(timeout), "make", "-f", "Makefile.coq", "-j%d" % NCPU, *targets],
            cwd=COQ, timeout=timeout + 60)
    return rc == 0, (out + err)


def _coq_str_unescape(s):
    return s.replace('""', '"')


def coqc_file(path, timeout=1200):
    # large `vm_compute` results overflow coqc's default 8 MB stack in the printer
    cmd = ["timeout", str(timeout), "coqc", "-noglob", "-Q", os.path.join(COQ, "theories"), "Typify",
           "-w", "-all", path]
    if os.path.exists("/usr/bin/prlimit"):
        cmd = ["/usr/bin/prlimit", "--stack=unlimited"] + cmd
    rc, out, err = sh(cmd, cwd=os.path.dirname(path), timeout=timeout + 30)
    return rc, out, err


def coq_eval_strings(tag, header, exprs, shard=400, timeout=1200):
    """Evaluate Coq expressions of type `string` with vm_compute.

    exprs: list of Gallina terms (text).  Returns list of python strings in
    order.  Shards over several coqc processes.  Results are printed as ONE
    string per shard, lines joined by a newline, so Coq's pretty-printer layout
    never matters."""
    d = os.path.join(WORK, "cases", tag)
    os.makedirs(d, exist_ok=True)
    for f in os.listdir(d):
        os.unlink(os.path.join(d, f))
    shards = [exprs[i:i + shard] for i in range(0, len(exprs), shard)]
    paths = []
    for k, sh_ex in enumerate(shards):
        p = os.path.join(d, "cases_%d.v" % k)
        with open(p, "w") as f:
            f.write(header + "\n")
            f.write("From Coq Require Import String List.\nImport ListNotations.\n")
            f.write("Definition vnl : string := String (Ascii.ascii_of_nat 10) EmptyString.\n")
            f.write("Definition vcases : list string := [\n")
            f.write(";\n".join("  (%s)" % e for e in sh_ex))
            f.write("\n]%list.\nSet Printing Width 1000000.\nSet Printing Depth 1000000.\n")
            f.write("Eval vm_compute in (String.concat vnl vcases).\n")
        paths.append(p)

    def one(p):
        rc, out, err = coqc_file(p, timeout)
        if rc != 0:
            raise RuntimeError("coqc failed on %s:\n%s" % (p, (out + err)[-3000:]))
        m = re.search(r'= "(.*)"\s*\n\s*: string', out, re.S)
        if not m:
            raise RuntimeError("cannot parse coqc output of %s: %s" % (p, out[-2000:]))
        return _coq_str_unescape(m.group(1)).split("\n")

    results = []
    with ThreadPoolExecutor(max_workers=NCPU) as ex:
        for k, r in enumerate(ex.map(one, paths)):
            if len(r) != len(shards[k]):
                raise RuntimeError("shard %d: %d results for %d cases" % (k, len(r), len(shards[k])))
            results.extend(r)
    return results


def coq_str(s):
    """Coq `string` literal for an ASCII python string."""
    assert all(32 <= ord(c) < 127 for c in s), s
    return '"' + s.replace('"', '""') + '"'


def coq_opt(x, f=str):
    return "None" if x is None else "(Some %s)" % f(x)


def coq_list(xs, f=str):
    return "[" + "; ".join(f(x) for x in xs) + "]"


def coq_ustring(s):
    """ustring = list N of Unicode scalar values."""
    return "[" + "; ".join("%d" % ord(c) for c in s) + "]%N"


def print_assumptions(prop, module, theorems, timeout=600):
    """Fresh `Print Assumptions` for each theorem; returns {thm: [axioms]}."""
    d = os.path.join(WORK, "audit")
    os.makedirs(d, exist_ok=True)
    p = os.path.join(d, "Audit_%s.v" % prop)
    with open(p, "w") as f:
        f.write("From Typify Require Import %s.\n" % module)
        for t in theorems:
            f.write('Goal True. idtac "@@THM %s". exact I. Qed.\nPrint Assumptions %s.\n' % (t, t))
    rc, out, err = coqc_file(p, timeout)
    if rc != 0:
        raise RuntimeError("audit failed: " + (out + err)[-3000:])
    res = {}
    cur = None
    for line in out.splitlines():
        m = re.match(r"@@THM (\S+)", line)
        if m:
            cur = m.group(1)
            res[cur] = []
            continue
        if cur is None:
            continue
        if line.startswith("Closed under the global context") or line.startswith("Axioms:"):
            continue
        m = re.match(r"^([A-Za-z_][\w.']*)\s*:", line)
        if m:
            res[cur].append(m.group(1))
    return res


def grep_forbidden():
    """Scan the whole development for forbidden vernacular; returns hits."""
    hits = []
    for dp, dn, fn in os.walk(os.path.join(COQ, "theories")):
        for f in fn:
            if not f.endswith(".v"):
                continue
            p = os.path.join(dp, f)
            txt = open(p).read()
            # strip comments (nested) before scanning
            txt = strip_coq_comments(txt)
            for i, line in enumerate(txt.splitlines(), 1):
                if FORBIDDEN.search(line):
                    hits.append("%s:%d: %s" % (os.path.relpath(p, ROOT), i, line.strip()[:120]))
    return hits


def strip_coq_comments(txt):
    out = []
    depth = 0
    i = 0
    n = len(txt)
    instr = False
    while i < n:
        c = txt[i]
        if depth == 0 and c == '"':
            instr = not instr
            out.append(c)
            i += 1
            continue
        if not instr and txt.startswith("(*", i):
            depth += 1
            i += 2
            continue
        if not instr and depth > 0 and txt.startswith("*)", i):
            depth -= 1
            i += 2
            continue
        if depth == 0:
            out.append(c)
        elif c == "\n":
            out.append(c)
        i += 1
    return "".join(out)


def repo_fingerprint():
    """Hash of /repo's tracked+modified Rust/TOML sources (working tree)."""
    h = hashlib.sha256()
    for sub in ("typify-impl", "typify", "typify-macro", "cargo-typify"):
        base = os.path.join(REPO, sub)
        for dp, dn, fn in sorted(os.walk(base)):
            dn.sort()
            if "/target" in dp:
                continue
            for f in sorted(fn):
                if f.endswith((".rs", ".toml")):
                    p = os.path.join(dp, f)
                    h.update(p.encode())
                    h.update(open(p, "rb").read())
    return h.hexdigest()[:16]


# --------------------------------------------------------------------------
# Run context, evidence, verdict
# --------------------------------------------------------------------------

class Ctx:
    def __init__(self, prop, tier, seed, replay=None):
        self.prop = prop
        self.tier = tier
        self.seed = seed
        self.replay = replay
        self.t0 = time.time()
        self.obligations = []      # (name, ok, detail)
        self.violations = []       # dict(replay payload)
        self.known = []            # (finding id, text)
        self.coverage = {}
        self.samples = []
        self.assumptions = []
        self.trusted = []
        self.evaluations = 0
        self.nontrivial = set()
        self.level = "proof"
        self.checker_cmd = ""
        self.log_lines = []
        kf = os.path.join(ROOT, "known_findings.json")
        self.known_findings = json.load(open(kf)) if os.path.exists(kf) else {"findings": [], "fixed": []}
        fd = os.path.join(ROOT, "findings")
        if os.path.isdir(fd):
            for fn in sorted(os.listdir(fd)):
                if fn.endswith(".json"):
                    extra = json.load(open(os.path.join(fd, fn)))
                    self.known_findings["findings"] += extra.get("findings", [])
                    self.known_findings["fixed"] += extra.get("fixed", [])

    def log(self, *a):
        s = " ".join(str(x) for x in a)
        self.log_lines.append(s)
        print("[%s %6.1fs] %s" % (self.prop, time.time() - self.t0, s), flush=True)

    def oblige(self, name, ok, detail=""):
        self.obligations.append((name, bool(ok), detail))
        if not ok:
            self.log("OBLIGATION FAILED:", name, detail[:2000])

    def broken(self):
        return [o for o in self.obligations if not o[1]]

    def findings_for(self):
        return [f for f in self.known_findings.get("findings", []) if f["property"] == self.prop]

    def known_finding(self, fid, text):
        if fid not in [k[0] for k in self.known]:
            self.known.append((fid, text))

    def violation(self, payload, no_input=False):
        payload = dict(payload)
        payload["property"] = self.prop
        payload["no_failing_input_found"] = bool(no_input)
        self.violations.append(payload)

    def finish(self):
        os.makedirs(os.path.join(WORK, "replay"), exist_ok=True)
        os.makedirs(os.path.join(ROOT, "evidence"), exist_ok=True)
        wall = time.time() - self.t0
        # safety net: an obligation that failed after the check took its decision (e.g. coqchk in
        # the thorough tier) must still turn the run red
        if self.broken() and not self.violations:
            self.violation({"broken_obligations": [(o[0], o[2][:1500]) for o in self.broken()],
                            "note": "an obligation no longer checks and no failing input was recorded"},
                           no_input=True)
        for fid, text in self.known:
            print("KNOWN-FINDING: property=%s %s" % (self.prop, text), flush=True)
        rc = 0
        for i, v in enumerate(self.violations):
            p = os.path.join(WORK, "replay", "%s-%d.json" % (self.prop, i))
            with open(p, "w") as f:
                json.dump(v, f, indent=1, default=str)
            print("VIOLATION property=%s replay=%s%s" % (
                self.prop, p, " no-failing-input-found" if v.get("no_failing_input_found") else ""), flush=True)
            rc = 1
        n_ob = len(self.obligations)
        n_ok = len([o for o in self.obligations if o[1]])
        cov = dict(self.coverage)
        cov.update({
            "obligations": n_ob,
            "discharged": n_ok,
            "checker_cmd": self.checker_cmd or "bin/check %s --tier %s" % (self.prop, self.tier),
            "trusted_base": self.trusted,
            "evaluations": self.evaluations,
            "distinct_nontrivial": len(self.nontrivial),
            "samples": self.samples[:12],
            "obligation_list": [{"name": n, "ok": ok} for n, ok, _ in self.obligations][:400],
            "known_findings_reproduced": [k[0] for k in self.known],
        })
        ev = {
            "property_id": self.prop,
            "tier": self.tier,
            "seed": self.seed,
            "level": self.level,
            "coverage": cov,
            "assumptions": self.assumptions,
            "wall_s": round(wall, 2),
            "violations": len(self.violations),
        }
        with open(os.path.join(ROOT, "evidence", "%s.json" % self.prop), "w") as f:
            json.dump(ev, f, indent=1, default=str)
        self.log("done: %d/%d obligations, %d violations, %d known findings, %.1fs" % (
            n_ok, n_ob, len(self.violations), len(self.known), wall))
        return rc


def standard_coq_obligations(ctx, module, theorems, allowed_axioms=(), targets=None):
    """Steps 1 of DESIGN 2.7: build, forbidden-token scan, Print Assumptions."""
    tgt = targets or ["theories/" + module.replace(".", "/") + ".vo"]
    ok, out = coq_make(tgt)
    ctx.oblige("coq-build:" + ",".join(tgt), ok, out[-3000:])
    hits = grep_forbidden()
    ctx.oblige("no-Admitted/Axiom/Parameter/guard-switch in development", not hits, "\n".join(hits))
    if not ok:
        # find which theorems still compile is impossible without the .vo: report all
        for t in theorems:
            ctx.oblige("theorem:" + t, False, "property file does not compile")
        return False
    try:
        ass = print_assumptions(ctx.prop, module, theorems)
    except Exception as e:  # noqa
        ctx.oblige("print-assumptions", False, str(e))
        return False
    allowed = set(allowed_axioms)
    axioms_seen = set()
    for t in theorems:
        if t not in ass:
            ctx.oblige("theorem:" + t, False, "missing from audit output")
            continue
        bad = [a for a in ass[t] if a not in allowed]
        axioms_seen.update(ass[t])
        ctx.oblige("theorem:" + t, not bad, "unexpected assumptions: %s" % bad)
    ctx.coverage["axioms_reported_by_Print_Assumptions"] = sorted(axioms_seen)
    return True
