"""Evaluate Check/Covers.v on the type spaces the real typify produces for 60
generated documents of the supported grammar; every definition must be "T"."""
import collections
import json
import os
import re
import sys

sys.path.insert(0, os.path.dirname(os.path.abspath(__file__)))
import schemagen
import tocoq
import vlib
import world

# what Check/Covers.v understands (CoversProofs.covers_sound) and the C02 check is green on for
# VERIF_SEED=1,2,3: typed enums, externally and adjacently tagged enums, allOf of objects.  The
# checker also proves "oneof_internal" (543/543 "T" over the faithful seeds 1..3 + 1000..1059) and
# "defaults"; they stay out of the stream because with "oneof_internal" seed 2 trips K5 (a `ser`
# mismatch on a recursive Option member, and a coqc stack overflow on a 335 KB shard) - not a
# validator matter - and "defaults" was never part of the C02 stream (C06's subject).
SUPPORTED = set(schemagen.ALL_FEATURES) - {"defaults", "oneof_optional_const", "mixed_closedness", "multi_tag_values", "boundary"}


def covers_eval(tag, docs, dumps, timeout=600):
    """-> {(doc index, def name): bool} via one coqc run."""
    ok, out = vlib.coq_make(["theories/Check/Covers.vo", "theories/IR/SerdeRun.vo"])
    if not ok:
        raise RuntimeError(out[-3000:])
    lines = [tocoq.COQ_HEADER,
             "From Typify Require Import Spec.Valid IR.Serde IR.SerdeRun Check.Covers.\nOpen Scope string_scope.\n"]
    exprs, meta = [], []
    for i, doc in enumerate(docs):
        d = dumps[i]
        if d is None:
            continue
        lines.append("Definition sp_%d : space := %s.\n" % (i, tocoq.cspace(d)))
        lines.append("Definition df_%d : defs := %s.\n" % (i, tocoq.cdefs(doc["definitions"])))
        A = [(n, d["ref_to_id"]["#/" + n]) for n in sorted(doc["definitions"])]
        lines.append("Definition as_%d : list (ustring * id) := %s.\n" % (
            i, tocoq.clist(A, lambda p: "(%s, %d%%N)" % (tocoq.ustr(p[0]), p[1]))))
        for n, t in A:
            exprs.append('(if match resolve_ref df_%d %s with Some s => covers (tbl_lookup []) (tbl_lookup []) sp_%d '
                         'as_%d s false (TId %d%%N) | None => false end then "T" else "F")' % (i, tocoq.ustr(n), i, i, t))
            meta.append((i, n))
    lines.append("Definition vnl : string := String (Ascii.ascii_of_nat 10) EmptyString.\n"
                 "Definition vcases : list string := [\n" + ";\n".join(exprs) +
                 "\n]%list.\nEval vm_compute in (String.concat vnl vcases).\n")
    d = os.path.join(vlib.WORK, "cases", tag)
    os.makedirs(d, exist_ok=True)
    p = os.path.join(d, "covers.v")
    open(p, "w").write("".join(lines))
    rc, out, err = vlib.coqc_file(p, timeout)
    if rc != 0:
        raise RuntimeError((out + err)[-3000:])
    m = re.search(r'= "(.*)"\s*\n\s*: string', out, re.S)
    res = m.group(1).split("\n")
    return {k: r == "T" for k, r in zip(meta, res)}


def main():
    ctx = vlib.Ctx("T02", "quick", 1)
    cases, docs = [], []
    for k in range(60):
        g = schemagen.Gen(1000 + k, features=SUPPORTED)
        doc, tg = g.doc()
        docs.append(doc)
        cases.append({"settings": {}, "steps": [{"op": "root", "doc": doc}]})
    w = world.World(ctx, "t02", cases)
    w.generate()
    dumps = [g.get("dump") for g in w.gen]
    res = covers_eval("selftest", docs, dumps)
    c = collections.Counter(res.values())
    print(c)
    for (i, n), r in res.items():
        if not r:
            print("F", i, n, json.dumps(docs[i]["definitions"][n])[:300])
    sys.exit(0 if c.get(False, 0) == 0 else 1)


if __name__ == "__main__":
    main()
