"""Curated hostile corpus for C01 (DESIGN 2.6 "hostile stream"): a FIXED list of
schema documents / settings / histories chosen to trip rustc or typify:
name collisions, keywords, empty names, prelude names, deep nesting,
contradictory allOf, invalid defaults, x-rust-type variants, one-element
tuples, 13-tuples, 33-arrays, enums with null, alias cycles, impl-coherence
traps, default-function name collisions, odd settings.

    cases() -> list of {"id", "group", "note", "settings", "steps"}

The corpus is deterministic (no PRNG).  The expected outcome of every case
(pass / rejected-at-add / finding class) is recorded in
corpus/C01/hostile_expect.json, produced during the build phase and compared on
every run by py/props/c01.py; nothing here depends on typify.
"""

S = {"type": "string"}
I = {"type": "integer"}
B = {"type": "boolean"}
N = {"type": "number"}
NUL = {"type": "null"}


def ref(n):
    return {"$ref": "#/definitions/" + n}


def obj(props, required=None, **kw):
    s = {"type": "object", "properties": props}
    if required:
        s["required"] = list(required)
    s.update(kw)
    return s


def root(defs, **kw):
    d = {"$schema": "http://json-schema.org/draft-07/schema#", "definitions": defs}
    d.update(kw)
    return [{"op": "root", "doc": d}]


def refs(defs):
    return [{"op": "refs", "defs": defs}]


def tup(n, item=None):
    return {"type": "array", "items": [dict(item or I) for _ in range(n)], "minItems": n, "maxItems": n}


def arr(n, item=None):
    return {"type": "array", "items": dict(item or I), "minItems": n, "maxItems": n}


# a feature mix that makes the templates mention String / Vec / Option / Default /
# Ok / Err / Result in every flavour of emitted impl
def mix(extra):
    d = {
        "Other": obj({"a": S, "b": {"type": "array", "items": S}, "c": I,
                      "d": {"type": "integer", "default": 7},
                      "e": {"type": "string", "default": "x"},
                      "m": {"type": "object", "additionalProperties": S}}, ["a"]),
        "Color": {"type": "string", "enum": ["red", "green"]},
        "Pat": {"type": "string", "pattern": "^a+$"},
        "Len": {"type": "string", "maxLength": 4},
        "Un": {"oneOf": [S, I]},
        "Ali": {"type": "string"},
        "Deny": {"type": "string", "not": {"enum": ["x"]}},
        "Num": {"type": "integer", "enum": [1, 2]},
        "WithDefault": obj({"x": I}, default={"x": 1}),
    }
    d.update(extra)
    return d


PRELUDE = ["String", "Vec", "Option", "Default", "Result", "Box", "Some", "None", "Ok", "Err", "Self",
           "Error", "ToString", "From", "TryFrom", "Into", "Clone", "Debug", "Deserialize", "Serialize", "Sized",
           "Iterator", "Copy", "Drop", "Fn", "Send", "Sync", "Eq", "Ord", "PartialEq", "Hash", "Display", "FromStr",
           "Value", "Map", "HashMap", "Regex", "Uuid", "str", "u8", "i64", "bool", "f64", "usize", "char",
           "std", "core", "serde", "serde_json", "builder", "defaults", "error", "ConversionError"]

KEYWORDS = ["type", "self", "Self", "crate", "super", "fn", "async", "await", "dyn", "impl", "match", "mod",
            "move", "ref", "struct", "enum", "trait", "use", "where", "while", "yield", "try", "box", "macro",
            "abstract", "final", "override", "typeof", "unsized", "virtual", "union", "gen", "static", "const",
            "true", "false", "loop", "in", "let", "as", "break", "continue", "else", "extern", "for", "if", "mut",
            "pub", "return", "unsafe", "become", "do", "priv", "_", "__", "r#type"]


def cases():
    out = []

    def add(cid, group, steps, settings=None, note=""):
        out.append({"id": cid, "group": group, "note": note, "settings": settings or {}, "steps": steps})

    # ------------------------------------------------------------ prelude names
    for n in PRELUDE:
        add("prelude-struct-" + n, "prelude", root(mix({n: obj({"v": S, "w": {"type": "array", "items": I}}, ["v"])})),
            note="definition named %s as a struct, next to the feature mix" % n)
    for n in ["String", "Vec", "Option", "Default", "Result", "Box", "Some", "None", "Ok", "Err", "Self", "Error"]:
        add("prelude-enum-" + n, "prelude", root(mix({n: {"type": "string", "enum": ["a", "b"]}})),
            note="definition named %s as a simple string enum" % n)
        add("prelude-newtype-" + n, "prelude", root(mix({n: {"type": "string", "pattern": "^b+$"}})),
            note="definition named %s as a constrained string newtype" % n)
        add("prelude-builder-" + n, "prelude", root(mix({n: obj({"v": S}, ["v"])})), {"struct_builder": True},
            note="definition named %s as a struct, struct_builder on" % n)
        add("prelude-alone-" + n, "prelude", root({n: obj({"v": S, "o": I}, ["v"])}),
            note="definition named %s alone (no other template)" % n)
    setmix = {"St": {"type": "array", "items": S, "uniqueItems": True}, "Tree": obj({"next": ref("Tree"), "kids": {"type": "array", "items": ref("Tree")}}),
              "Dn": obj({"o": dict(obj({"q": {"type": ["string", "null"]}}), default={"q": "s"}), "v": {"type": "array", "items": I, "default": [1]},
                         "b": dict(ref("Tree"), default={})})}
    for n in ["Vec", "Box", "Some", "None", "Option", "String"]:
        for kind, sch in (("struct", obj({"v": S}, ["v"])), ("newtype", {"type": "string", "pattern": "^b+$"}), ("alias", {"type": "string"})):
            add("prelude2-%s-%s" % (kind, n), "prelude", root(dict(setmix, **{n: sch})),
                note="definition named %s (%s) next to a set, a Box, rendered Option/vec!/Box defaults" % (n, kind))
    for n in ["Ok", "Err"]:
        add("prelude2-alias-" + n, "prelude", root(mix({n: {"type": "string"}})), note="unconstrained newtype (pub tuple struct) named " + n)
        add("prelude2-int-" + n, "prelude", root(mix({n: {"type": "integer", "enum": [1, 2]}})), note="enum-valued newtype named " + n)
        add("prelude2-alone-newtype-" + n, "prelude", root({n: {"type": "string", "pattern": "^b+$"}}), note="constrained newtype named %s alone" % n)
    # variant names that shadow prelude constructors inside `use`-less templates
    add("prelude-variants", "prelude", root({"E": {"type": "string", "enum": ["Some", "None", "Ok", "Err", "Self", "String"]}}))
    add("prelude-variants-untagged", "prelude",
        root({"E": {"oneOf": [{"title": "Ok", "type": "string"}, {"title": "Err", "type": "integer"}]}}))
    add("prelude-fields", "prelude",
        root({"P": obj({"String": S, "Vec": I, "Option": B, "value": S, "Ok": S, "self": S, "std": S, "Default": S}, ["value"])}),
        {"struct_builder": True})

    # ------------------------------------------------------------ name collisions
    add("coll-defs-foo-Foo", "collision", root({"foo": obj({"a": S}), "Foo": obj({"b": I})}), note="C08-F2 / C16-2")
    add("coll-defs-foo-bar", "collision", root({"foo-bar": obj({"a": S}), "foo_bar": obj({"b": I})}))
    add("coll-defs-empty-x", "collision", root({"": obj({"a": S}), "X": obj({"b": I})}))
    add("coll-props-foo-bar", "collision", root({"P": obj({"foo-bar": S, "foo_bar": S})}), note="fixed by 5896b59: rejected")
    add("coll-props-case", "collision", root({"P": obj({"fooBar": S, "foo_bar": S})}))
    add("coll-props-self", "collision", root({"P": obj({"self": S, "self_": S})}))
    add("coll-props-extra", "collision", root({"P": obj({"extra": S}, additionalProperties=I)}))
    add("coll-variants-a-A", "collision", root({"E": {"type": "string", "enum": ["a", "A"]}}))
    add("coll-variants-dup", "collision", root({"E": {"type": "string", "enum": ["a", "a"]}}))
    add("coll-variants-x", "collision", root({"E": {"type": "string", "enum": ["a", "a_"]}}))
    add("coll-variants-sym", "collision", root({"E": {"type": "string", "enum": ["+", "-", "=", "<", ">"]}}))
    add("coll-variants-nonadjacent", "collision", root({"E": {"type": "string", "enum": ["read", "write", "read*"]}}),
        note="first and third become Read with an unrelated value between them")
    add("coll-variants-nonadjacent-2", "collision", root({"E": {"type": "string", "enum": ["Read", "write", "exec", "list", "read"]}}))
    add("coll-variants-first-last-panic", "collision", root({"E": {"type": "string", "enum": ["a", "w", "A"]}}),
        note="X substitution does not separate a / A: must panic at add")
    add("coll-variants-three-way", "collision", root({"E": {"type": "string", "enum": ["a", "w", "a_", "x", "A"]}}),
        note="X substitution resolves a / a_ but not a / A")
    add("coll-variants-digit-prefix", "collision", root({"E": {"type": "string", "enum": ["1a", "w", "x1a"]}}))
    add("coll-variants-adjacent-fixture", "collision", root({"E": {"type": "string", "enum": ["2.5GBASE-T", "25GBASE-T", "10GBASE-T"]}}))
    add("coll-tagged-variants-nonadjacent", "collision",
        root({"E": {"oneOf": [obj({n: I}, [n], additionalProperties=False) for n in ("read", "write", "read*")]}}))
    add("coll-internal-variants-nonadjacent", "collision",
        root({"E": {"oneOf": [obj({"tag": {"type": "string", "enum": [n]}, "v": I}, ["tag"]) for n in ("Read", "write", "read")]}}))
    add("coll-extra-after", "collision", root({"P": obj({"extra": S, "zone": S}, additionalProperties=I)}),
        note="a property sorting AFTER `extra` next to the synthesised flattened field")
    add("coll-extra-before", "collision", root({"P": obj({"alpha": S, "extra": S}, additionalProperties=I)}))
    add("coll-extra-both", "collision", root({"P": obj({"alpha": S, "extra": S, "zone": S}, additionalProperties=I)}))
    add("coll-extra-absent", "collision", root({"P": obj({"alpha": S, "zone": S}, additionalProperties=I)}), note="no collision: must compile")
    add("coll-derived-name", "collision",
        root({"BXy": obj({"q": ref("b")}, ["q"]), "b": obj({"xy": obj({"z": I}, ["z"])}, ["xy"])}), note="C07-1")
    add("coll-derived-name-2", "collision",
        root({"AB": obj({"q": I}, ["q"]), "A": obj({"b": obj({"z": S}, ["z"])}, ["b"])}),
        note="inline object A.b is named AB = an existing definition with ANOTHER structure")
    add("coll-title-def", "collision",
        root({"A": obj({"p": dict(obj({"z": I}), title="B")}), "B": obj({"q": S})}), note="C16-3")
    add("coll-title-root", "collision", root({"Foo": obj({"q": S})}, title="Foo", type="object", properties={"r": I}))
    # a titled ROOT against the names of its own call (fix c22ef06 rejects root title = definition name)
    add("root-title-eq-def", "collision", root({"Config": obj({"a": S})}, title="Config", type="object", properties={"r": I}),
        note="must be rejected at add (c22ef06): root title = a definition name")
    add("root-title-case-sep", "collision", root({"DiskConfig": obj({"a": S})}, title="disk-config", type="object", properties={"r": I}),
        note="must be rejected at add (c22ef06): root title differs from the definition name by case / separators only")
    add("root-title-no-type", "collision", root({"Config": obj({"a": S})}, title="Config"),
        note="must be rejected at add (c22ef06): titled root without a body of its own")
    add("root-title-enum-root", "collision", root({"Config": obj({"a": S})}, title="config", type="string", enum=["a", "b"]),
        note="must be rejected at add (c22ef06): root is an enum")
    add("root-title-ref-root", "collision", root({"Config": obj({"a": S})}, title="Config", **{"$ref": "#/definitions/Config"}),
        note="must be rejected at add (c22ef06): root refers to the definition of its own name")
    add("root-title-eq-inline-title", "collision",
        root({"A": obj({"p": dict(obj({"z": I}), title="T")})}, title="T", type="object", properties={"r": I}),
        note="root title = the title of an inline sub-schema of a definition: two items T (C16-3 shape with the root)")
    add("root-title-eq-derived", "collision", root({"A": obj({"p": obj({"z": I})})}, title="AP", type="object", properties={"r": I}),
        note="root title AP next to the derived name Ap of A.p: distinct identifiers")
    add("root-title-distinct", "collision", root({"Config": obj({"a": S})}, title="Other", type="object", properties={"r": I}))
    # inline sub-schema under a property whose name contributes nothing to the derived type name
    add("inline-empty-suffix-underscore", "collision", root({"A": obj({"_": obj({"z": I})})}),
        note="A._ inline object is named A ++ Pascal(_) = A: two items A")
    add("inline-empty-suffix-empty-enum", "collision", root({"A": obj({"": {"type": "string", "enum": ["p", "q"]}})}),
        note="A.\"\" inline enum is named A")
    add("inline-empty-suffix-dash-root", "collision",
        [{"op": "root", "doc": {"title": "TestType", "type": "object", "properties": {"-": obj({"z": I}), "k": S}}}],
        note="same under a titled root")
    add("inline-empty-suffix-scalar", "collision", root({"A": obj({"_": S, "": I})}, ), note="no inline type: fields x / x_... only")
    add("coll-title-same-two", "collision",
        root({"A": obj({"p": dict(obj({"z": I}), title="T"), "q": dict(obj({"y": S}), title="T")})}))
    add("coll-variant-types", "collision",
        root({"E": {"oneOf": [obj({"a": I}, ["a"]), obj({"b": I}, ["b"])]}, "EVariant0": obj({"c": I})}))
    add("coll-enum-null", "collision", root({"E": {"enum": [None, "a"]}}), note="C19 observation")
    add("coll-enum-null-only", "collision", root({"E": {"enum": [None]}}))
    add("coll-enum-null-typed", "collision", root({"E": {"type": ["string", "null"], "enum": ["a", "b", None]}}))
    add("coll-nullable-inner", "collision", root({"E": {"oneOf": [obj({"a": I}), NUL]}}), note="fixed 4d66c9c")
    add("coll-nullable-inner-any", "collision", root({"E": {"anyOf": [{"type": "string", "enum": ["a", "b"]}, NUL]}}))
    add("coll-nfc", "collision", root({"P": obj({"\uac00": S, "\u1100\u1161": S})}), note="C08-F4")
    add("coll-default-fns", "collision",
        root({"A": obj({"b_c": {"type": "integer", "default": 5}}), "AB": obj({"c": {"type": "integer", "default": 6}})}),
        note="default functions a_b_c / ab_c in mod defaults")
    add("coll-default-fns-2", "collision",
        root({"A": obj({"b_c": {"type": "string", "default": "p"}}), "AB": obj({"c": {"type": "string", "default": "q"}})}))
    add("coll-default-fns-3", "collision",
        root({"AbC": obj({"d": {"type": "string", "default": "p"}}), "Ab": obj({"c_d": {"type": "string", "default": "q"}})}),
        note="sanitize(AbC_d) = sanitize(Ab_c_d) = ab_c_d: two functions of one name in mod defaults")
    add("coll-default-fns-4", "collision",
        root({"AbC": obj({"d": {"type": "string", "default": "p"}}), "Ab": obj({"c_d": {"type": "string", "default": "p"}})}),
        note="same, equal default values")
    add("coll-default-fn-builtin", "collision",
        root({"DefaultU": obj({"64": {"type": "string", "default": "p"}, "n": {"type": "integer", "default": 3}})}),
        note="custom default function named like the generic default_u64")
    add("coll-patch-rename-same", "collision", root({"A": obj({"a": S}), "B": obj({"b": S})}),
        {"patch": {"A": {"rename": "C"}, "B": {"rename": "C"}}})
    add("coll-patch-rename-existing", "collision", root({"A": obj({"a": S}), "B": obj({"b": S})}),
        {"patch": {"A": {"rename": "B"}}})
    add("coll-patch-rename-mod", "collision", root({"A": obj({"a": S})}), {"patch": {"A": {"rename": "error"}}})
    add("coll-patch-rename-invalid", "collision", root({"A": obj({"a": S})}), {"patch": {"A": {"rename": "my type"}}})
    add("coll-patch-rename-keyword", "collision", root({"A": obj({"a": S})}), {"patch": {"A": {"rename": "struct"}}})
    add("coll-readd-same-doc", "collision", root({"A": obj({"a": S})}) + root({"A": obj({"a": S})}), note="C16-1")

    # ------------------------------------------------------------ keywords, odd names
    kwp = [k for k in KEYWORDS if k not in ("Self", "__", "r#type")]
    add("kw-props", "names", root({"P": obj({k: S for k in kwp}, ["type"])}))
    add("kw-props-builder", "names", root({"P": obj({k: S for k in kwp}, ["type"])}), {"struct_builder": True})
    add("kw-props-collide", "names", root({"P": obj({"self": S, "Self": S})}), note="both map to self_: rejected since 5896b59")
    add("kw-defs", "names", root({k: obj({"a": S}) for k in KEYWORDS if k not in ("self", "_", "__", "r#type")}))
    add("kw-variants", "names", root({"E": {"type": "string", "enum": [k for k in KEYWORDS if k not in ("self",)]}}))
    add("kw-variant-objs", "names",
        root({"E": {"oneOf": [obj({k: I}, [k], additionalProperties=False) for k in ("type", "self", "fn", "Box")]}}))
    add("empty-prop", "names", root({"P": obj({"": S, "a": I})}))
    add("empty-def", "names", root({"": obj({"a": S})}))
    add("empty-variant", "names", root({"E": {"type": "string", "enum": ["", "a"]}}))
    add("odd-props", "names",
        root({"P": obj({"$ref_": S, "a b": S, "1": S, "+1": S, "-1": S, "c.d": S, "@y": S, "x'y": S, "e\u0301": S,
                        "f\ng": S, "h\"i": S, "j\\k": S, "{z}": S, "A": S})}))
    add("odd-props-plus1", "names", root({"P": obj({"+1": S, "plus1": S})}))
    add("odd-defs", "names", root({"a b": obj({"a": S}), "1st": obj({"a": S}), "$x": obj({"a": S}), "a.b.C": obj({"a": S}),
                                   "x'y": obj({"a": S}), "+1": obj({"a": S}), "été": obj({"a": S})}))
    add("odd-variants", "names", root({"E": {"type": "string", "enum": ["a b", "1", "+1", "-1", "c\"d", "e\\f", "{x}", "é", "g\nh"]}}))
    add("odd-docs", "names",
        root({"P": dict(obj({"a": dict(S, description="*/ \" \\ {x} \n ``` # ")}), description="/* */ \" \\u{1} {} \n///")}))
    add("long-name", "names", root({"L" * 300: obj({"p" * 300: S})}))
    add("type-mod", "names", root(mix({})), {"type_mod": "my::types"})
    add("type-mod-builder", "names", root(mix({})), {"type_mod": "types", "struct_builder": True})

    # ------------------------------------------------------------ deep nesting
    s = S
    for _ in range(12):
        s = obj({"n": s}, ["n"])
    add("deep-objects", "deep", root({"D": s}))
    s = S
    for _ in range(12):
        s = {"type": "array", "items": s}
    add("deep-arrays", "deep", root({"D": s}))
    s = S
    for _ in range(6):
        s = {"oneOf": [s, NUL]}
    add("deep-nullable", "deep", root({"D": s, "P": obj({"p": s})}))
    s = S
    for k in range(6):
        s = {"oneOf": [obj({"a%d" % k: s}, ["a%d" % k], additionalProperties=False), obj({"b%d" % k: I}, ["b%d" % k], additionalProperties=False)]}
    add("deep-enums", "deep", root({"D": s}))
    s = I
    for _ in range(5):
        s = tup(2, s)
    add("deep-tuples", "deep", root({"D": s}))
    s = {"type": "object", "additionalProperties": S}
    for _ in range(6):
        s = {"type": "object", "additionalProperties": s}
    add("deep-maps", "deep", root({"D": s}))

    # ------------------------------------------------------------ contradictory / odd allOf, not, const
    add("allof-str-int", "allof", root({"C": {"allOf": [S, I]}}))
    add("allof-bounds", "allof", root({"C": {"allOf": [{"type": "integer", "maximum": 1}, {"type": "integer", "minimum": 5}]}}))
    add("allof-required-missing", "allof", root({"C": {"allOf": [obj({"a": S}, ["a"], additionalProperties=False), obj({"b": S}, ["b"])]}}))
    add("allof-prop-conflict", "allof", root({"C": {"allOf": [obj({"a": S}, ["a"]), obj({"a": I}, ["a"])]}}))
    add("allof-ref-ref", "allof", root({"A": obj({"a": S}, ["a"]), "B": obj({"b": I}), "C": {"allOf": [ref("A"), ref("B")]}}))
    add("allof-ref-self", "allof", root({"C": {"allOf": [ref("C"), obj({"b": I})]}}))
    add("allof-enum-disjoint", "allof", root({"C": {"allOf": [{"type": "string", "enum": ["a"]}, {"type": "string", "enum": ["b"]}]}}))
    add("allof-single-ref", "allof", root({"A": obj({"a": S}), "C": {"allOf": [ref("A")], "description": "d"}}))
    add("allof-empty", "allof", root({"C": {"allOf": []}}))
    add("oneof-empty", "allof", root({"C": {"oneOf": []}}))
    add("anyof-empty", "allof", root({"C": {"anyOf": []}}))
    add("oneof-single", "allof", root({"C": {"oneOf": [obj({"a": S})]}}))
    add("anyof-mixed", "allof", root({"C": {"anyOf": [S, obj({"a": I}), {"type": "array", "items": S}]}}))
    add("anyof-overlap-objs", "allof", root({"C": {"anyOf": [obj({"a": S}), obj({"a": I, "b": S})]}}))
    add("anyof-overlap-builder", "allof", root({"C": {"anyOf": [obj({"a": S}), obj({"b": S})]}}), {"struct_builder": True})
    add("not-enum", "allof", root({"C": {"not": {"enum": ["a", 1]}}}))
    add("not-type", "allof", root({"C": {"not": {"type": "string"}}}))
    add("not-not", "allof", root({"C": {"not": {"not": S}}}))
    add("const-values", "allof", root({"P": obj({"a": {"const": "x"}, "b": {"const": 1}, "c": {"const": None}, "d": {"const": {"k": 1}},
                                                "e": {"const": [1, 2]}, "f": {"const": 1.5}, "g": {"const": True}})}))
    add("enum-mixed", "allof", root({"E": {"enum": [1, "a", True, None, 1.5, [1], {"k": 1}]}}))
    add("enum-int", "allof", root({"E": {"type": "integer", "enum": [1, 2, 3]}, "F": {"enum": [1, 2]}, "G": {"type": "number", "enum": [1.5, 2]}}))
    add("enum-empty", "allof", root({"E": {"type": "string", "enum": []}}))
    add("enum-objects", "allof", root({"E": {"enum": [{"a": 1}, {"a": 2}]}}))
    add("bool-schemas", "allof", root({"T": True, "F": False, "P": obj({"t": True, "f": False, "e": {}}, ["t"])}))
    add("multi-type", "allof", root({"M": {"type": ["string", "integer", "boolean", "null", "array", "object", "number"]},
                                     "M2": {"type": ["string", "integer"], "maxLength": 3, "minimum": 0}}))
    add("if-then-else", "allof", root({"C": {"if": S, "then": {"maxLength": 3}, "else": I}}))
    add("pattern-props", "allof", root({"C": {"type": "object", "patternProperties": {"^a": S}},
                                        "D": {"type": "object", "patternProperties": {"^a": S, "^b": I}, "additionalProperties": False},
                                        "E": {"type": "object", "propertyNames": {"pattern": "^[a-z]+$"}, "additionalProperties": I},
                                        "F": {"type": "object", "propertyNames": {"format": "uuid"}, "additionalProperties": I}}))
    add("required-unknown", "allof", root({"C": obj({"a": S}, ["a", "zz"])}))
    add("bad-bounds", "allof", root({"C": {"type": "integer", "minimum": 10, "maximum": 1}, "D": {"type": "string", "minLength": 5, "maxLength": 1},
                                     "E": {"type": "array", "items": S, "minItems": 5, "maxItems": 1}, "F": {"type": "string", "pattern": "("}}))
    add("number-formats", "allof", root({"P": obj({"a": {"type": "number", "format": "float"}, "b": {"type": "number", "format": "double"},
                                                   "c": {"type": "integer", "format": "int128"}, "d": {"type": "string", "format": "int32"},
                                                   "e": {"type": "number", "minimum": 0, "maximum": 10}, "f": {"type": "integer", "multipleOf": 3},
                                                   "g": {"type": "number", "multipleOf": 0.5}, "h": {"type": "integer", "minimum": 1},
                                                   "i": {"type": "integer", "format": "uint64", "minimum": 1}})}))
    add("string-formats", "allof", root({"P": obj({k.replace("-", "_"): {"type": "string", "format": k} for k in
                                                   ["uuid", "date", "date-time", "time", "duration", "ip", "ipv4", "ipv6", "uri", "email",
                                                    "hostname", "regex", "binary", "byte", "password", "my-own"]})}))

    # ------------------------------------------------------------ invalid / odd defaults
    def dflt(cid, sch, d, builder=False, note=""):
        add("default-" + cid, "defaults", root({"P": obj({"p": dict(sch, default=d)})}), {"struct_builder": True} if builder else None, note)
    dflt("string-5", S, 5, note="fixed 9891d21: rejected")
    dflt("int-x", I, "x")
    dflt("int-float", I, 1.5)
    dflt("int-big", {"type": "integer", "format": "uint8"}, 300)
    dflt("int-neg", {"type": "integer", "minimum": 0}, -1)
    dflt("bool-null", B, None)
    dflt("null-null", NUL, None, note="fixed cd15928")
    dflt("array-wrong", {"type": "array", "items": I}, ["a"])
    dflt("array-nested", {"type": "array", "items": {"type": "array", "items": I}}, [[1], [2, 3]])
    dflt("set", {"type": "array", "items": I, "uniqueItems": True}, [1, 2])
    dflt("map", {"type": "object", "additionalProperties": I}, {"a": 1})
    dflt("map-empty", {"type": "object", "additionalProperties": I}, {})
    dflt("tuple1", tup(1), [3], note="fixed dc9ac49")
    dflt("tuple2", tup(2), [3, 4])
    dflt("tuple-short", tup(2), [3])
    dflt("array3", arr(3), [1, 2, 3])
    dflt("array3-short", arr(3), [1, 2])
    dflt("obj", obj({"a": I, "b": S}, ["a"]), {"a": 1})
    dflt("obj-missing", obj({"a": I, "b": S}, ["a"]), {"b": "x"})
    dflt("obj-extra", obj({"a": I}, ["a"], additionalProperties=False), {"a": 1, "z": 2})
    dflt("obj-flatten", obj({"a": I}, ["a"], additionalProperties=S), {"a": 1, "z": "q"}, note="fixed 31ec69c")
    dflt("obj-builder", obj({"a": I, "b": S}, ["a"]), {"a": 1}, builder=True)
    dflt("enum-ok", {"type": "string", "enum": ["a", "b"]}, "a")
    dflt("enum-bad", {"type": "string", "enum": ["a", "b"]}, "c")
    dflt("enum-ext", {"oneOf": [obj({"a": I}, ["a"], additionalProperties=False), obj({"b": S}, ["b"], additionalProperties=False)]}, {"a": 1})
    dflt("enum-int", {"oneOf": [obj({"t": {"enum": ["x"]}, "v": I}, ["t", "v"]), obj({"t": {"enum": ["y"]}, "w": S}, ["t", "w"])]}, {"t": "x", "v": 1})
    dflt("enum-adj", {"oneOf": [obj({"t": {"enum": ["x"]}, "c": I}, ["t", "c"], additionalProperties=False),
                                obj({"t": {"enum": ["y"]}, "c": S}, ["t", "c"], additionalProperties=False)]}, {"t": "x", "c": 1})
    dflt("enum-untagged", {"oneOf": [S, I]}, 3)
    dflt("enum-untagged-tuple1", {"oneOf": [S, tup(1)]}, [3])
    dflt("nullable", {"type": ["string", "null"]}, None)
    dflt("nullable-val", {"type": ["string", "null"]}, "x")
    dflt("uuid", {"type": "string", "format": "uuid"}, "123e4567-e89b-12d3-a456-426614174000", note="C17-F3")
    dflt("uuid-bad", {"type": "string", "format": "uuid"}, "nope", note="C06-F7")
    dflt("date", {"type": "string", "format": "date"}, "2020-01-01")
    dflt("float", N, 1.5)
    dflt("float-int", N, 1)
    dflt("float-bad", N, "x", note="C06-F9")
    dflt("any", {}, {"a": [1, None]})
    dflt("pattern-bad", {"type": "string", "pattern": "^a$"}, "b", note="fixed 9117497")
    dflt("pattern-ok", {"type": "string", "pattern": "^a$"}, "a")
    dflt("maxlen", {"type": "string", "maxLength": 3}, "toolong")
    dflt("nonzero", {"type": "integer", "minimum": 1}, 0)
    dflt("nonzero-ok", {"type": "integer", "minimum": 1}, 1)
    dflt("i64-min", {"type": "integer", "format": "int64"}, -9223372036854775808)
    dflt("u64-max", {"type": "integer", "format": "uint64"}, 18446744073709551615)
    dflt("string-escapes", S, "a\"b\\c\n{d}é\u0000")
    # boundary values that reach output_value (not the generic default_u64 / default_i64 functions)
    U64 = {"type": "integer", "format": "uint64"}
    BIG, I64MAX1 = 18446744073709551615, 9223372036854775808
    dflt("u64max-in-vec", {"type": "array", "items": U64}, [BIG])
    dflt("u64max-in-tuple", {"type": "array", "items": [U64, U64], "minItems": 2, "maxItems": 2}, [0, BIG])
    dflt("u64-above-i64-in-option", {"type": ["integer", "null"], "format": "uint64"}, I64MAX1)
    dflt("u64max-in-map", {"type": "object", "additionalProperties": U64}, {"k": BIG})
    dflt("u64max-in-struct", obj({"a": U64}, ["a"]), {"a": BIG})
    dflt("u64max-in-variant", {"oneOf": [obj({"a": U64}, ["a"], additionalProperties=False), obj({"b": B}, ["b"], additionalProperties=False)]}, {"a": BIG})
    dflt("nzu64max-in-vec", {"type": "array", "items": {"type": "integer", "format": "uint64", "minimum": 1}}, [BIG, 1])
    dflt("i64min-in-vec", {"type": "array", "items": I}, [-9223372036854775808, 9223372036854775807])
    dflt("two53-in-vec", {"type": "array", "items": I}, [9007199254740993, -9007199254740993])
    dflt("float-limits-in-vec", {"type": "array", "items": N}, [1e308, 5e-324, -0.0, 1e3])
    dflt("float-limits-bare", N, 1e308)
    dflt("float-negzero", N, -0.0)
    dflt("float-denormal", N, 5e-324)
    dflt("string-10k", S, "x" * 10000)
    dflt("string-odd-in-vec", {"type": "array", "items": S}, ["", "\u00e9\u65e5\u672c\U0001F600", "a\"b\\c{d}\n\t", "}}{{{0}"])
    add("default-def-newtype-u64max", "defaults", root({"N": dict(U64, default=BIG), "P": obj({"q": ref("N")})}),
        note="named integer newtype whose definition default is u64::MAX")
    add("default-def-newtype-i64min", "defaults", root({"N": {"type": "integer", "default": -9223372036854775808}, "P": obj({"q": ref("N")})}))
    add("default-ref", "defaults", root({"Q": obj({"a": I}, ["a"]), "P": obj({"p": dict(ref("Q"), default={"a": 2})})}))
    add("default-ref-allof", "defaults", root({"Q": obj({"a": I}, ["a"]), "P": obj({"p": {"allOf": [ref("Q")], "default": {"a": 2}}})}))
    add("default-def-struct", "defaults", root({"Q": obj({"a": I, "b": S}, ["a"], default={"a": 2})}))
    add("default-def-struct-allprops", "defaults",
        root({"Q": obj({"a": {"type": "integer", "default": 1}, "b": {"type": "array", "items": S}}, default={"a": 2})}),
        note="definition default AND every property has a default: one impl Default only?")
    add("default-def-struct-invalid", "defaults", root({"Q": obj({"a": I, "b": S}, ["a"], default={"a": "x"})}),
        note="invalid type-level default on an object definition: refused since a543329")
    add("default-def-struct-missing-required", "defaults", root({"Q": obj({"a": I, "b": S}, ["a"], default={"b": "y"})}))
    add("default-def-enum", "defaults", root({"Q": {"type": "string", "enum": ["a", "b"], "default": "b"}}))
    add("default-def-newtype", "defaults", root({"Q": {"type": "string", "maxLength": 3, "default": "abc"}}))
    add("default-def-int", "defaults", root({"Q": {"type": "integer", "default": 3}, "P": obj({"q": ref("Q")})}))
    add("default-recursive", "defaults", root({"T": obj({"kids": {"type": "array", "items": ref("T"), "default": []}, "next": dict(ref("T"), default={"kids": []})})}))
    add("default-same-two-structs", "defaults", root({"A": obj({"p": {"type": "integer", "default": 5}}), "B": obj({"p": {"type": "integer", "default": 5}})}),
        {"struct_builder": True})
    add("default-generic-fns", "defaults",
        root({"A": obj({"a": {"type": "integer", "default": 5}, "b": {"type": "integer", "format": "uint8", "default": 5},
                        "c": {"type": "boolean", "default": True}, "d": {"type": "boolean", "default": False},
                        "e": {"type": "integer", "default": -5}, "f": {"type": "integer", "format": "int8", "default": -5}})}))

    # ------------------------------------------------------------ x-rust-type
    def xrt(path, crate="std", version="1.0.0", params=None):
        x = {"crate": crate, "version": version, "path": path}
        if params is not None:
            x["parameters"] = params
        return {"type": "object", "x-rust-type": x}
    add("xrt-option-self", "xrust", refs({"A": obj({"f": xrt("std::option::Option", params=[ref("A")]), "n": I}, ["f"])}),
        {"unknown_crates": "allow"}, note="C07-2")
    add("xrt-vec-self", "xrust", refs({"A": obj({"f": xrt("std::vec::Vec", params=[ref("A")]), "n": I}, ["f"])}), {"unknown_crates": "allow"})
    add("xrt-generate", "xrust", refs({"A": obj({"f": xrt("std::option::Option", params=[ref("A")]), "n": I}, ["f"])}), {"unknown_crates": "generate"})
    add("xrt-deny", "xrust", refs({"A": obj({"f": xrt("std::option::Option", params=[I])}, ["f"])}), {"unknown_crates": "deny"})
    add("xrt-known-crate", "xrust", refs({"A": obj({"f": xrt("std::option::Option", params=[I]), "g": xrt("std::string::String")}, ["f"])}),
        {"crates": [{"name": "std", "version": "1.0.0"}]})
    add("xrt-bad-path", "xrust", refs({"A": obj({"f": xrt("std::"), "g": xrt("std::a b"), "h": xrt("std")}, ["f"])}),
        {"unknown_crates": "allow"}, note="fixed 31fad76")
    add("xrt-version-mismatch", "xrust", refs({"A": obj({"f": xrt("std::string::String", version="2.0.0")}, ["f"])}),
        {"crates": [{"name": "std", "version": "1.0.0"}]})
    add("xrt-rename-crate", "xrust", refs({"A": obj({"f": xrt("serde_json::Value", crate="serde_json")}, ["f"])}),
        {"crates": [{"name": "serde_json", "version": "1.0.0", "rename": "serde_json"}]})
    add("xrt-params-arity", "caller-promise", refs({"A": obj({"f": xrt("std::option::Option", params=[I, S])}, ["f"])}), {"unknown_crates": "allow"})
    add("xrt-on-def", "xrust", refs({"A": xrt("std::string::String"), "B": obj({"a": ref("A")})}), {"unknown_crates": "allow"})
    add("xrt-malformed", "xrust", refs({"A": {"type": "object", "x-rust-type": {"crate": "std"}}, "B": {"type": "object", "x-rust-type": 5}}),
        {"unknown_crates": "allow"})

    # ------------------------------------------------------------ tuples / arrays at the std limits
    add("tuple1-prop", "limits", root({"P": obj({"t": tup(1)}, ["t"])}))
    add("tuple1-def", "limits", root({"T": tup(1), "P": obj({"t": ref("T")})}))
    add("tuple1-variant", "limits",
        root({"E": {"oneOf": [obj({"a": tup(1, S)}, ["a"], additionalProperties=False), {"type": "string", "enum": ["d"]}]}}),
        note="C17 side observation: From<(String,)>")
    add("tuple1-untagged", "limits", root({"E": {"oneOf": [tup(1, S), I]}}))
    add("tuple0", "limits", root({"P": obj({"t": {"type": "array", "items": [], "minItems": 0, "maxItems": 0}, "u": {"type": "array", "maxItems": 0}})}))
    add("tuple12", "limits", root({"P": obj({"t": tup(12)}, ["t"])}))
    add("tuple13", "limits", root({"P": obj({"t": tup(13)}, ["t"])}))
    add("tuple13-optional", "limits", root({"P": obj({"t": tup(13)})}))
    add("tuple13-variant", "limits", root({"E": {"oneOf": [tup(13), S]}}))
    add("array32", "limits", root({"P": obj({"t": arr(32)}, ["t"])}))
    add("array33", "limits", root({"P": obj({"t": arr(33)}, ["t"])}))
    add("array33-optional", "limits", root({"P": obj({"t": arr(33)})}))
    add("array33-newtype", "limits", root({"A": arr(33), "P": obj({"t": ref("A")})}))
    add("array0", "limits", root({"P": obj({"t": arr(0)}, ["t"])}))
    add("array-huge", "limits", root({"P": obj({"t": arr(100000)}, ["t"])}))
    add("tuple-open", "limits", root({"P": obj({"t": {"type": "array", "items": [I, S]}, "u": {"type": "array", "items": [I, S], "additionalItems": B},
                                                "v": {"type": "array", "items": [I, S], "minItems": 1, "maxItems": 2}})}))
    add("set-float", "limits", root({"P": obj({"t": {"type": "array", "items": N, "uniqueItems": True},
                                               "u": {"type": "array", "items": obj({"a": N}), "uniqueItems": True}})}))
    add("map-keys", "limits", root({"K": {"type": "string", "enum": ["a", "b"]},
                                    "P": obj({"m": {"type": "object", "propertyNames": ref("K"), "additionalProperties": I},
                                              "n": {"type": "object", "propertyNames": {"type": "string", "maxLength": 2}, "additionalProperties": N}})}))
    add("map-keys-btree", "limits", root({"K": {"type": "string", "enum": ["a", "b"]},
                                          "P": obj({"m": {"type": "object", "propertyNames": ref("K"), "additionalProperties": N},
                                                    "n": {"type": "object", "propertyNames": {"type": "string", "maxLength": 2}, "additionalProperties": N}})}),
        {"map_type": "::std::collections::BTreeMap"})
    add("big-enum", "limits", root({"E": {"type": "string", "enum": ["v%d" % k for k in range(300)]}}))
    add("big-struct", "limits", root({"P": obj({"p%d" % k: I for k in range(200)})}), {"struct_builder": True})

    # ------------------------------------------------------------ recursion / alias cycles / coherence
    add("alias-self", "cycles", root({"A": ref("A")}), note="C17 side observation: struct A(Box<A>), E0119")
    add("alias-cycle-2", "cycles", root({"B": ref("C"), "C": ref("B")}))
    add("alias-chain", "cycles", root({"A": ref("B"), "B": ref("C"), "C": S}))
    add("rec-required", "cycles", root({"A": obj({"a": ref("A")}, ["a"])}))
    add("rec-root", "cycles", [{"op": "root", "doc": {"title": "R", "type": "object", "properties": {"r": {"$ref": "#"}}}}])
    add("rec-array-fixed", "cycles", root({"A": obj({"a": arr(2, ref("A"))}, ["a"])}))
    add("rec-tuple", "cycles", root({"A": obj({"a": {"type": "array", "items": [ref("A"), I], "minItems": 2, "maxItems": 2}}, ["a"])}))
    add("rec-enum", "cycles", root({"E": {"oneOf": [ref("E"), S]}}), note="untagged enum whose first variant is itself")
    add("rec-enum-variants", "cycles", root({"E": {"oneOf": [obj({"a": ref("E")}, ["a"], additionalProperties=False), obj({"b": ref("E")}, ["b"], additionalProperties=False)]}}),
        note="two variants with the same boxed payload type: From<Box<E>> once?")
    add("rec-newtype-option", "cycles", root({"A": {"oneOf": [ref("A"), NUL]}}))
    add("rec-mutual-option", "cycles", root({"A": obj({"b": ref("B")}), "B": obj({"next": ref("B"), "a": ref("A")})}))
    add("rec-map", "cycles", root({"A": {"type": "object", "additionalProperties": ref("A")}}))
    add("rec-allof", "cycles", root({"A": {"allOf": [obj({"x": I}), obj({"kids": {"type": "array", "items": ref("A")}})]}}))
    add("ref-missing", "cycles", root({"A": obj({"a": ref("Nope")})}))
    add("ref-remote", "cycles", root({"A": obj({"a": {"$ref": "http://example.com/x.json"}})}))
    add("ref-defs", "cycles", [{"op": "root", "doc": {"$defs": {"A": obj({"a": S})}, "type": "object", "title": "R", "properties": {"a": {"$ref": "#/$defs/A"}}}}])
    add("untagged-same-types", "coherence", root({"E": {"oneOf": [{"type": "string", "maxLength": 3}, {"type": "string", "pattern": "^aaaa"}]}}))
    add("untagged-string-uuid", "coherence", root({"E": {"oneOf": [{"type": "string", "format": "uuid"}, {"type": "string", "format": "date"}, I]}}))
    add("untagged-same-ref", "coherence", root({"A": obj({"a": S}, ["a"]), "E": {"oneOf": [ref("A"), ref("A")]}}))
    add("untagged-int-int", "coherence", root({"E": {"oneOf": [{"type": "integer", "minimum": 0, "maximum": 5}, {"type": "integer", "minimum": 10, "maximum": 20}]}}))
    add("external-same-payload", "coherence",
        root({"E": {"oneOf": [obj({"a": S}, ["a"], additionalProperties=False), obj({"b": S}, ["b"], additionalProperties=False)]}}))
    add("untagged-vec-vec", "coherence", root({"E": {"oneOf": [{"type": "array", "items": S}, {"type": "array", "items": S, "uniqueItems": True}]}}))
    add("untagged-self-variant", "coherence", root({"E": {"oneOf": [{"type": "array", "items": ref("E")}, S]}}))
    add("newtype-of-newtype", "coherence", root({"A": {"type": "string", "maxLength": 3}, "B": ref("A"), "C": ref("B")}))
    add("newtype-of-enum", "coherence", root({"A": {"type": "string", "enum": ["x", "y"]}, "B": ref("A"), "C": {"allOf": [ref("A")]}}))
    add("newtype-of-ref-struct", "coherence", root({"A": obj({"a": S}), "B": ref("A")}))
    add("internal-tag-nonobject", "coherence",
        root({"E": {"oneOf": [obj({"t": {"enum": ["x"]}, "v": I}, ["t", "v"]), obj({"t": {"enum": ["y"]}}, ["t"])]}}))
    add("internal-tag-field-clash", "coherence",
        root({"E": {"oneOf": [obj({"t": {"enum": ["x"]}, "T": I}, ["t", "T"]), obj({"t": {"enum": ["y"]}, "t_": S}, ["t"])]}}))
    add("adjacent-tag-equal-content", "coherence",
        root({"E": {"oneOf": [obj({"t": {"enum": ["x"]}, "c": I}, ["t", "c"], additionalProperties=False),
                              obj({"t": {"enum": ["y"]}, "c": S}, ["t", "c"], additionalProperties=False)]}}))
    add("internal-tag-ref-variants", "coherence",
        root({"X": obj({"t": {"enum": ["x"]}, "v": I}, ["t", "v"]), "Y": obj({"t": {"enum": ["y"]}, "w": S}, ["t"]),
              "E": {"oneOf": [ref("X"), ref("Y")]}}))
    add("flatten-map-of-struct", "coherence", root({"P": obj({"a": S}, additionalProperties=obj({"z": I}))}), {"struct_builder": True})
    add("flatten-any", "coherence", root({"P": obj({"a": S}, additionalProperties={})}))
    add("replace-string-fromstr", "coherence", root({"A": {"type": "string", "maxLength": 3}, "P": obj({"a": ref("A")})}),
        {"replace": {"A": {"type": "String", "impls": ["FromStr"]}}}, note="C19 observation")
    add("replace-string-qualified", "coherence", root({"A": {"type": "string", "maxLength": 3}, "B": ref("A"), "P": obj({"a": ref("A")})}),
        {"replace": {"A": {"type": "::std::string::String", "impls": ["FromStr", "Display"]}}})
    add("convert-string", "coherence", root({"B": {"type": "string", "format": "my"}, "P": obj({"a": {"type": "string", "format": "my"}})}),
        {"convert": [{"schema": {"type": "string", "format": "my"}, "type": "::std::string::String", "impls": ["FromStr", "Display"]}]})
    add("convert-newtype-over", "coherence", root({"B": {"type": "string", "format": "my"}, "C": ref("B")}),
        {"convert": [{"schema": {"type": "string", "format": "my"}, "type": "String", "impls": ["FromStr", "Display"]}]})
    add("derive-partial-eq", "settings", root(mix({})), {"derives": ["PartialEq"]})
    add("patch-derive", "settings", root(mix({})), {"patch": {"Other": {"derives": ["PartialEq", "Default"]}, "Color": {"rename": "Colour"}}})
    add("map-type-btree", "settings", root(mix({})), {"map_type": "::std::collections::BTreeMap", "struct_builder": True})
    add("map-type-bogus", "settings", root(mix({})), {"map_type": "not a type"})

    # ------------------------------------------------------------ maps with constrained keys, in struct positions
    def mp(keys, val, required, **extra):
        m = dict({"type": "object"}, **keys)
        if val is not None:
            m["additionalProperties"] = val
        return obj({"m": m, "n": I}, ["m"] if required else None, **extra)
    KP = {"propertyNames": {"pattern": "^[a-z]+$"}}
    KR = {"propertyNames": {"$ref": "#/definitions/Key"}}
    KF = {"propertyNames": {"format": "date"}}
    KE = {"propertyNames": {"type": "string", "enum": ["a", "b"]}}
    KEYDEF = {"Key": {"type": "string", "pattern": "^k[0-9]+$"}}
    for nm, keys in (("pattern", KP), ("ref", KR), ("format", KF), ("enum", KE)):
        for vn, val in (("any", None), ("any-true", True), ("typed", I), ("ref", ref("Key"))):
            for req in (False, True):
                add("maps-%s-%s-%s" % (nm, vn, "required" if req else "optional"), "maps", root(dict(KEYDEF, T=mp(keys, val, req))),
                    note="struct property that is a map with constrained keys (%s) and %s values" % (nm, vn))
    add("maps-pattern-any-optional-btree", "maps", root(dict(KEYDEF, T=mp(KP, None, False))), {"map_type": "::std::collections::BTreeMap"})
    add("maps-ref-any-optional-btree-builder", "maps", root(dict(KEYDEF, T=mp(KR, None, False))),
        {"map_type": "::std::collections::BTreeMap", "struct_builder": True})
    add("maps-pattern-any-optional-hashmap-explicit", "maps", root(dict(KEYDEF, T=mp(KP, None, False))), {"map_type": "::std::collections::HashMap"})
    add("maps-patternprops-optional", "maps",
        root({"T": obj({"m": {"type": "object", "patternProperties": {"^x-": {}}, "additionalProperties": False}, "n": I})}))
    add("maps-patternprops-typed-optional", "maps",
        root({"T": obj({"m": {"type": "object", "patternProperties": {"^x-": I}, "additionalProperties": False}, "n": I})}))
    add("maps-optional-in-variant", "maps",
        root(dict(KEYDEF, E={"oneOf": [obj({"t": {"enum": ["x"]}, "m": dict({"type": "object"}, **KP)}, ["t"]),
                                       obj({"t": {"enum": ["y"]}, "w": S}, ["t"])]})),
        note="optional constrained-key map as a field of a struct VARIANT (internally tagged)")
    add("maps-optional-boxed-recursive", "maps",
        root({"T": obj({"kids": {"type": "object", "propertyNames": {"pattern": "^[a-z]+$"}, "additionalProperties": ref("T")}, "any": dict({"type": "object"}, **KP)})}))

    # ------------------------------------------------------------ histories
    add("hist-add-then-refs", "history", [{"op": "add", "schema": obj({"a": S}), "name": "Foo"}] + refs({"Bar": obj({"b": I})}))
    add("hist-add-same-name", "history", [{"op": "add", "schema": obj({"a": S}), "name": "Foo"}, {"op": "add", "schema": obj({"b": I}), "name": "Foo"}])
    add("hist-add-unnamed", "history", [{"op": "add", "schema": obj({"a": S})}])
    add("hist-add-unnamed-enum", "history", [{"op": "add", "schema": {"type": "string", "enum": ["a", "b"]}}])
    add("hist-add-title", "history", [{"op": "add", "schema": dict(obj({"a": S}), title="T")}, {"op": "add", "schema": dict(obj({"b": S}), title="T")}])
    add("hist-refs-twice-disjoint", "history", refs({"A": obj({"a": S})}) + refs({"B": obj({"a": ref("A")})}))
    add("hist-root-then-root", "history", root({"A": obj({"a": S})}, title="R1", type="object", properties={"x": ref("A")}) +
        root({"B": obj({"a": S})}, title="R2", type="object", properties={"y": ref("B")}))
    add("hist-default-fn-across", "history", refs({"A": obj({"p": {"type": "string", "default": "a"}})}) + refs({"B": obj({"p": {"type": "string", "default": "a"}})}))
    add("hist-same-anon-enum", "history", refs({"A": obj({"k": {"type": "string", "enum": ["x", "y"]}})}) + refs({"B": obj({"k": {"type": "string", "enum": ["x", "y"]}})}))
    add("oneof-null-null", "allof", root({"E": {"oneOf": [NUL, NUL]}}), note="untagged enum with two unit variants: assert! in to_stream")
    add("oneof-null-null-prop", "allof", root({"P": obj({"p": {"oneOf": [NUL, {"type": "null", "description": "other"}]}})}))
    add("hist-empty", "history", [])
    return out


if __name__ == "__main__":
    import json
    cs = cases()
    ids = [c["id"] for c in cs]
    assert len(ids) == len(set(ids))
    print(len(cs), "hostile cases")
    print(json.dumps(sorted({c["group"] for c in cs})))
