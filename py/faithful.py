"""Shared exploration for the faithful-fragment properties (C02, C03, C05):
seeded schema documents, the compiled world, oracle-classified instances
(valid, boundary, single-constraint mutants) and the compiled code's answers.
"""
import collections
import glob
import json
import os

import k5
import oracle
import schemagen
import vlib
import world
from covers_selftest import SUPPORTED, covers_eval

CORPUS = os.path.join(vlib.ROOT, "corpus", "faithful")


class Exploration:
    pass


def curated_docs():
    out = []
    for f in sorted(glob.glob(os.path.join(CORPUS, "*.json"))):
        c = json.load(open(f))
        out.append((os.path.basename(f), c["doc"], c.get("tags", ["curated"]), c.get("instances", {})))
    return out


def build(ctx, n_sup, n_full, n_inst, world_name="faithful"):
    """n_sup docs from the supported grammar (covers must hold), n_full from the
    full grammar; n_inst generated instances per definition."""
    ex = Exploration()
    ex.docs, ex.tags, ex.stream, ex.extra_inst = [], [], [], []
    for name, doc, tags, inst in curated_docs():
        ex.docs.append(doc)
        ex.tags.append(tags)
        ex.stream.append("curated:" + name)
        ex.extra_inst.append(inst)
    for k in range(n_sup):
        g = schemagen.Gen(ctx.seed * 1000003 + k, features=SUPPORTED)
        doc, tg = g.doc()
        ex.docs.append(doc)
        ex.tags.append(tg)
        ex.stream.append("supported")
        ex.extra_inst.append({})
    for k in range(n_full):
        # every other document of the full stream also carries schema defaults (incl. non-empty
        # defaults on map / array members)
        g = schemagen.Gen(ctx.seed * 1000003 + 500000 + k,
                          features=schemagen.ALL_FEATURES if k % 2 else None)
        doc, tg = g.doc()
        ex.docs.append(doc)
        ex.tags.append(tg)
        ex.stream.append("full")
        ex.extra_inst.append({})
    cases = [{"settings": {}, "steps": [{"op": "root", "doc": d}]} for d in ex.docs]
    ex.world = world.World(ctx, world_name, cases)
    ex.world.build()
    w = ex.world
    # instances
    ex.items = []     # dict(m, name, tid, tname, v, kind)
    batches = []
    for i, doc in enumerate(ex.docs):
        if w.status[i] != "ok":
            continue
        I = schemagen.Inst(ctx.seed * 7919 + i, doc)
        qs = []
        dump = w.gen[i]["dump"]
        for name in sorted(doc["definitions"]):
            key = "#/" + name
            if key not in dump["ref_to_id"]:
                continue
            tid = dump["ref_to_id"][key]
            ent = dump["entries"].get(str(tid), {})
            tname = ent.get("name")
            if tname is None:
                continue
            ref = {"$ref": "#/definitions/" + name}
            seen = set()

            def add(v, kind):
                k = json.dumps(v, sort_keys=True)
                if len(k) > 2500 or (k, kind == "gen") in seen:
                    return
                seen.add((k, kind == "gen"))
                ex.items.append(dict(m=i, name=name, tid=tid, tname=tname, v=v, kind=kind))
                qs.append((ref, v))
            for v in ex.extra_inst[i].get(name, []):
                add(v, "curated")
            for n in range(n_inst):
                v = I.gen(ref, minimal=(n == 0))
                add(v, "gen")
                ev = schemagen.with_extra_keys(doc, ref, v)
                if ev is not None:
                    add(ev, "extra-key")
                for ev2 in schemagen.with_emptied(doc, ref, v):
                    add(ev2, "emptied")
                for bv in schemagen.boundary_variants(ctx.seed + n, doc, ref, v)[:4]:
                    add(bv, "boundary")
                for kind, mv in schemagen.mutants(ctx.seed + n, doc, ref, v)[:8]:
                    add(mv, kind)
        batches.append((doc, qs))
    verdicts = [x for b in oracle.classify(batches) for x in b]
    assert len(verdicts) == len(ex.items)
    for it, r in zip(ex.items, verdicts):
        it["valid"] = r
    reqs = [{"m": it["m"], "t": it["tname"], "op": "de", "input": json.dumps(it["v"])} for it in ex.items]
    outs = w.query(reqs)
    for it, o in zip(ex.items, outs):
        it["out"] = o
        it["accepted"] = "ok" in o
    ex.dumps = {i: w.gen[i]["dump"] for i in range(len(ex.docs)) if w.status[i] == "ok"}
    return ex


def distribution(ex):
    c = collections.Counter()
    for t in ex.tags:
        c.update(t)
    kinds = collections.Counter((it["kind"], it["valid"]) for it in ex.items)
    return {"construct_tags": dict(c),
            "instances_by_kind_and_oracle_verdict": {"%s:%s" % k: v for k, v in sorted(kinds.items(), key=str)},
            "documents": len(ex.docs), "streams": dict(collections.Counter(s.split(":")[0] for s in ex.stream)),
            "world_status": dict(collections.Counter(ex.world.status))}


def k5_compare(ctx, ex, tag):
    """Model (IR/Serde.v) vs compiled code on every item; returns mismatches."""
    cases = [(it["m"], it["tid"], it["v"]) for it in ex.items]
    sup = k5.eval_cases(tag + "_sup", ex.dumps, cases, fn="run_sup")
    mod = k5.eval_cases(tag, ex.dumps, cases, fn="run_rt")
    mism = []
    n_sup = 0
    for it, s, m in zip(ex.items, sup, mod):
        it["model"] = m
        it["sup"] = s == "sup"
        if not it["sup"]:
            continue
        n_sup += 1
        a = k5.impl_canon(it["out"])
        b = k5.model_canon(m)
        same = a[0] == b[0] and (a[0] != "ok" or k5.canon_eq(a[1], b[1]))
        if not same:
            mism.append({"doc": ex.docs[it["m"]], "definition": it["name"], "instance": it["v"],
                         "compiled": it["out"], "model": m[:500]})
    return n_sup, mism
