"""Channel K5: the Coq semantics of generated code (IR/Serde.v) against the
compiled generated code, on the same (type, instance) pairs."""
import json
import os
import re
from concurrent.futures import ThreadPoolExecutor

import tocoq
import vlib

FUEL = 40


def collect_strings(v, acc):
    if isinstance(v, str):
        acc.add(v)
    elif isinstance(v, list):
        for x in v:
            collect_strings(x, acc)
    elif isinstance(v, dict):
        for k, x in v.items():
            acc.add(k)
            collect_strings(x, acc)


def dump_patterns(dump):
    pats, nats = set(), set()
    for e in dump["entries"].values():
        if e["kind"] == "newtype" and e["constraints"]["k"] == "string" and e["constraints"]["pattern"] is not None:
            pats.add(e["constraints"]["pattern"])
        if e["kind"] == "native":
            nats.add(e["type_name"])
    return pats, nats


def tables(dumps, values):
    """regress / native-parser verdicts for every (pattern|type, string) of the run."""
    pats, nats, strs = set(), set(), set()
    for d in dumps:
        p, n = dump_patterns(d)
        pats |= p
        nats |= n
    for v in values:
        collect_strings(v, strs)
    pats, nats, strs = sorted(pats), sorted(nats), sorted(strs)
    if not strs or not (pats or nats):
        return "(@nil ((ustring * ustring) * bool))", "(@nil ((ustring * ustring) * bool))"
    r = vlib.run_vh("strfacts", [{"patterns": pats, "natives": nats, "strings": strs}])[0]

    def tb(keys, rows):
        ent = []
        for k, row in zip(keys, rows):
            if row is None:
                continue
            for s, b in zip(strs, row):
                if b:   # lookup defaults to false
                    ent.append("((%s, %s), true)" % (tocoq.ustr(k), tocoq.ustr(s)))
        return "[" + "; ".join(ent) + "]" if ent else "(@nil ((ustring * ustring) * bool))"
    return tb(pats, r["re"]), tb(nats, r["native"])


def cjson_text_order(v):
    """tocoq.cjson, but object members in the order of the dict (= the order of json.dumps(v), the
    text the compiled code reads): since IR/Serde.v models several flattened members (de_flats: a
    flattened subtype takes slots IN TEXT ORDER and stops at the first rejected value) the order is
    part of the input."""
    if isinstance(v, dict):
        return "(JObj %s)" % tocoq.clist(list(v.items()),
                                         lambda kv: "(%s, %s)" % (tocoq.ustr(kv[0]), cjson_text_order(kv[1])),
                                         "(ustring * json)")
    if isinstance(v, list):
        return "(JArr %s)" % tocoq.clist(v, cjson_text_order, "json")
    return tocoq.cjson(v)


def eval_cases(tag, dumps, cases, fn="run_rt", shard=300, timeout=400):
    """dumps: {m: dump}; cases: list of (m, type_id, instance).  Returns list of
    strings (output of `fn`), in order."""
    if not cases:
        return []
    d = os.path.join(vlib.WORK, "cases", tag)
    os.makedirs(d, exist_ok=True)
    for f in os.listdir(d):
        os.unlink(os.path.join(d, f))
    ok, out = vlib.coq_make(["theories/IR/SerdeRun.vo"])
    if not ok:
        raise RuntimeError("SerdeRun.v does not build: " + out[-2000:])
    # shards of whole modules
    by_m = {}
    for n, (m, tid, v) in enumerate(cases):
        by_m.setdefault(m, []).append(n)
    shards, cur, cnt, size = [], [], 0, 0
    for m in sorted(by_m):
        cur.append(m)
        cnt += len(by_m[m])
        size += sum(len(json.dumps(cases[n][2])) for n in by_m[m])
        if cnt >= shard or size >= 60000:
            shards.append(cur)
            cur, cnt, size = [], 0, 0
    if cur:
        shards.append(cur)
    paths = []
    order = []
    for k, ms in enumerate(shards):
        ns = [n for m in ms for n in by_m[m]]
        order.append(ns)
        re_t, nat_t = tables([dumps[m] for m in ms], [cases[n][2] for n in ns])
        p = os.path.join(d, "k5_%d.v" % k)
        with open(p, "w") as f:
            f.write(tocoq.COQ_HEADER)
            f.write("From Typify Require Import IR.Serde IR.SerdeRun.\nOpen Scope string_scope.\n")
            f.write("Definition re_t : tbl := %s.\nDefinition nat_t : tbl := %s.\n" % (re_t, nat_t))
            for m in ms:
                f.write("Definition sp_%d : space := %s.\n" % (m, tocoq.cspace(dumps[m])))
            f.write("Definition vnl : string := String (Ascii.ascii_of_nat 10) EmptyString.\n")
            f.write("Definition vcases : list string := [\n")
            lines = []
            for n in ns:
                m, tid, v = cases[n]
                if fn == "run_sup":
                    lines.append("  (run_sup sp_%d 14 %d%%N)" % (m, tid))
                else:
                    lines.append("  (%s re_t nat_t sp_%d %d %d%%N %s)" % (fn, m, FUEL, tid, cjson_text_order(v)))
            f.write(";\n".join(lines))
            f.write("\n]%list.\nSet Printing Width 1000000.\nSet Printing Depth 1000000.\n")
            f.write("Eval vm_compute in (String.concat vnl vcases).\n")
        paths.append(p)

    def one(p):
        rc, out, err = vlib.coqc_file(p, timeout)
        if rc != 0:
            raise RuntimeError("coqc failed on %s:\n%s" % (p, (out + err)[-3000:]))
        mm = re.search(r'= "(.*)"\s*\n\s*: string', out, re.S)
        if not mm:
            raise RuntimeError("cannot parse coqc output of %s: %s" % (p, out[-2000:]))
        return mm.group(1).replace('""', '"').split("\n")

    res = [None] * len(cases)
    with ThreadPoolExecutor(max_workers=vlib.NCPU) as ex:
        for ns, r in zip(order, ex.map(one, paths)):
            if len(r) != len(ns):
                raise RuntimeError("k5 shard: %d results for %d cases" % (len(r), len(ns)))
            for n, s in zip(ns, r):
                res[n] = s
    return res


def impl_canon(o):
    """compiled driver answer -> ("ok", canonical value) | ("err",) | ("other", ..)"""
    if "ok" in o:
        return ("ok", tocoq.canon(json.loads(o["text"])) if "text" in o and o["text"] else tocoq.canon(o["ok"]))
    if "err" in o:
        return ("err",)
    return ("other", json.dumps(o)[:200])


def model_canon(s):
    if s == "err":
        return ("err",)
    if s.startswith("ok:"):
        return ("ok", tocoq.canon(tocoq.unshow_json(s[3:])))
    return ("other", s)


def canon_eq(a, b):
    """numeric-aware equality of canonical JSON (Fraction vs int)."""
    from fractions import Fraction
    if isinstance(a, bool) or isinstance(b, bool):
        return isinstance(a, bool) and isinstance(b, bool) and a == b
    if isinstance(a, (int, Fraction)) and isinstance(b, (int, Fraction)):
        return Fraction(a) == Fraction(b)
    if type(a) != type(b):
        return False
    if isinstance(a, list):
        return len(a) == len(b) and all(canon_eq(x, y) for x, y in zip(a, b))
    if isinstance(a, dict):
        return set(a) == set(b) and all(canon_eq(a[k], b[k]) for k in a)
    return a == b
