"""Independent validity oracle (runs under /opt/veriftools/pyvenv/bin/python):
python-jsonschema Draft7Validator, integer formats read as ranges, the six
string formats asserted.  stdin: JSON lines {"doc": root, "queries": [{"schema": s, "instance": v}]};
stdout: JSON lines [bool, ...]."""
import datetime
import ipaddress
import json
import re
import sys
import uuid

import jsonschema
from jsonschema import Draft7Validator, validators

INT_FORMATS = {
    "int8": (-128, 127), "uint8": (0, 255), "int16": (-32768, 32767), "uint16": (0, 65535),
    "int32": (-2**31, 2**31 - 1), "int": (-2**31, 2**31 - 1), "uint32": (0, 2**32 - 1), "uint": (0, 2**32 - 1),
    "int64": (-2**63, 2**63 - 1), "uint64": (0, 2**64 - 1),
}


def str_format_ok(fmt, s):
    try:
        if fmt == "uuid":
            uuid.UUID(s)
            return bool(re.fullmatch(r"[0-9a-fA-F]{8}-?[0-9a-fA-F]{4}-?[0-9a-fA-F]{4}-?[0-9a-fA-F]{4}-?[0-9a-fA-F]{12}", s))
        if fmt == "date":
            datetime.date.fromisoformat(s)
            return bool(re.fullmatch(r"\d{4}-\d{2}-\d{2}", s))
        if fmt == "date-time":
            if not re.fullmatch(r"\d{4}-\d{2}-\d{2}[Tt ]\d{2}:\d{2}:\d{2}(\.\d+)?([Zz]|[+-]\d{2}:\d{2})", s):
                return False
            datetime.datetime.fromisoformat(s.replace("Z", "+00:00").replace("z", "+00:00"))
            return True
        if fmt == "ipv4":
            ipaddress.IPv4Address(s)
            return True
        if fmt == "ipv6":
            ipaddress.IPv6Address(s)
            return "%" not in s
        if fmt == "ip":
            ipaddress.ip_address(s)
            return "%" not in s
    except Exception:
        return False
    return True


def format_kw(validator, fmt, instance, schema):
    if isinstance(instance, bool):
        return
    if fmt in INT_FORMATS and isinstance(instance, (int, float)):
        lo, hi = INT_FORMATS[fmt]
        if isinstance(instance, float) and not instance.is_integer():
            return
        if not (lo <= instance <= hi):
            yield jsonschema.ValidationError("%r outside %s" % (instance, fmt))
    elif isinstance(instance, str) and fmt in ("uuid", "date", "date-time", "ipv4", "ipv6", "ip"):
        if not str_format_ok(fmt, instance):
            yield jsonschema.ValidationError("%r is not a %s" % (instance, fmt))


V = validators.extend(Draft7Validator, {"format": format_kw})


def main():
    for line in sys.stdin:
        if not line.strip():
            continue
        c = json.loads(line)
        doc = c["doc"]
        out = []
        for q in c["queries"]:
            s = q["schema"]
            if isinstance(s, dict):
                s = dict(s)
                s.setdefault("definitions", doc.get("definitions", {}))
            try:
                ok = V(s).is_valid(q["instance"])
            except Exception as e:  # noqa
                ok = None
            out.append(ok)
        print(json.dumps(out))
        sys.stdout.flush()


if __name__ == "__main__":
    main()
