"""Generator of Rust type universes (serde + schemars derivable), their Rust
source, JSON value candidates, the Gallina `universe` term for
Algo/RustDefs.v, and the builder of the compiled ORIGIN crate (property C04).

Universe (plain JSON, also the corpus format):
  {"types": [def...], "roots": [type names]}
  def  = {"kind":"struct","name":N,"rename_all":R|None,"deny":bool,"cdefault":bool,"derive_default":bool,
          "fields":[field...]}
       | {"kind":"tuple_struct","name":N,"tys":[ty...],"derive_default":bool}
       | {"kind":"newtype","name":N,"ty":ty,"derive_default":bool}
       | {"kind":"unit_struct","name":N,"derive_default":bool}
       | {"kind":"enum","name":N,"tagging":{"k":"external"|"untagged"}|{"k":"internal","tag":s}
                                            |{"k":"adjacent","tag":s,"content":s},
          "rename_all":R|None,"deny":bool,"variants":[variant...]}
  field   = {"name":ident,"ty":ty,"rename":s|None,"default":bool,"skip_none":bool,
             "skip_if": "vec_empty"|"map_empty"|"str_empty"|"is_zero"|"not" (optional; with "default": true):
                        #[serde(default, skip_serializing_if = "Vec::is_empty" | ..."String::is_empty" | is_zero_<int> | Not::not)]
             "default_val": JSON value (optional): #[serde(default = "fn")] with fn returning that NON-intrinsic value}
  variant = {"name":Ident,"rename":s|None,"kind":"unit"|"newtype"|"tuple"|"struct",
             "tys":[ty...] (newtype: 1, tuple: >=2), "fields":[field...], "rename_all":R|None}
  ty  = {"k":"bool"|"string"|"unit"} | {"k":"int","n":"u8"..} | {"k":"float","n":"f32"|"f64"}
      | {"k":"option"|"vec"|"box"|"hashmap"|"btreemap","t":ty} | {"k":"tuple","ts":[ty..]}
      | {"k":"array","t":ty,"n":N} | {"k":"ref","name":N}
"""
import hashlib
import json
import os
import random
import re
import shutil
import subprocess

import vlib

RULES = ["lowercase", "UPPERCASE", "PascalCase", "camelCase", "snake_case", "SCREAMING_SNAKE_CASE", "kebab-case",
         "SCREAMING-KEBAB-CASE"]
INTS = {"u8": (0, 2**8 - 1), "u16": (0, 2**16 - 1), "u32": (0, 2**32 - 1), "u64": (0, 2**64 - 1),
        "i8": (-2**7, 2**7 - 1), "i16": (-2**15, 2**15 - 1), "i32": (-2**31, 2**31 - 1), "i64": (-2**63, 2**63 - 1)}

TYPE_NAMES = ["Alpha", "Beta", "GammaRay", "Delta", "Node", "Tree", "Config", "Item", "Point", "Shape", "Event",
              "Message", "Record", "Entry", "Wrapper", "Pair", "Marker", "Status", "Command", "Reply", "Header",
              "Payload", "Settings", "Limits", "Route", "Leaf", "Branch", "Token", "Expr", "Stmt", "Color", "Size",
              "UserInfo", "HttpCode", "IoMode", "Vec3", "Ipv4Net", "Level2", "ABTest", "XmlDoc"]
FIELD_NAMES = ["id", "name", "value", "count", "flag", "items", "first_name", "last_seen_at", "x", "y", "z", "inner",
               "next", "left", "right", "data", "meta", "tags", "opt_level", "max_size", "a", "b", "child_nodes",
               "is_ok", "http_code", "v2", "x_1", "long_field_name_here", "kind_of", "label"]
VARIANT_NAMES = ["A", "B", "Cc", "Unit", "Empty", "Single", "Many", "Named", "FooBar", "HTTPError", "Ok2", "IoErr",
                 "Leaf", "Branch", "Add", "Neg", "Lit", "On", "Off", "VeryLongVariantName", "X", "Yy", "ABc", "Other"]
FIELD_RENAMES = ["type", "foo-bar", "fooBar", "Foo", "x.y", "$id", "with space", "UPPER", "ref", "a/b", "@attr", "fn",
                 "self", "3d"]
VARIANT_RENAMES = ["renamed", "foo-bar", "with space", "lower", "UPPER_CASE", "type", "x.y", "$v", "3rd", "self"]
TAGS = ["type", "kind", "tag", "t", "@type", "variantTag"]
CONTENTS = ["content", "data", "c", "value", "payload"]


# --------------------------------------------------------------------------
# serde_derive's case conversions (internals/case.rs), ASCII identifiers
# --------------------------------------------------------------------------
def rename_variant(rule, v):
    if rule is None or rule == "PascalCase":
        return v
    if rule == "lowercase":
        return v.lower()
    if rule == "UPPERCASE":
        return v.upper()
    if rule == "camelCase":
        return v[:1].lower() + v[1:]
    if rule == "snake_case":
        out = []
        for i, ch in enumerate(v):
            if i > 0 and ch.isupper():
                out.append("_")
            out.append(ch.lower())
        return "".join(out)
    if rule == "SCREAMING_SNAKE_CASE":
        return rename_variant("snake_case", v).upper()
    if rule == "kebab-case":
        return rename_variant("snake_case", v).replace("_", "-")
    if rule == "SCREAMING-KEBAB-CASE":
        return rename_variant("SCREAMING_SNAKE_CASE", v).replace("_", "-")
    raise ValueError(rule)


def rename_field(rule, f):
    if rule is None or rule in ("lowercase", "snake_case"):
        return f
    if rule == "UPPERCASE" or rule == "SCREAMING_SNAKE_CASE":
        return f.upper()
    if rule == "PascalCase":
        out, cap = [], True
        for ch in f:
            if ch == "_":
                cap = True
            elif cap:
                out.append(ch.upper())
                cap = False
            else:
                out.append(ch)
        return "".join(out)
    if rule == "camelCase":
        p = rename_field("PascalCase", f)
        return p[:1].lower() + p[1:]
    if rule == "kebab-case":
        return f.replace("_", "-")
    if rule == "SCREAMING-KEBAB-CASE":
        return f.upper().replace("_", "-")
    raise ValueError(rule)


def field_wire(f, rule):
    return f["rename"] if f.get("rename") is not None else rename_field(rule, f["name"])


def variant_wire(v, rule):
    return v["rename"] if v.get("rename") is not None else rename_variant(rule, v["name"])


# --------------------------------------------------------------------------
# generation
# --------------------------------------------------------------------------
def T(k, **kw):
    d = {"k": k}
    d.update(kw)
    return d


class Gen:
    def __init__(self, rng, profile=None):
        self.r = rng
        self.p = profile or {}

    def on(self, feature, p):
        """feature switch: excluded features (known-finding classes) are never drawn."""
        if feature in self.p.get("exclude", ()):
            return False
        return self.r.random() < p

    def scalar(self):
        r = self.r
        x = r.random()
        if x < 0.12:
            return T("bool")
        if x < 0.50:
            return T("int", n=r.choice(list(INTS)))
        if x < 0.62:
            return T("float", n=r.choice(["f32", "f64"]))
        if x < 0.97 or "unit-type" in self.p.get("exclude", ()):
            return T("string")
        return T("unit")

    def ty(self, avail, depth=0, allow_option=True):
        r = self.r
        x = r.random()
        if avail and x < 0.30:
            t = T("ref", name=r.choice(avail))
            if r.random() < 0.2:
                t = T("box", t=t)
            return t
        if depth >= 2 or x < 0.62:
            return self.scalar()
        x = r.random()
        if x < 0.28 and allow_option:
            inner = self.ty(avail, depth + 1, allow_option=False)
            if strip_box(inner)["k"] == "unit":
                inner = T("bool")       # Option<()> has the schema of (): see null-payload
            return T("option", t=inner)
        if x < 0.52:
            return T("vec", t=self.ty(avail, depth + 1))
        if x < 0.64:
            return T(r.choice(["hashmap", "btreemap"]), t=self.ty(avail, depth + 1))
        if x < 0.80:
            n = 1 if self.on("one-tuple", 0.08) else r.randint(2, 3)
            return T("tuple", ts=[self.ty(avail, depth + 1) for _ in range(n)])
        if x < 0.92:
            return T("array", t=self.ty(avail, depth + 1), n=r.randint(1, 4))
        return T("box", t=self.ty(avail, depth + 1, allow_option=allow_option))

    def rec_ty(self, name):
        r = self.r
        ref = T("ref", name=name)
        return r.choice([T("option", t=T("box", t=ref)), T("vec", t=ref), T("hashmap", t=ref),
                         T("option", t=T("vec", t=ref)), T("vec", t=T("box", t=ref))])

    def fields(self, avail, n, defaultable, taken=(), rec=None):
        r = self.r
        names = r.sample(FIELD_NAMES, n)
        out = []
        for nm in names:
            ty = self.ty(avail)
            f = {"name": nm, "ty": ty, "rename": None, "default": False, "skip_none": False}
            out.append(f)
        if rec is not None and out:
            out[r.randrange(len(out))]["ty"] = self.rec_ty(rec)
        for f in out:
            if self.on("field-rename", 0.15):
                f["rename"] = r.choice(FIELD_RENAMES)
            if defaultable(f["ty"]) and self.on("field-default", 0.25):
                f["default"] = True
            if not f["default"] and skip_pred_of(f["ty"]) and self.on("skip-if", 0.12):
                f["default"] = True
                f["skip_if"] = skip_pred_of(f["ty"])
            if not f["default"] and self.on("field-default-fn", 0.22):
                dv = nondefault_value(f["ty"], r)
                if dv is not None:
                    f["default_val"] = dv
            if f["ty"]["k"] == "option" and "default_val" not in f and self.on("skip-none", 0.45):
                f["skip_none"] = True
        return out

    def universe(self):
        r = self.r
        n = r.randint(3, 8)
        names = r.sample(TYPE_NAMES, n)
        defs = []
        byname = {}

        def defaultable(ty):
            k = ty["k"]
            if k in ("bool", "int", "float", "string", "unit", "option", "vec", "hashmap", "btreemap"):
                return True
            if k == "box":
                return defaultable(ty["t"])
            if k == "array":
                return defaultable(ty["t"])
            if k == "tuple":
                return all(defaultable(t) for t in ty["ts"])
            if k == "ref":
                d = byname.get(ty["name"])
                return bool(d and d.get("derive_default"))
            return False

        for i, nm in enumerate(names):
            avail = names[:i]
            later = names[i + 1:]
            x = r.random()
            rec = None
            if r.random() < 0.25:
                rec = nm if (not later or r.random() < 0.7) else r.choice(later)
            if x < 0.36:
                d = {"kind": "struct", "name": nm, "rename_all": None, "deny": False, "cdefault": False,
                     "derive_default": False}
                d["fields"] = self.fields(avail, r.randint(1, 5), defaultable, rec=rec)
                if self.on("rename-all", 0.4):
                    d["rename_all"] = r.choice(RULES)
                if self.on("deny-unknown", 0.2):
                    d["deny"] = True
                if all(defaultable(f["ty"]) for f in d["fields"]) and r.random() < 0.6:
                    d["derive_default"] = True
                    if self.on("container-default", 0.25):
                        d["cdefault"] = True
                self.fix_field_wires(d["fields"], d["rename_all"])
            elif x < 0.78:
                d = self.enum(nm, avail, byname, defaultable, rec)
            elif x < 0.87:
                d = {"kind": "newtype", "name": nm, "ty": self.ty(avail), "derive_default": False}
                d["derive_default"] = defaultable(d["ty"]) and r.random() < 0.5
            elif x < 0.96:
                d = {"kind": "tuple_struct", "name": nm, "tys": [self.ty(avail) for _ in range(r.randint(2, 3))],
                     "derive_default": False}
                d["derive_default"] = all(defaultable(t) for t in d["tys"]) and r.random() < 0.5
            else:
                d = {"kind": "unit_struct", "name": nm, "derive_default": r.random() < 0.5}
            defs.append(d)
            byname[nm] = d
        if self.on("rec-cluster", 0.35):
            which, cl = rec_cluster(r)
            defs += cl
            if r.random() < 0.5:      # the cluster's head also as a plain definition below a non-recursive root
                defs.append(_st("RecTop", [_f("items", T("vec", t=T("ref", name=cl[0]["name"]))), _f("n", T("int", n="u8"))]))
        u = {"types": defs, "roots": []}
        u["roots"] = cover_roots(u)
        return u

    def fix_field_wires(self, fields, rule, forbidden=()):
        seen = set(forbidden)
        for f in fields:
            w = field_wire(f, rule)
            if w in seen:
                f["rename"] = None
                w = field_wire(f, rule)
                k = 0
                while w in seen:
                    k += 1
                    f["rename"] = "%s%d" % (f["name"], k)
                    w = f["rename"]
            seen.add(w)

    def length_family(self, d, vnames, avail, byname):
        """untagged enum whose variants are arrays that only the LENGTH tells apart (same item types), in random
        declaration order: tuple variants, newtype variants over tuples / fixed arrays / tuple structs."""
        r = self.r
        base = [r.choice([T("int", n="u32"), T("string"), T("bool"), T("int", n="i64"), T("float", n="f64")])
                for _ in range(4)]
        lens = r.sample([1, 2, 3, 4], r.choice([2, 2, 3]))
        if "one-tuple" in self.p.get("exclude", ()):
            lens = [x for x in lens if x != 1] or [2, 3]
        mode = r.choice(["tuple", "tuple", "array", "mixed"])
        tstructs = {len(byname[a]["tys"]): a for a in avail if byname[a]["kind"] == "tuple_struct"}
        out = []
        names = list(vnames) + [x for x in VARIANT_NAMES if x not in vnames]
        for i, n in enumerate(lens):
            v = {"name": names[i], "rename": None, "kind": "newtype", "tys": [], "fields": [], "rename_all": None}
            if mode == "array":
                v["tys"] = [T("array", t=base[0], n=n)]
            elif n in tstructs and r.random() < 0.3:
                v["tys"] = [T("ref", name=tstructs[n])]
            elif n >= 2 and (mode == "tuple" or r.random() < 0.6) and r.random() < 0.7:
                v["kind"] = "tuple"
                v["tys"] = [base[k] for k in range(n)]
            else:
                v["tys"] = [T("tuple", ts=[base[k] for k in range(n)])]
            out.append(v)
        x = r.random()
        if x < 0.3:
            out.insert(r.randrange(len(out) + 1), {"name": names[len(lens)], "rename": None, "kind": "unit", "tys": [],
                                                   "fields": [], "rename_all": None})
        elif x < 0.5:
            out.insert(r.randrange(len(out) + 1), {"name": names[len(lens)], "rename": None, "kind": "newtype",
                                                   "tys": [T("string")], "fields": [], "rename_all": None})
        d["variants"] = out

    def shared_field_family(self, d, vnames, tagging):
        """tagged enum whose struct variants SHARE member names (one shared member, two, or partially), next to unit
        variants; the shared member is required, `default`, `default + skip_serializing_if` (is_zero / is_empty / not)
        or an Option with skip: typify's recognisers of adjacent / internal tagging (enums.rs) look at exactly these
        counts of properties and required properties."""
        r = self.r
        names = list(vnames) + [x for x in VARIANT_NAMES if x not in vnames]

        def member(nm):
            ty = r.choice([T("int", n=r.choice(["u32", "u8", "i64"])), T("vec", t=T("int", n="u8")), T("string"), T("bool"),
                           T("hashmap", t=T("string")), T("option", t=T("int", n="u16"))])
            f = {"name": nm, "ty": ty, "rename": None, "default": False, "skip_none": False}
            how = r.choice(["required", "default", "skip", "skip"])
            if ty["k"] == "option":
                f["skip_none"] = how == "skip"
                f["default"] = how == "default"
            elif how == "default":
                f["default"] = True
            elif how == "skip":
                f["default"] = True
                f["skip_if"] = skip_pred_of(ty)
            return f
        mode = r.choice(["one", "one", "two", "partial"])
        shared = [member("count")] + ([member("items")] if mode == "two" else [])
        out = []
        for i in range(r.randint(0, 2)):
            out.append({"name": names[i], "rename": None, "kind": "unit", "tys": [], "fields": [], "rename_all": None})
        k0 = len(out)
        for i in range(r.randint(1, 3)):
            fs = [dict(f) for f in shared]
            if mode == "partial" and r.random() < 0.6:
                fs.append(member("extra%d" % i))
            out.append({"name": names[k0 + i], "rename": None, "kind": "struct", "tys": [], "fields": fs, "rename_all": None})
        r.shuffle(out)
        d["variants"] = out

    def option_family(self, d, vnames):
        """untagged enum with ONE newtype variant over Option<T> (schemars: `type: [T, "null"]`, the only variant JSON
        null belongs to) next to variants of other JSON kinds, in random declaration order: typify must see
        `[T, null]` as exclusive with every single type other than T (util.rs schemas_mutually_exclusive, the
        single-vs-list arm) -- integer and number count as different there, and the origin's serde reads an integer
        with the first of the two variants that accepts it."""
        r = self.r
        ints = [T("int", n=x) for x in INTS]
        pool = {
            "boolean": lambda: T("bool"),
            "integer": lambda: r.choice(ints),
            "number": lambda: T("float", n=r.choice(["f64", "f64", "f32"])),
            "string": lambda: T("string"),
            "array": lambda: T("vec", t=r.choice([T("string"), r.choice(ints), T("bool")])),
            "object": lambda: T(r.choice(["hashmap", "btreemap"]), t=r.choice([T("string"), r.choice(ints)])),
        }
        ok = r.choice(list(pool))
        names = list(vnames) + [x for x in VARIANT_NAMES if x not in vnames]
        out = [{"name": names[0], "rename": None, "kind": "newtype", "tys": [T("option", t=pool[ok]())], "fields": [],
                "rename_all": None}]
        others = [k for k in pool if k != ok]
        r.shuffle(others)
        twin = {"number": "integer", "integer": "number"}.get(ok)
        if twin and r.random() < 0.7:       # integer next to a nullable float (and the converse)
            others.remove(twin)
            others.insert(0, twin)
        for i, k in enumerate(others[:r.randint(1, 3)]):
            v = {"name": names[i + 1], "rename": None, "kind": "newtype", "tys": [pool[k]()], "fields": [], "rename_all": None}
            if k == "array" and r.random() < 0.4:
                v.update({"kind": "tuple", "tys": [T("string"), r.choice(ints)]})
            if k == "object" and r.random() < 0.5:
                v.update({"kind": "struct", "tys": [], "fields": [{"name": "x", "ty": r.choice(ints), "rename": None,
                                                                      "default": False, "skip_none": False}]})
            out.append(v)
        r.shuffle(out)
        d["variants"] = out

    def enum(self, nm, avail, byname, defaultable, rec):
        r = self.r
        x = r.random()
        if x < 0.34:
            tagging = {"k": "external"}
        elif x < 0.58:
            tagging = {"k": "internal", "tag": r.choice(TAGS)}
        elif x < 0.80:
            tagging = {"k": "adjacent", "tag": r.choice(TAGS), "content": r.choice(CONTENTS)}
        else:
            tagging = {"k": "untagged"}
        d = {"kind": "enum", "name": nm, "tagging": tagging, "rename_all": None, "deny": False, "variants": []}
        if self.on("rename-all", 0.4):
            d["rename_all"] = r.choice(RULES)
        if self.on("enum-deny-unknown", 0.12):
            d["deny"] = True
        nv = r.randint(1, 5)
        vnames = r.sample(VARIANT_NAMES, nv)
        struct_refs = [a for a in avail if byname[a]["kind"] == "struct"]
        if "null-payload" in self.p.get("exclude", ()):
            struct_refs = [a for a in struct_refs
                           if not any(strip_box(f["ty"])["k"] == "unit" for f in byname[a]["fields"])]
        for vi, vn in enumerate(vnames):
            kinds = ["unit", "newtype", "tuple", "struct"]
            w = [3, 3, 2, 3]
            if tagging["k"] == "internal":
                kinds, w = ["unit", "newtype", "struct"], [3, 2 if struct_refs else 0, 4]
            kind = r.choices(kinds, w)[0]
            v = {"name": vn, "rename": None, "kind": kind, "tys": [], "fields": [], "rename_all": None}
            use_rec = rec is not None and vi == nv - 1 and vi > 0
            if kind == "newtype":
                if tagging["k"] == "internal":
                    v["tys"] = [T("ref", name=r.choice(struct_refs))]
                elif use_rec and r.random() < 0.6:
                    v["tys"] = [T("box", t=T("ref", name=rec))] if rec == nm else [self.rec_ty(rec)]
                else:
                    v["tys"] = [self.ty(avail)]
            elif kind == "tuple":
                v["tys"] = [self.ty(avail) for _ in range(r.randint(2, 3))]
                if use_rec:
                    v["tys"][0] = T("box", t=T("ref", name=rec)) if rec == nm else self.rec_ty(rec)
            elif kind == "struct":
                v["fields"] = self.fields(avail, r.randint(1, 3), defaultable, rec=rec if use_rec else None)
                if tagging["k"] == "internal" and "null-payload" in self.p.get("exclude", ()):
                    for f in v["fields"]:
                        if strip_box(f["ty"])["k"] == "unit":
                            f["ty"] = T("bool")
                if self.on("variant-rename-all", 0.15):
                    v["rename_all"] = r.choice(RULES)
            if kind == "newtype" and "null-payload" in self.p.get("exclude", ()) and \
                    strip_box(v["tys"][0])["k"] == "unit":
                v["tys"] = [T("bool")]
            if self.on("variant-rename", 0.12):
                v["rename"] = r.choice(VARIANT_RENAMES)
            d["variants"].append(v)
        fam = r.random()
        if tagging["k"] in ("internal", "adjacent", "external") and fam < 0.3:
            self.shared_field_family(d, vnames, tagging)
        if tagging["k"] == "untagged" and fam < 0.35:
            self.length_family(d, vnames, avail, byname)
        elif tagging["k"] == "untagged" and fam < 0.6:
            self.option_family(d, vnames)
        if tagging["k"] == "untagged" and "untagged-overlap" in self.p.get("exclude", ()):
            # keep only variants that are pairwise distinguishable from the JSON alone (by JSON type, array length /
            # item types, required members).  An untagged enum typify cannot prove exclusive becomes a flattened
            # struct: finding C04-1 (curated witnesses); for a DISTINGUISHABLE enum that outcome is a violation.
            keep = []
            for v in d["variants"]:
                if "complex" in variant_kinds(v, byname):
                    continue
                if all(variants_distinguishable(v, w, byname) and not known_array_vs_tuple_gap(v, w, byname) for w in keep):
                    keep.append(v)
            if not keep:
                v = d["variants"][0]
                v.update({"kind": "unit", "tys": [], "fields": [], "rename_all": None})
                keep = [v]
            d["variants"] = keep
        # unique wire names of variants
        seen = set()
        for v in d["variants"]:
            w = variant_wire(v, d["rename_all"])
            if w in seen:
                v["rename"] = None
                w = variant_wire(v, d["rename_all"])
                k = 0
                while w in seen:
                    k += 1
                    v["rename"] = "%s%d" % (v["name"], k)
                    w = v["rename"]
            seen.add(w)
        # field wire names: unique, and distinct from the tag of an internally tagged enum
        forb = set()
        if tagging["k"] == "internal":
            forb.add(tagging["tag"])
        for v in d["variants"]:
            self.fix_field_wires(v["fields"], v["rename_all"], forb)
        if tagging["k"] == "internal":
            used = set()
            for v in d["variants"]:
                if v["kind"] == "newtype":
                    sd = byname[v["tys"][0]["name"]]
                    used |= {field_wire(f, sd["rename_all"]) for f in sd["fields"]}
            while tagging["tag"] in used:
                tagging["tag"] = "_" + tagging["tag"]
        if tagging["k"] == "adjacent" and tagging["tag"] == tagging["content"]:
            tagging["content"] = tagging["content"] + "2"
        return d


def strip_box(t):
    while t["k"] == "box":
        t = t["t"]
    return t


def json_kinds(t, byname):
    """JSON instance types of the serialisations of a type, or {"complex"} when the schemars schema has no
    plain `type` (anyOf / oneOf / $ref to such)."""
    k = t["k"]
    if k == "bool":
        return {"boolean"}
    if k == "int":
        return {"integer"}
    if k == "float":
        return {"number"}
    if k == "string":
        return {"string"}
    if k == "unit":
        return {"null"}
    if k == "option":
        inner = json_kinds(t["t"], byname)
        if t["t"]["k"] in ("ref", "box", "option") or "complex" in inner:
            return {"complex"}
        return inner | {"null"}
    if k in ("vec", "array", "tuple"):
        return {"array"}
    if k in ("hashmap", "btreemap"):
        return {"object"}
    if k == "box":
        return json_kinds(t["t"], byname)
    d = byname.get(t["name"])
    if d is None:
        return {"complex"}
    if d["kind"] == "struct":
        return {"object"}
    if d["kind"] == "tuple_struct":
        return {"array"}
    if d["kind"] == "unit_struct":
        return {"null"}
    if d["kind"] == "newtype":
        if strip_box(d["ty"])["k"] == "ref":
            return {"complex"}      # definition = {"$ref": ..}: typify's resolve() follows one $ref only
        return json_kinds(d["ty"], byname)
    if d["tagging"]["k"] == "external" and all(v["kind"] == "unit" for v in d["variants"]):
        return {"string"}
    return {"complex"}


def variant_kinds(v, byname):
    if v["kind"] == "unit":
        return {"null"}
    if v["kind"] == "newtype":
        return json_kinds(v["tys"][0], byname)
    if v["kind"] == "tuple":
        return {"array"}
    return {"object"}


# ---- independent predicate: can two variants of an untagged enum be told apart from the JSON alone?
def scalar_json_type(t):
    t = strip_box(t)
    return {"bool": "boolean", "int": "integer", "float": "number", "string": "string", "unit": "null"}.get(t["k"])


def array_shape(t, byname, depth=0):
    """("tuple", [item types]) | ("single", item type, fixed length or None) | None"""
    t = strip_box(t)
    k = t["k"]
    if k == "tuple":
        return ("tuple", list(t["ts"]))
    if k == "array":
        return ("single", t["t"], t["n"])
    if k == "vec":
        return ("single", t["t"], None)
    if k == "ref" and depth < 4:
        d = byname.get(t["name"])
        if d is None:
            return None
        if d["kind"] == "tuple_struct":
            return ("tuple", list(d["tys"]))
        if d["kind"] == "newtype" and strip_box(d["ty"])["k"] != "ref":
            return array_shape(d["ty"], byname, depth + 1)
    return None


def variant_array_shape(v, byname):
    if v["kind"] == "tuple":
        return ("tuple", list(v["tys"]))
    if v["kind"] == "newtype":
        return array_shape(v["tys"][0], byname)
    return None


def shape_len(sh):
    return len(sh[1]) if sh[0] == "tuple" else sh[2]


def items_exclusive(a, b):
    x, y = scalar_json_type(a), scalar_json_type(b)
    return x is not None and y is not None and x != y


def field_required(f, cdefault=False):
    return not (f.get("default") or "default_val" in f or cdefault or strip_box(f["ty"])["k"] == "option")


def variant_object_shape(v, byname):
    """(required wire names, all wire names) of a struct-shaped variant, else None"""
    if v["kind"] == "struct":
        return ({field_wire(f, v.get("rename_all")) for f in v["fields"] if field_required(f)},
                {field_wire(f, v.get("rename_all")) for f in v["fields"]})
    if v["kind"] == "newtype":
        t = strip_box(v["tys"][0])
        if t["k"] == "ref":
            d = byname.get(t["name"])
            if d is not None and d["kind"] == "struct":
                return ({field_wire(f, d["rename_all"]) for f in d["fields"] if field_required(f, d["cdefault"])},
                        {field_wire(f, d["rename_all"]) for f in d["fields"]})
    return None


def variants_distinguishable(v, w, byname):
    """by JSON type, by array length / item types, by required members (the specification the property text
    implies: serde can tell the variants apart, so a faithful T' must exist)."""
    kv, kw = variant_kinds(v, byname), variant_kinds(w, byname)
    if "complex" in kv or "complex" in kw:
        return False
    if not (kv & kw):
        return True
    if kv == {"array"} and kw == {"array"}:
        a, b = variant_array_shape(v, byname), variant_array_shape(w, byname)
        if a is None or b is None:
            return False
        la, lb = shape_len(a), shape_len(b)
        if la is not None and lb is not None and la != lb:
            return True
        if a[0] == "single" and b[0] == "single":
            return items_exclusive(a[1], b[1])
        if a[0] == "single" or b[0] == "single":
            single, tup = (a, b) if a[0] == "single" else (b, a)
            return any(items_exclusive(single[1], x) for x in tup[1])
        return False
    if kv == {"object"} and kw == {"object"}:
        a, b = variant_object_shape(v, byname), variant_object_shape(w, byname)
        if a is None or b is None:
            return False
        return bool(a[0] - b[1]) or bool(b[0] - a[1])
    return False


def known_array_vs_tuple_gap(v, w, byname):
    """finding C04-1 sub-shape on the unchanged tree: a fixed array / Vec (single item schema) against a tuple is
    compared by item types only (util.rs:393-424), never by length."""
    a, b = variant_array_shape(v, byname), variant_array_shape(w, byname)
    if a is None or b is None or a[0] == b[0]:
        return False
    single, tup = (a, b) if a[0] == "single" else (b, a)
    return not any(items_exclusive(single[1], x) for x in tup[1])


def untagged_distinguishable(d, byname):
    vs = d["variants"]
    return all(variants_distinguishable(vs[i], vs[j], byname) for i in range(len(vs)) for j in range(i + 1, len(vs)))


# constructs excluded from the random stream: each is a recorded finding (or a C01-territory rejection)
# represented by its witness in corpus/C04
RANDOM_PROFILE = {"exclude": ("untagged-overlap", "null-payload")}


def skip_pred_of(t):
    """the skip_serializing_if predicate usable on a (non-Option) member type, or None"""
    return {"vec": "vec_empty", "hashmap": "map_empty", "btreemap": "map_empty", "string": "str_empty",
            "int": "is_zero", "bool": "not"}.get(t["k"])


MODELLED_SKIPS = ("vec_empty", "map_empty")     # IR/Serde.v's POptional skips empty Vec / map (and None)


def nondefault_value(t, rng):
    """a value of type t (serde JSON form) that differs from Default::default(), or None when unsupported."""
    k = t["k"]
    if k == "bool":
        return True
    if k == "int":
        lo, hi = INTS[t["n"]]
        return rng.choice([7, hi, 1] + ([-3, lo] if lo < 0 else [200]))
    if k == "float":
        return rng.choice([1.5, -2.25, 1024.0])
    if k == "string":
        return rng.choice(["preset", "x y", "é"])
    if k == "option":
        return nondefault_value(t["t"], rng)
    if k == "box":
        return nondefault_value(t["t"], rng)
    if k == "vec":
        v = nondefault_value(t["t"], rng)
        return None if v is None else [v] * rng.choice([1, 2])
    if k in ("hashmap", "btreemap"):
        v = nondefault_value(t["t"], rng)
        return None if v is None else {kk: v for kk in rng.sample(["k", "a b", "key2"], rng.choice([1, 2]))}
    if k == "tuple":
        vs = [nondefault_value(x, rng) for x in t["ts"]]
        return None if any(v is None for v in vs) else vs
    if k == "array":
        v = nondefault_value(t["t"], rng)
        return None if v is None else [v] * t["n"]
    return None     # unit, references


def empty_value(t):
    """the intrinsic-empty value of a type (what Default::default() serialises to), or None when there is none."""
    k = t["k"]
    if k == "bool":
        return (False,)
    if k == "int":
        return (0,)
    if k == "float":
        return (0.0,)
    if k == "string":
        return ("",)
    if k == "option":
        return (None,)
    if k == "vec":
        return ([],)
    if k in ("hashmap", "btreemap"):
        return ({},)
    if k == "box":
        return empty_value(t["t"])
    if k == "tuple":
        vs = [empty_value(x) for x in t["ts"]]
        return None if any(v is None for v in vs) else ([v[0] for v in vs],)
    if k == "array":
        v = empty_value(t["t"])
        return None if v is None else ([v[0]] * t["n"],)
    return None


def rs_expr(t, v):
    """Rust expression of type t for the serde JSON form v."""
    k = t["k"]
    if k == "bool":
        return "true" if v else "false"
    if k == "int":
        return "(%d as %s)" % (v, t["n"]) if v >= 0 else "(%d%s)" % (v, t["n"])
    if k == "float":
        return "(%r as %s)" % (float(v), t["n"])
    if k == "string":
        return "String::from(%s)" % json.dumps(v, ensure_ascii=False)
    if k == "unit":
        return "()"
    if k == "option":
        return "None" if v is None else "Some(%s)" % rs_expr(t["t"], v)
    if k == "box":
        return "Box::new(%s)" % rs_expr(t["t"], v)
    if k == "vec":
        return "vec![%s]" % ", ".join(rs_expr(t["t"], x) for x in v)
    if k in ("hashmap", "btreemap"):
        ty = "HashMap" if k == "hashmap" else "BTreeMap"
        return "::std::collections::%s::from([%s])" % (ty, ", ".join(
            "(String::from(%s), %s)" % (json.dumps(kk, ensure_ascii=False), rs_expr(t["t"], x)) for kk, x in v.items()))
    if k == "tuple":
        return "(%s,)" % ", ".join(rs_expr(x, y) for x, y in zip(t["ts"], v))
    if k == "array":
        return "[%s]" % ", ".join(rs_expr(t["t"], x) for x in v)
    raise ValueError(k)


# ---- clusters of mutually recursive types whose cycle passes through a BY-VALUE container (the schema loses the
# Box of the origin, typify's break_cycles must re-introduce one): inline tuple, tuple struct, fixed array,
# enum tuple / struct / newtype variants, newtype struct, nested tuple, a 3-cycle across struct / tuple struct / enum
def _f(name, ty):
    return {"name": name, "ty": ty, "rename": None, "default": False, "skip_none": False}


def _v(name, kind, tys=(), fields=()):
    return {"name": name, "rename": None, "kind": kind, "tys": list(tys), "fields": list(fields), "rename_all": None}


def _st(name, fields, **kw):
    d = {"kind": "struct", "name": name, "rename_all": None, "deny": False, "cdefault": False, "derive_default": False,
         "fields": fields}
    d.update(kw)
    return d


def rec_cluster(rng, which=None):
    ref = lambda n: T("ref", name=n)
    ob = lambda t: T("option", t=T("box", t=t))
    sc = lambda: rng.choice([T("string"), T("int", n="u8"), T("bool"), T("int", n="i64")])
    shapes = ["inline-tuple", "tuple-struct", "array", "enum-variants", "newtype-struct", "nested-tuple", "three-cycle"]
    which = which or rng.choice(shapes)
    if which == "inline-tuple":
        return which, [_st("Chain", [_f("label", sc()), _f("next", ob(T("tuple", ts=[T("string"), ref("Chain")])))])]
    if which == "tuple-struct":
        return which, [{"kind": "tuple_struct", "name": "Edge", "tys": [sc(), ref("Vertex")], "derive_default": False},
                       _st("Vertex", [_f("id", T("int", n="u32")), _f("out", ob(ref("Edge")))])]
    if which == "array":
        return which, [_st("Quad", [_f("kids", T("array", t=ob(ref("Quad")), n=rng.choice([1, 2, 3]))), _f("v", sc())])]
    if which == "enum-variants":
        tg = rng.choice([{"k": "external"}, {"k": "adjacent", "tag": "t", "content": "c"}])
        bx = T("box", t=ref("Tree2"))
        return which, [{"kind": "enum", "name": "Tree2", "tagging": tg, "rename_all": None, "deny": False,
                        "variants": [_v("Leaf", "newtype", [sc()]), _v("Pair", "tuple", [bx, bx]), _v("Wrap", "newtype", [bx]),
                                     _v("Node", "struct", fields=[_f("left", bx), _f("label", T("string"))])]}]
    if which == "newtype-struct":
        return which, [{"kind": "newtype", "name": "Nlink", "ty": ob(ref("Mnode")), "derive_default": False},
                       _st("Mnode", [_f("n", ref("Nlink")), _f("v", sc())])]
    if which == "nested-tuple":
        return which, [_st("Nest", [_f("next", ob(T("tuple", ts=[T("tuple", ts=[sc(), ref("Nest")]), T("string")]))), _f("k", sc())])]
    return which, [_st("Aring", [_f("b", ob(ref("Bring"))), _f("x", sc())]),
                   {"kind": "tuple_struct", "name": "Bring", "tys": [ref("Cring"), sc()], "derive_default": False},
                   {"kind": "enum", "name": "Cring", "tagging": {"k": "external"}, "rename_all": None, "deny": False,
                    "variants": [_v("Stop", "unit"), _v("Go", "newtype", [ref("Aring")])]}]


def generate(seed, n, profile=None):
    out = []
    for i in range(n):
        rng = random.Random("%s/c04/%d" % (seed, i))
        out.append(Gen(rng, profile).universe())
    return out


# --------------------------------------------------------------------------
# Rust source
# --------------------------------------------------------------------------
def rs_ty(t):
    k = t["k"]
    if k == "bool":
        return "bool"
    if k in ("int", "float"):
        return t["n"]
    if k == "string":
        return "String"
    if k == "unit":
        return "()"
    if k == "option":
        return "Option<%s>" % rs_ty(t["t"])
    if k == "vec":
        return "Vec<%s>" % rs_ty(t["t"])
    if k == "box":
        return "Box<%s>" % rs_ty(t["t"])
    if k == "hashmap":
        return "::std::collections::HashMap<String, %s>" % rs_ty(t["t"])
    if k == "btreemap":
        return "::std::collections::BTreeMap<String, %s>" % rs_ty(t["t"])
    if k == "tuple":
        return "(%s,)" % ", ".join(rs_ty(x) for x in t["ts"])
    if k == "array":
        return "[%s; %d]" % (rs_ty(t["t"]), t["n"])
    if k == "ref":
        return t["name"]
    raise ValueError(k)


def rs_lit(s):
    return json.dumps(s)


def default_fn_name(prefix, f):
    return "dflt_%s_%s" % (prefix, f["name"])


def rs_default_fns(fields, prefix):
    out = []
    for f in fields:
        if "default_val" in f:
            out.append("fn %s() -> %s {\n    %s\n}\n" % (default_fn_name(prefix, f), rs_ty(f["ty"]),
                                                        rs_expr(f["ty"], f["default_val"])))
    return "".join(out)


def rs_fields(fields, indent, pub, prefix=""):
    out = []
    for f in fields:
        at = []
        if f.get("rename") is not None:
            at.append("rename = %s" % rs_lit(f["rename"]))
        if "default_val" in f:
            at.append("default = %s" % rs_lit(default_fn_name(prefix, f)))
        elif f.get("default"):
            at.append("default")
        if f.get("skip_none"):
            at.append('skip_serializing_if = "Option::is_none"')
        if f.get("skip_if"):
            pred = {"vec_empty": "Vec::is_empty", "str_empty": "String::is_empty", "not": "::std::ops::Not::not",
                    "map_empty": "::std::collections::%s::is_empty" % ("HashMap" if f["ty"]["k"] == "hashmap" else "BTreeMap"),
                    "is_zero": "is_zero_%s" % f["ty"].get("n", "u8")}[f["skip_if"]]
            at.append('skip_serializing_if = "%s"' % pred)
        if at:
            out.append("%s#[serde(%s)]\n" % (indent, ", ".join(at)))
        out.append("%s%s%s: %s,\n" % (indent, "pub " if pub else "", f["name"], rs_ty(f["ty"])))
    return "".join(out)


def rs_def(d):
    derives = ["Serialize", "Deserialize", "JsonSchema", "Debug", "Clone", "PartialEq"]
    if d.get("derive_default"):
        derives.append("Default")
    out = ["#[derive(%s)]\n" % ", ".join(derives)]
    at = []
    k = d["kind"]
    if k in ("struct", "enum"):
        if d.get("rename_all"):
            at.append("rename_all = %s" % rs_lit(d["rename_all"]))
        if d.get("deny"):
            at.append("deny_unknown_fields")
    if k == "struct" and d.get("cdefault"):
        at.append("default")
    if k == "enum":
        tg = d["tagging"]
        if tg["k"] == "internal":
            at.append("tag = %s" % rs_lit(tg["tag"]))
        elif tg["k"] == "adjacent":
            at.append("tag = %s, content = %s" % (rs_lit(tg["tag"]), rs_lit(tg["content"])))
        elif tg["k"] == "untagged":
            at.append("untagged")
    if at:
        out.append("#[serde(%s)]\n" % ", ".join(at))
    if k == "struct":
        out.append("pub struct %s {\n%s}\n" % (d["name"], rs_fields(d["fields"], "    ", True, d["name"])))
        out.append(rs_default_fns(d["fields"], d["name"]))
    elif k == "tuple_struct":
        out.append("pub struct %s(%s);\n" % (d["name"], ", ".join("pub " + rs_ty(t) for t in d["tys"])))
    elif k == "newtype":
        out.append("pub struct %s(pub %s);\n" % (d["name"], rs_ty(d["ty"])))
    elif k == "unit_struct":
        out.append("pub struct %s;\n" % d["name"])
    else:
        out.append("pub enum %s {\n" % d["name"])
        for v in d["variants"]:
            va = []
            if v.get("rename") is not None:
                va.append("rename = %s" % rs_lit(v["rename"]))
            if v.get("rename_all"):
                va.append("rename_all = %s" % rs_lit(v["rename_all"]))
            if va:
                out.append("    #[serde(%s)]\n" % ", ".join(va))
            if v["kind"] == "unit":
                out.append("    %s,\n" % v["name"])
            elif v["kind"] in ("newtype", "tuple"):
                out.append("    %s(%s),\n" % (v["name"], ", ".join(rs_ty(t) for t in v["tys"])))
            else:
                out.append("    %s {\n%s    },\n" % (v["name"], rs_fields(v["fields"], "        ", False,
                                                                             d["name"] + "_" + v["name"])))
        out.append("}\n")
        for v in d["variants"]:
            out.append(rs_default_fns(v["fields"], d["name"] + "_" + v["name"]))
    return "".join(out)


IS_ZERO_FNS = "".join("fn is_zero_%s(v: &%s) -> bool { *v == 0 }\n" % (n, n) for n in INTS)


def uses_is_zero(u):
    return "is_zero" in json.dumps(u)


def rs_universe(u):
    return "\n".join(rs_def(d) for d in u["types"]) + (IS_ZERO_FNS if uses_is_zero(u) else "")


# --------------------------------------------------------------------------
# JSON value candidates (serde's representation; the ORIGIN crate decides)
# --------------------------------------------------------------------------
STRINGS = ["", "a", "hello world", "é✓", "null", "0", "Foo"]
KEYS = ["k", "a b", "", "key2", "ü"]
F64S = [0.0, 1.5, -2.25, 1e10, 0.1, 3, -7, 1e-7]
F32S = [0.0, 1.5, -2.25, 1024.0, 0.1, 3, -7, 0.000244140625]
F32_EXACT = [0.0, 1.5, -2.25, 1024.0, 3, -7, 0.000244140625]


class Sampler:
    def __init__(self, u, rng):
        self.u = u
        self.r = rng
        self.by = {d["name"]: d for d in u["types"]}

    def ty(self, t, depth):
        r = self.r
        k = t["k"]
        if k == "bool":
            return r.random() < 0.5
        if k == "int":
            lo, hi = INTS[t["n"]]
            return r.choice([0, 1, lo, hi, hi // 2 + 1, r.randint(lo, hi), r.randint(max(lo, -100), min(hi, 100))])
        if k == "float":
            return r.choice(F32S if t["n"] == "f32" else F64S)
        if k == "string":
            return r.choice(STRINGS)
        if k == "unit":
            return None
        if k == "option":
            if depth <= 0 or r.random() < 0.3:
                return None
            return self.ty(t["t"], depth - 1)
        if k == "vec":
            n = 0 if depth <= 0 else r.choice([0, 1, 1, 2, 3])
            return [self.ty(t["t"], depth - 1) for _ in range(n)]
        if k == "box":
            return self.ty(t["t"], depth)
        if k in ("hashmap", "btreemap"):
            n = 0 if depth <= 0 else r.choice([0, 1, 2])
            return {kk: self.ty(t["t"], depth - 1) for kk in r.sample(KEYS, n)}
        if k == "tuple":
            return [self.ty(x, depth - 1) for x in t["ts"]]
        if k == "array":
            return [self.ty(t["t"], depth - 1) for _ in range(t["n"])]
        if k == "ref":
            return self.named(t["name"], depth - 1)
        raise ValueError(k)

    def fields(self, fields, rule, deny, cdefault, depth):
        r = self.r
        o = {}
        for f in fields:
            optional = f["default"] or cdefault or f["ty"]["k"] == "option" or "default_val" in f
            if optional and r.random() < 0.35:
                continue
            if f.get("skip_if") and r.random() < 0.45:
                ev = empty_value(f["ty"])
                o[field_wire(f, rule)] = ev[0] if ev is not None else self.ty(f["ty"], depth)
                continue
            if "default_val" in f and r.random() < 0.5:
                ev = empty_value(f["ty"])
                o[field_wire(f, rule)] = ev[0] if (ev is not None and r.random() < 0.6) else f["default_val"]
                continue
            o[field_wire(f, rule)] = self.ty(f["ty"], depth)
        if not deny and r.random() < 0.08:
            o["zz_unknown"] = r.choice([1, "u", None, [1], {"q": 1}])
        return o

    def named(self, name, depth, variant=None):
        r = self.r
        d = self.by[name]
        k = d["kind"]
        if k == "struct":
            return self.fields(d["fields"], d["rename_all"], d["deny"], d["cdefault"], depth)
        if k == "tuple_struct":
            return [self.ty(t, depth) for t in d["tys"]]
        if k == "newtype":
            return self.ty(d["ty"], depth)
        if k == "unit_struct":
            return None
        vs = d["variants"]
        if variant is None:
            variant = 0 if depth <= 0 else r.randrange(len(vs))
        v = vs[variant]
        w = variant_wire(v, d["rename_all"])
        tg = d["tagging"]
        if v["kind"] == "unit":
            body = None
        elif v["kind"] == "newtype":
            body = self.ty(v["tys"][0], depth)
        elif v["kind"] == "tuple":
            body = [self.ty(t, depth) for t in v["tys"]]
        else:
            body = self.fields(v["fields"], v["rename_all"], d["deny"], False, depth)
        if tg["k"] == "external":
            return w if v["kind"] == "unit" else {w: body}
        if tg["k"] == "untagged":
            return body
        if tg["k"] == "adjacent":
            o = {tg["tag"]: w}
            if v["kind"] != "unit":
                o[tg["content"]] = body
            return o
        o = {tg["tag"]: w}
        if isinstance(body, dict):
            for kk, vv in body.items():
                o.setdefault(kk, vv)
        return o

    def targeted(self, name, depth=2):
        """for every member with a default function: one value carrying the type's intrinsic-empty value and one
        carrying the custom default itself (and the member is then present, not omitted)."""
        d = self.by[name]
        out = []

        def body_of(j, d, v):
            if d["kind"] == "struct":
                return j
            tg = d["tagging"]
            if tg["k"] == "external":
                return j[variant_wire(v, d["rename_all"])]
            if tg["k"] == "adjacent":
                return j[tg["content"]]
            return j
        groups = []
        if d["kind"] == "struct":
            groups.append((None, None, d["fields"], d["rename_all"]))
        elif d["kind"] == "enum":
            for vi, v in enumerate(d["variants"]):
                if v["kind"] == "struct":
                    groups.append((vi, v, v["fields"], v["rename_all"]))
        for vi, v, fields, rule in groups:
            for f in fields:
                if "default_val" not in f and not f.get("skip_if"):
                    continue
                if "default_val" in f:
                    vals = [f["default_val"]]
                else:       # away from the skip point
                    nv = nondefault_value(f["ty"], self.r)
                    vals = [nv] if nv is not None else []
                ev = empty_value(f["ty"])
                if ev is not None:
                    vals.insert(0, ev[0])       # AT the skip point / the intrinsic-empty value
                for val in vals:
                    try:
                        j = self.named(name, depth, variant=vi)
                        body_of(j, d, v)[field_wire(f, rule)] = val
                    except (RecursionError, KeyError, TypeError):
                        continue
                    out.append(j)
        return out

    def candidates(self, name, n, depth=3):
        d = self.by[name]
        out = []
        seen = set()
        for j in self.targeted(name):
            sj = json.dumps(j, sort_keys=True, ensure_ascii=False)
            if sj not in seen and len(sj) < 4000:
                seen.add(sj)
                out.append(j)
        n += len(out)
        nv = len(d["variants"]) if d["kind"] == "enum" else 0
        tries = 0
        while len(out) < n and tries < 4 * n + 8:
            v = tries if tries < nv else None
            dep = depth if tries != nv else 0
            tries += 1
            try:
                j = self.named(name, dep, variant=v)
            except RecursionError:
                continue
            s = json.dumps(j, sort_keys=True, ensure_ascii=False)
            if s not in seen and len(s) < 4000:
                seen.add(s)
                out.append(j)
        return out


def mutants(j, rng, n=3):
    """simple structural mutations of a JSON value (the ORIGIN type decides whether they are values)."""
    out = []
    paths = []

    def walk(v, path):
        paths.append(path)
        if isinstance(v, dict):
            for k in v:
                walk(v[k], path + [k])
        elif isinstance(v, list):
            for i, x in enumerate(v):
                walk(x, path + [i])
    walk(j, [])

    def get(v, path):
        for p in path:
            v = v[p]
        return v

    def put(v, path, new):
        if not path:
            return new
        c = json.loads(json.dumps(v))
        t = c
        for p in path[:-1]:
            t = t[p]
        t[path[-1]] = new
        return c
    for _ in range(n * 3):
        if len(out) >= n:
            break
        path = rng.choice(paths)
        v = get(j, path)
        kind = rng.choice(["drop", "wrong", "unknown", "null", "trunc", "extend", "neg", "big"])
        if kind == "drop" and isinstance(v, dict) and v:
            k = rng.choice(sorted(v))
            m = put(j, path, {a: b for a, b in v.items() if a != k})
        elif kind == "wrong":
            m = put(j, path, "zz" if not isinstance(v, str) else 17)
        elif kind == "unknown" and isinstance(v, dict):
            m = put(j, path, dict(v, zz_unknown=1))
        elif kind == "null" and v is not None:
            m = put(j, path, None)
        elif kind == "trunc" and isinstance(v, list) and v:
            m = put(j, path, v[:-1])
        elif kind == "extend" and isinstance(v, list):
            m = put(j, path, v + [v[-1] if v else 0])
        elif kind == "neg" and isinstance(v, int) and not isinstance(v, bool):
            m = put(j, path, -v - 1)
        elif kind == "big" and isinstance(v, int) and not isinstance(v, bool):
            m = put(j, path, v + rng.choice([256, 65536, 2**32, 2**63]))
        else:
            continue
        if m != j and m not in out:
            out.append(m)
    return out


def reachable(u, root):
    by = {d["name"]: d for d in u["types"]}
    seen, todo = [], [root]

    def tys_of(d):
        if d["kind"] == "struct":
            return [f["ty"] for f in d["fields"]]
        if d["kind"] == "tuple_struct":
            return d["tys"]
        if d["kind"] == "newtype":
            return [d["ty"]]
        if d["kind"] == "enum":
            return [t for v in d["variants"] for t in v["tys"]] + [f["ty"] for v in d["variants"] for f in v["fields"]]
        return []

    def refs(t, acc):
        if t["k"] == "ref":
            acc.append(t["name"])
        elif "t" in t:
            refs(t["t"], acc)
        elif "ts" in t:
            for x in t["ts"]:
                refs(x, acc)

    while todo:
        n = todo.pop()
        if n in seen:
            continue
        seen.append(n)
        acc = []
        for t in tys_of(by[n]):
            refs(t, acc)
        todo += acc
    return seen


def cover_roots(u):
    """roots (latest types first) such that every type is reachable from a root."""
    names = [d["name"] for d in u["types"]]
    covered, roots = set(), []
    for n in reversed(names):
        if n not in covered and len(roots) < 3:
            roots.append(n)
            covered |= set(reachable(u, n))
    return roots


def features(u):
    """feature keys of a universe (coverage / finding classes)."""
    fs = set()

    def ty(t):
        fs.add("ty:" + t["k"] + (":" + t["n"] if t["k"] in ("int", "float") else ""))
        if t["k"] == "tuple":
            fs.add("tuple%d" % len(t["ts"]))
        if "t" in t:
            ty(t["t"])
        for x in t.get("ts", []):
            ty(x)

    def flds(fields, where):
        for f in fields:
            ty(f["ty"])
            if f.get("rename") is not None:
                fs.add("field-rename")
            if f.get("default"):
                fs.add("field-default")
                fs.add("field-default:" + f["ty"]["k"])
            if f.get("skip_none"):
                fs.add("skip-none")
            if f.get("skip_if"):
                fs.add("skip-if:" + f["skip_if"])
            if "default_val" in f:
                fs.add("field-default-fn")
                fs.add("field-default-fn:" + strip_box(f["ty"])["k"])
    for d in u["types"]:
        fs.add("kind:" + d["kind"])
        if d["name"] in ("Chain", "Edge", "Quad", "Tree2", "Nlink", "Nest", "Aring"):
            fs.add("rec-cluster:" + d["name"])
        if d["kind"] == "struct":
            flds(d["fields"], "struct")
            if d["rename_all"]:
                fs.add("struct-rename_all:" + d["rename_all"])
            if d["deny"]:
                fs.add("struct-deny")
            if d["cdefault"]:
                fs.add("container-default")
        elif d["kind"] == "tuple_struct":
            for t in d["tys"]:
                ty(t)
        elif d["kind"] == "newtype":
            ty(d["ty"])
        elif d["kind"] == "enum":
            tk = d["tagging"]["k"]
            fs.add("enum:" + tk)
            if d["rename_all"]:
                fs.add("enum-rename_all:" + d["rename_all"])
            if d["deny"]:
                fs.add("enum-deny:" + tk)
            for v in d["variants"]:
                fs.add("variant:%s:%s" % (tk, v["kind"]))
                if v.get("rename") is not None:
                    fs.add("variant-rename")
                if v.get("rename_all"):
                    fs.add("variant-rename_all")
                for t in v["tys"]:
                    ty(t)
                flds(v["fields"], "variant")
    return fs


# --------------------------------------------------------------------------
# Gallina term for Algo/RustDefs.v
# --------------------------------------------------------------------------
def ustr(s):
    if s == "":
        return "(@nil N)"
    return "[" + "; ".join(str(ord(c)) for c in s) + "]%N"


RULE_CTOR = {None: "RuNone", "lowercase": "RuLower", "UPPERCASE": "RuUpper", "PascalCase": "RuPascal",
             "camelCase": "RuCamel", "snake_case": "RuSnake", "SCREAMING_SNAKE_CASE": "RuScreamingSnake",
             "kebab-case": "RuKebab", "SCREAMING-KEBAB-CASE": "RuScreamingKebab"}


def cq_ty(t):
    k = t["k"]
    if k == "bool":
        return "RtBool"
    if k == "int":
        return "(RtInt %s)" % ustr(t["n"])
    if k == "float":
        return "(RtFloat %s)" % ustr(t["n"])
    if k == "string":
        return "RtString"
    if k == "unit":
        return "RtUnit"
    if k in ("option", "vec", "box"):
        return "(Rt%s %s)" % (k.capitalize(), cq_ty(t["t"]))
    if k in ("hashmap", "btreemap"):
        return "(RtMap %s)" % cq_ty(t["t"])
    if k == "tuple":
        return "(RtTuple [%s])" % "; ".join(cq_ty(x) for x in t["ts"])
    if k == "array":
        return "(RtArray %s %d%%N)" % (cq_ty(t["t"]), t["n"])
    if k == "ref":
        return "(RtRef %s)" % ustr(t["name"])
    raise ValueError(k)


def cq_opt(x):
    return "None" if x is None else "(Some %s)" % ustr(x)


def cq_list(xs, ty):
    xs = list(xs)
    return "[" + "; ".join(xs) + "]" if xs else "(@nil %s)" % ty


def cq_bool(b):
    return "true" if b else "false"


def cq_field(f):
    import tocoq
    dv = "(Some %s)" % tocoq.cjson(f["default_val"]) if "default_val" in f else "None"
    return "(mkRField %s %s %s %s %s %s)" % (ustr(f["name"]), cq_ty(f["ty"]), cq_opt(f.get("rename")),
                                              cq_bool(f.get("default")),
                                              cq_bool(f.get("skip_none") or f.get("skip_if") in MODELLED_SKIPS), dv)


def cq_def(d):
    k = d["kind"]
    nm = ustr(d["name"])
    if k == "struct":
        return "(RdStruct %s %s %s %s %s)" % (nm, RULE_CTOR[d["rename_all"]], cq_bool(d["deny"]), cq_bool(d["cdefault"]),
                                              cq_list(map(cq_field, d["fields"]), "rfield"))
    if k == "tuple_struct":
        return "(RdTuple %s %s)" % (nm, cq_list(map(cq_ty, d["tys"]), "rty"))
    if k == "newtype":
        return "(RdNewtype %s %s)" % (nm, cq_ty(d["ty"]))
    if k == "unit_struct":
        return "(RdUnit %s)" % nm
    tg = d["tagging"]
    ctg = {"external": "TagExternal", "untagged": "TagUntagged"}.get(tg["k"])
    if tg["k"] == "internal":
        ctg = "(TagInternal %s)" % ustr(tg["tag"])
    elif tg["k"] == "adjacent":
        ctg = "(TagAdjacent %s %s)" % (ustr(tg["tag"]), ustr(tg["content"]))

    def cv(v):
        if v["kind"] == "unit":
            sh = "RvUnit"
        elif v["kind"] == "newtype":
            sh = "(RvNewtype %s)" % cq_ty(v["tys"][0])
        elif v["kind"] == "tuple":
            sh = "(RvTuple %s)" % cq_list(map(cq_ty, v["tys"]), "rty")
        else:
            sh = "(RvStruct %s %s)" % (RULE_CTOR[v.get("rename_all")], cq_list(map(cq_field, v["fields"]), "rfield"))
        return "(mkRVariant %s %s %s)" % (ustr(v["name"]), cq_opt(v.get("rename")), sh)
    return "(RdEnum %s %s %s %s %s)" % (nm, ctg, RULE_CTOR[d["rename_all"]], cq_bool(d["deny"]),
                                        cq_list(map(cv, d["variants"]), "rvariant"))


def cq_universe(u):
    return cq_list(map(cq_def, u["types"]), "rust_def")


# --------------------------------------------------------------------------
# the compiled ORIGIN crate
# --------------------------------------------------------------------------
ORIGIN_ROOT = os.path.join(vlib.WORK, "c04")
WORLD_TARGET = os.path.join(vlib.WORK, "world-target")

RT = r'''
#![allow(warnings)]
pub mod rt {
    use serde_json::{json, Value};
    pub fn schema<T: schemars::JsonSchema>() -> Value {
        json!({"ok": serde_json::to_value(schemars::schema_for!(T)).unwrap()})
    }
    pub fn de<T: serde::Serialize + serde::de::DeserializeOwned>(input: &Value) -> Value {
        let text = input.as_str().unwrap_or("");
        match serde_json::from_str::<T>(text) {
            Ok(x) => match serde_json::to_value(&x) {
                Ok(v) => json!({"ok": v, "text": serde_json::to_string(&x).unwrap_or_default()}),
                Err(e) => json!({"ser_err": e.to_string()}),
            },
            Err(e) => json!({"err": e.to_string()}),
        }
    }
    pub fn eq<T: PartialEq + serde::de::DeserializeOwned>(input: &Value) -> Value {
        let a = serde_json::from_str::<T>(input[0].as_str().unwrap_or(""));
        let b = serde_json::from_str::<T>(input[1].as_str().unwrap_or(""));
        match (a, b) {
            (Ok(a), Ok(b)) => json!({"ok": a == b}),
            (Err(e), _) => json!({"err": e.to_string(), "side": 0}),
            (_, Err(e)) => json!({"err": e.to_string(), "side": 1}),
        }
    }
}
'''

MAIN_TAIL = r'''
fn main() {
    use std::io::{BufRead, Write};
    std::panic::set_hook(Box::new(|_| {}));
    let stdin = std::io::stdin();
    let stdout = std::io::stdout();
    let mut out = std::io::BufWriter::new(stdout.lock());
    for line in stdin.lock().lines() {
        let line = line.unwrap();
        if line.trim().is_empty() { continue; }
        let v: serde_json::Value = serde_json::from_str(&line).unwrap();
        let m = v["m"].as_str().unwrap_or("").to_string();
        let t = v["t"].as_str().unwrap_or("").to_string();
        let op = v["op"].as_str().unwrap_or("").to_string();
        let input = v["input"].clone();
        let r = std::panic::catch_unwind(|| dispatch(&m, &t, &op, &input));
        let r = match r {
            Ok(r) => r,
            Err(e) => {
                let msg = if let Some(s) = e.downcast_ref::<String>() { s.clone() }
                          else if let Some(s) = e.downcast_ref::<&str>() { s.to_string() } else { "?".to_string() };
                serde_json::json!({"panic": msg})
            }
        };
        writeln!(out, "{}", r).unwrap();
    }
}
'''

CARGO_MEMBER = '''[package]
name = "%s"
version = "0.0.0"
edition = "2021"

[dependencies]
serde = { version = "1.0.219", features = ["derive"] }
serde_json = "1.0.140"
schemars = "0.8.22"

[profile.dev]
opt-level = 0
debug = false
incremental = false
'''

STUB = '''pub fn dispatch(_t: &str, _op: &str, _i: &::serde_json::Value) -> ::serde_json::Value {
    ::serde_json::json!({"uncompilable": true})
}
'''


def module_text(u):
    body = ["use ::serde::{Serialize, Deserialize};\nuse ::schemars::JsonSchema;\n", rs_universe(u),
            "\npub fn dispatch(t: &str, op: &str, input: &::serde_json::Value) -> ::serde_json::Value {\n"
            "    match (t, op) {\n"]
    for d in u["types"]:
        n = d["name"]
        body.append('        ("%s", "schema") => crate::rt::schema::<%s>(),\n' % (n, n))
        body.append('        ("%s", "de") => crate::rt::de::<%s>(input),\n' % (n, n))
        body.append('        ("%s", "eq") => crate::rt::eq::<%s>(input),\n' % (n, n))
    body.append("        _ => ::serde_json::json!({\"unsupported\": true}),\n    }\n}\n")
    return "".join(body)


class Origin:
    """Compile universes into driver crates (cached by content); answer queries
    {"m": universe index, "t": type name, "op": "schema"|"de"|"eq", "input": ...}."""

    def __init__(self, ctx, name, universes, nsplit=8):
        self.ctx = ctx
        self.name = name
        self.us = universes
        self.nsplit = max(1, min(nsplit, len(universes)))
        self.status = ["ok"] * len(universes)
        self.compile_errors = {}
        self.bins = {}
        self.dir = None

    def _key(self):
        h = hashlib.sha256()
        h.update(json.dumps(self.us, sort_keys=True).encode())
        h.update(RT.encode())
        h.update(MAIN_TAIL.encode())
        h.update(CARGO_MEMBER.encode())
        h.update(open(os.path.join(vlib.REPO, "Cargo.lock"), "rb").read())
        for i, u in enumerate(self.us):
            h.update(module_text(u).encode())
        return h.hexdigest()[:12]

    def build(self, max_rounds=5):
        key = self._key()
        self.dir = os.path.join(ORIGIN_ROOT, "%s-%s" % (self.name, key))
        marker = os.path.join(self.dir, "built.json")
        if os.path.exists(marker):
            st = json.load(open(marker))
            self.status = st["status"]
            self.compile_errors = {int(k): v for k, v in st["compile_errors"].items()}
            self.bins = {int(k): v for k, v in st["bins"].items()}
            if all(os.path.exists(b) for b in self.bins.values()):
                self.ctx.log("origin %s: reused %s" % (self.name, self.dir))
                return self
        os.makedirs(ORIGIN_ROOT, exist_ok=True)
        for d in os.listdir(ORIGIN_ROOT):
            if d.startswith(self.name + "-") and d != os.path.basename(self.dir):
                shutil.rmtree(os.path.join(ORIGIN_ROOT, d), ignore_errors=True)
        shutil.rmtree(self.dir, ignore_errors=True)
        os.makedirs(self.dir)
        idx = list(range(len(self.us)))
        groups = [idx[k::self.nsplit] for k in range(self.nsplit)]
        groups = [g for g in groups if g]
        pk = ["o%s_%d" % (key[:8], k) for k in range(len(groups))]
        with open(os.path.join(self.dir, "Cargo.toml"), "w") as f:
            f.write("[workspace]\nresolver = \"2\"\nmembers = [%s]\n" % ", ".join(json.dumps(p) for p in pk))
        with open(os.path.join(self.dir, "rust-toolchain.toml"), "w") as f:
            f.write("[toolchain]\nchannel = \"1.80.1\"\n")
        os.makedirs(os.path.join(self.dir, ".cargo"))
        with open(os.path.join(self.dir, ".cargo", "config.toml"), "w") as f:
            f.write("[net]\noffline = true\n[build]\ntarget-dir = %s\n" % json.dumps(WORLD_TARGET))
        shutil.copy(os.path.join(vlib.REPO, "Cargo.lock"), os.path.join(self.dir, "Cargo.lock"))
        where = {}
        for k, g in enumerate(groups):
            d = os.path.join(self.dir, pk[k])
            os.makedirs(os.path.join(d, "src"))
            with open(os.path.join(d, "Cargo.toml"), "w") as f:
                f.write(CARGO_MEMBER % pk[k])
            main = [RT]
            for i in g:
                main.append("mod u_%d;\n" % i)
            main.append("fn dispatch(m: &str, t: &str, op: &str, input: &serde_json::Value) -> serde_json::Value {\n"
                        "    match m {\n")
            for i in g:
                main.append("        \"%d\" => u_%d::dispatch(t, op, input),\n" % (i, i))
            main.append("        _ => serde_json::json!({\"nomodule\": true}),\n    }\n}\n")
            main.append(MAIN_TAIL)
            with open(os.path.join(d, "src", "main.rs"), "w") as f:
                f.write("".join(main))
            for i in g:
                where[i] = d
                with open(os.path.join(d, "src", "u_%d.rs" % i), "w") as f:
                    f.write(module_text(self.us[i]))
        rounds = 0
        while True:
            rounds += 1
            with vlib.Lock("world-cargo"):
                p = subprocess.run(["cargo", "build", "--offline", "--message-format=json", "-q"], cwd=self.dir,
                                   env=vlib.ENV, capture_output=True, text=True, timeout=3000)
            if p.returncode == 0:
                break
            errs = {}
            other = []
            for line in p.stdout.splitlines():
                try:
                    m = json.loads(line)
                except ValueError:
                    continue
                if m.get("reason") != "compiler-message" or m["message"].get("level") != "error":
                    continue
                msg = m["message"]
                placed = False
                for sp in msg.get("spans", []):
                    mm = re.search(r"u_(\d+)\.rs$", sp["file_name"])
                    if mm:
                        errs.setdefault(int(mm.group(1)), []).append(msg["message"])
                        placed = True
                        break
                if not placed:
                    other.append(msg["message"])
            if not errs or rounds > max_rounds:
                raise RuntimeError("origin build failed without attributable errors: %s %s" % (other[:5], p.stderr[-2000:]))
            for i, es in errs.items():
                self.status[i] = "compile-error"
                self.compile_errors[i] = es[:6]
                with open(os.path.join(where[i], "src", "u_%d.rs" % i), "w") as f:
                    f.write(STUB)
        os.makedirs(os.path.join(self.dir, "bin"))
        for k, g in enumerate(groups):
            src = os.path.join(WORLD_TARGET, "debug", pk[k])
            dst = os.path.join(self.dir, "bin", pk[k])
            shutil.copy(src, dst)
            for i in g:
                self.bins[i] = dst
        for sub in ("debug/deps", "debug/incremental", "debug/.fingerprint", "debug"):
            dd = os.path.join(WORLD_TARGET, sub)
            if os.path.isdir(dd):
                for fn in os.listdir(dd):
                    if fn.startswith("o%s_" % key[:8]):
                        pth = os.path.join(dd, fn)
                        if os.path.isdir(pth):
                            shutil.rmtree(pth, ignore_errors=True)
                        else:
                            try:
                                os.unlink(pth)
                            except OSError:
                                pass
        with open(marker, "w") as f:
            json.dump({"status": self.status, "compile_errors": self.compile_errors, "bins": self.bins}, f)
        self.ctx.log("origin %s: built %d universes in %d round(s), %d compile errors" % (
            self.name, len(self.us), rounds, len(self.compile_errors)))
        return self

    def query(self, reqs, timeout=1200):
        out = [None] * len(reqs)
        by_bin = {}
        for n, r in enumerate(reqs):
            b = self.bins.get(r["m"])
            if b is None or self.status[r["m"]] != "ok":
                out[n] = {"nomodule": True, "status": self.status[r["m"]]}
                continue
            by_bin.setdefault(b, []).append(n)
        for b, ns in by_bin.items():
            inp = "".join(json.dumps({"m": str(reqs[n]["m"]), "t": reqs[n]["t"], "op": reqs[n]["op"],
                                      "input": reqs[n].get("input")}) + "\n" for n in ns)
            p = subprocess.run([b], input=inp, capture_output=True, text=True, timeout=timeout)
            lines = [l for l in p.stdout.splitlines() if l.strip()]
            if len(lines) != len(ns):
                raise RuntimeError("origin driver %s: %d answers for %d requests (rc=%s) %s" % (
                    b, len(lines), len(ns), p.returncode, p.stderr[-500:]))
            for n, l in zip(ns, lines):
                out[n] = json.loads(l)
        return out


if __name__ == "__main__":
    import sys
    us = generate(sys.argv[1] if len(sys.argv) > 1 else "0", int(sys.argv[2]) if len(sys.argv) > 2 else 2)
    for u in us:
        print(rs_universe(u))
        s = Sampler(u, random.Random(1))
        for d in u["types"]:
            print("//", d["name"], json.dumps(s.candidates(d["name"], 4), ensure_ascii=False)[:300])
        print("// ----")
