#!/usr/bin/env python3
"""K7 — sanity channel of the validity SPECIFICATION (coq/theories/Spec/Valid.v).

    k7_eval(pairs, opts="draft07")  -> one record per pair (both verdicts)
    k7_check(ctx_or_none, pairs)    -> list of disagreements

pairs = [(defs_dict, schema, instance)], python JSON values.  `schema` may refer
to `#/definitions/<name>` (looked up in defs_dict) and to `#` (itself).

Model side: `Valid.verdictx` evaluated by coqc (vlib.coq_eval_strings); the two
section variables of Valid.v are instantiated per case by lookup tables
(`Valid.table_fn`): the verdict of every (pattern, string) and (format, string)
pair that can be asked is computed by the oracle process below (python `re`,
`uuid`, `ipaddress`, `datetime`) and handed to BOTH sides, so K7 never tests a
regex engine or a format parser, only the logic around them.

Oracle side: python jsonschema Draft7Validator (interpreter python3-vt =
/opt/veriftools/pyvenv/bin/python, run as a subprocess: `k7.py --oracle`)
extended with a FormatChecker holding exactly: the ten integer formats as ranges
on integer instances, and uuid/date/date-time/ip/ipv4/ipv6 on strings.

A disagreement is a defect of the MODEL (or an explained python-jsonschema
quirk, notes/Valid.md) - never a typify violation.

Self test:  python3 py/k7.py --selftest [--n 400] [--seed S]
"""
import json
import os
import random
import subprocess
import sys
import time

HERE = os.path.dirname(os.path.abspath(__file__))
VT_PY = "/opt/veriftools/pyvenv/bin/python"

INT_FORMATS = {
    "int8": (-2**7, 2**7 - 1), "uint8": (0, 2**8 - 1),
    "int16": (-2**15, 2**15 - 1), "uint16": (0, 2**16 - 1),
    "int32": (-2**31, 2**31 - 1), "int": (-2**31, 2**31 - 1),
    "uint32": (0, 2**32 - 1), "uint": (0, 2**32 - 1),
    "int64": (-2**63, 2**63 - 1), "uint64": (0, 2**64 - 1),
}
STRING_FORMATS = ("uuid", "date", "date-time", "ip", "ipv4", "ipv6")


# ======================================================================== oracle
# (this part runs under python3-vt; stdlib + jsonschema only)

def _walk_schema_strings(node, key, out):
    """all string values stored under keyword `key` anywhere in a JSON document"""
    if isinstance(node, dict):
        for k, v in node.items():
            if k == key and isinstance(v, str):
                out.add(v)
            _walk_schema_strings(v, key, out)
    elif isinstance(node, list):
        for v in node:
            _walk_schema_strings(v, key, out)


def _instance_strings(v, out):
    if isinstance(v, str):
        out.add(v)
    elif isinstance(v, list):
        for x in v:
            _instance_strings(x, out)
    elif isinstance(v, dict):
        for x in v.values():
            _instance_strings(x, out)


def fmt_verdict(fmt, s):
    """python-side recogniser of the six asserted string formats (a stand-in for
    the Rust FromStr impls; both sides of K7 get the same table)."""
    import datetime
    import ipaddress
    import re
    import uuid
    try:
        if fmt == "uuid":
            uuid.UUID(s)
            return True
        if fmt == "date":
            if not re.fullmatch(r"\d{4}-\d{2}-\d{2}", s):
                return False
            datetime.date.fromisoformat(s)
            return True
        if fmt == "date-time":
            if not re.fullmatch(r"\d{4}-\d{2}-\d{2}[Tt]\d{2}:\d{2}:\d{2}(\.\d+)?([Zz]|[+-]\d{2}:\d{2})", s):
                return False
            t = s.upper().replace("Z", "+00:00")
            datetime.datetime.fromisoformat(t[:19] + t[-6:])
            return True
        if fmt == "ip":
            ipaddress.ip_address(s)
            return True
        if fmt == "ipv4":
            ipaddress.IPv4Address(s)
            return True
        if fmt == "ipv6":
            ipaddress.IPv6Address(s)
            return True
    except ValueError:
        return False
    return True


def _fill_empty_items(node):
    if isinstance(node, dict):
        return {k: ([True] if k == "items" and v == [] else _fill_empty_items(v)) for k, v in node.items()}
    if isinstance(node, list):
        return [_fill_empty_items(v) for v in node]
    return node


def make_root(defs, schema):
    if isinstance(schema, dict):
        root = dict(schema)
        if defs or "definitions" not in root:
            root["definitions"] = defs
        return root
    return schema


def oracle_one(case):
    import re
    import jsonschema
    from jsonschema import Draft7Validator, FormatChecker

    defs, schema, inst, opts = case["defs"], case["schema"], case["instance"], case.get("opts", "draft07")
    exact = opts.endswith("+exact")      # second opinion: the two documented quirks repaired
    opts = opts.split("+")[0]
    out = {"py": None, "error": None, "pat": [], "fmt": []}
    root = make_root(defs, schema)
    pats, fmts, strs = set(), set(), set()
    _walk_schema_strings(root, "pattern", pats)
    _walk_schema_strings(root, "format", fmts)
    _instance_strings(inst, strs)
    try:
        for p in sorted(pats):
            rx = re.compile(p)
            for s in sorted(strs):
                out["pat"].append([p, s, rx.search(s) is not None])
    except re.error as e:
        out["error"] = "pattern: %s" % e
        return out
    ftab = {}
    for f in sorted(fmts):
        if f in STRING_FORMATS:
            for s in sorted(strs):
                ftab[(f, s)] = fmt_verdict(f, s)
                out["fmt"].append([f, s, ftab[(f, s)]])
    try:
        # `"items": []` is refused by the draft-07 metaschema (minItems 1) but schemars
        # represents it and its meaning is clear (every element is additional)
        Draft7Validator.check_schema(_fill_empty_items(root))
    except jsonschema.exceptions.SchemaError as e:
        out["error"] = "schema-invalid: %s" % str(e).splitlines()[0][:200]
        return out
    except Exception as e:  # noqa: BLE001  (e.g. RecursionError on the metaschema)
        out["error"] = "check_schema: %s" % type(e).__name__
        return out

    integral_floats = opts not in ("serde_ints",)
    fc = FormatChecker(formats=[])

    def int_check(lo, hi):
        def chk(v):
            if isinstance(v, bool):
                return True
            if isinstance(v, int):
                return lo <= v <= hi
            if isinstance(v, float) and integral_floats and v.is_integer():
                return lo <= v <= hi
            return True
        return chk

    def str_check(f):
        def chk(v):
            if not isinstance(v, str):
                return True
            return ftab.get((f, v), False)
        return chk

    for name, (lo, hi) in INT_FORMATS.items():
        if opts != "mut-no-int-formats":       # (emulated defect, --mutate)
            fc.checks(name)(int_check(lo, hi))
    for f in STRING_FORMATS:
        fc.checks(f)(str_check(f))

    cls = Draft7Validator
    if not integral_floats:
        tc = Draft7Validator.TYPE_CHECKER.redefine(
            "integer", lambda checker, v: isinstance(v, int) and not isinstance(v, bool))
        cls = jsonschema.validators.extend(Draft7Validator, type_checker=tc)
    if exact:
        from fractions import Fraction
        from jsonschema._utils import equal
        from jsonschema.exceptions import ValidationError

        def multiple_of(validator, dB, instance, schema):
            if validator.is_type(instance, "number") and Fraction(instance) % Fraction(dB) != 0:
                yield ValidationError("%r is not a multiple of %r" % (instance, dB))

        def unique_items(validator, uI, instance, schema):
            if uI and validator.is_type(instance, "array"):
                for i in range(len(instance)):
                    for j in range(i):
                        if equal(instance[i], instance[j]):
                            yield ValidationError("%r has non-unique elements" % (instance,))
                            return
        cls = jsonschema.validators.extend(cls, validators={"multipleOf": multiple_of, "uniqueItems": unique_items})
    try:
        val = cls(root, format_checker=fc)
        out["py"] = bool(val.is_valid(inst))
        if not out["py"] and case.get("why"):
            why = set()

            def collect(errs):
                for e in errs:
                    why.add(str(e.validator))
                    collect(e.context or [])
            collect(val.iter_errors(inst))
            out["why"] = sorted(why)
    except RecursionError:
        out["error"] = "RecursionError"
    except Exception as e:  # noqa: BLE001  (unresolvable reference, TypeError in additionalItems, ...)
        out["error"] = "%s: %s" % (type(e).__name__, str(e)[:200])
    return out


def oracle_main():
    sys.setrecursionlimit(3000)
    for line in sys.stdin:
        line = line.strip()
        if not line:
            continue
        sys.stdout.write(json.dumps(oracle_one(json.loads(line))) + "\n")
    sys.stdout.flush()


def run_oracle(cases, timeout=1800):
    inp = "".join(json.dumps(c) + "\n" for c in cases)
    p = subprocess.run([VT_PY, os.path.abspath(__file__), "--oracle"], input=inp, capture_output=True,
                       text=True, timeout=timeout)
    if p.returncode != 0:
        raise RuntimeError("k7 oracle failed: " + p.stderr[-3000:])
    res = [json.loads(l) for l in p.stdout.splitlines() if l.strip()]
    if len(res) != len(cases):
        raise RuntimeError("k7 oracle: %d results for %d cases" % (len(res), len(cases)))
    return res


# ======================================================================== model side
K7_HEADER = ("From Coq Require Import String ZArith NArith QArith List Bool.\n"
             "From Typify Require Import Base.Json Spec.Schema Spec.Valid.\n"
             "Import ListNotations.\nClose Scope Q_scope.\nOpen Scope string_scope.\n")


def norm_instance(v):
    """serde_json's reading of number literals: an integer literal outside
    i64/u64 is an f64 (tocoq.cjson does the same on the Coq side)."""
    if isinstance(v, bool) or v is None or isinstance(v, (str, float)):
        return v
    if isinstance(v, int):
        return v if -2**63 <= v < 2**64 else float(v)
    if isinstance(v, list):
        return [norm_instance(x) for x in v]
    if isinstance(v, dict):
        return {k: norm_instance(x) for k, x in v.items()}
    raise TypeError(v)


def depth(v):
    if isinstance(v, list):
        return 1 + max([depth(x) for x in v] or [0])
    if isinstance(v, dict):
        return 1 + max([depth(x) for x in v.values()] or [0])
    return 0


def fuel_for(defs, inst):
    """every chain of references between two descents into the instance visits
    each definition (and the root) at most once in a productive document"""
    return (len(defs) + 2) * (depth(inst) + 2)


def ctable(rows):
    from tocoq import ustr
    if not rows:
        return "(@nil ((ustring * ustring) * bool))"
    return "[" + "; ".join("((%s, %s), %s)" % (ustr(a), ustr(b), "true" if r else "false") for a, b, r in rows) + "]"


def coq_expr(defs, schema, inst, pat, fmt, opts="draft07", fuel=None):
    from tocoq import cdefs, cjson, cschema
    if "#" in defs:
        from tocoq import Unsupported
        raise Unsupported("a definition named '#' collides with the reserved root key")
    if fuel is None:
        fuel = fuel_for(defs, inst)
    return ("(let S := %s in show_verdict (verdictx (table_fn %s) (table_fn %s) %s (with_root %s S) %d%%nat S %s))"
            % (cschema(schema), ctable(pat), ctable(fmt), opts, cdefs(defs), fuel, cjson(inst)))


def k7_eval(pairs, opts="draft07", tag="k7", build=True, py_opts=None, why=False):
    """Evaluate both oracles.  Returns one dict per pair:
         coq:   "true" | "false" | "undef" | "unsupported"
         py:    True | False | None (None: see py_error)
         py_error: None | text   (schema-invalid, RecursionError, unresolvable ref, ...)
         status: "agree" | "disagree" | "coq-undef" | "py-error" | "unsupported" | "py-quirk"
       "py-quirk": python disagrees, but agrees once its binary64 `multipleOf`
       division and its sort-based `uniqueItems` are replaced by exact ones (the
       two documented python-jsonschema quirks, notes/Valid.md); then r["py"] is
       the repaired verdict and r["py_raw"] the original one.
    """
    sys.path.insert(0, HERE)
    import vlib
    from tocoq import Unsupported
    if build:
        ok, log = vlib.coq_make(["theories/Spec/Valid.vo"])
        if not ok:
            raise RuntimeError("cannot build Spec/Valid.vo:\n" + log[-3000:])
    # the same reading applies to numbers inside the schema (enum/const members, bounds)
    pairs = [(norm_instance(d or {}), norm_instance(s), norm_instance(v)) for d, s, v in pairs]
    orc = run_oracle([{"defs": d, "schema": s, "instance": v, "opts": py_opts or opts, "why": why} for d, s, v in pairs])
    exprs, where = [], []
    res = []
    for i, ((d, s, v), o) in enumerate(zip(pairs, orc)):
        r = {"coq": None, "py": o["py"], "py_error": o["error"], "status": None, "why": o.get("why", [])}
        res.append(r)
        if o["error"] and o["error"].startswith("pattern:"):
            r["coq"], r["status"] = "unsupported", "py-error"
            continue
        try:
            exprs.append(coq_expr(d, s, v, o["pat"], o["fmt"], opts))
            where.append(i)
        except (Unsupported, KeyError, TypeError) as e:
            r["coq"], r["status"] = "unsupported", "unsupported"
            r["unsupported"] = str(e)
    outs = vlib.coq_eval_strings(tag, K7_HEADER, exprs, shard=max(25, min(400, len(exprs) // (vlib.NCPU or 1) + 1))) if exprs else []
    for i, c in zip(where, outs):
        r = res[i]
        r["coq"] = c
        if r["py"] is None:
            r["status"] = "py-error"
        elif c == "undef":
            r["status"] = "coq-undef"
        elif (c == "true") == r["py"]:
            r["status"] = "agree"
        else:
            r["status"] = "disagree"
    dis = [i for i in where if res[i]["status"] == "disagree"]
    if dis:
        again = run_oracle([{"defs": pairs[i][0], "schema": pairs[i][1], "instance": pairs[i][2],
                             "opts": (py_opts or opts) + "+exact"} for i in dis])
        for i, o in zip(dis, again):
            if o["py"] is not None and (res[i]["coq"] == "true") == o["py"]:
                res[i]["py_raw"], res[i]["py"], res[i]["status"] = res[i]["py"], o["py"], "py-quirk"
    return res


def k7_check(ctx, pairs, opts="draft07", tag="k7"):
    """Returns the list of disagreements (bool against bool, or model undefined
    where python has a verdict).  With a Ctx, also records coverage."""
    res = k7_eval(pairs, opts=opts, tag=tag)
    bad = []
    count = {}
    for i, (r, (d, s, v)) in enumerate(zip(res, pairs)):
        count[r["status"]] = count.get(r["status"], 0) + 1
        if r["status"] in ("disagree", "coq-undef"):
            bad.append({"index": i, "defs": d, "schema": s, "instance": v, "coq": r["coq"], "py": r["py"]})
    if ctx is not None:
        cov = ctx.coverage.setdefault("k7", {"pairs": 0, "status": {}, "spec_oracle_disagreements": 0})
        cov["pairs"] += len(pairs)
        for k, n in count.items():
            cov["status"][k] = cov["status"].get(k, 0) + n
        cov["spec_oracle_disagreements"] += len(bad)
        ctx.log("K7: %d pairs %s" % (len(pairs), count))
    return bad


# ======================================================================== generator (self test)
ALPHA = ["a", "b", "z", "0", "7", "-", " ", "é", "日", "\U0001F600", "́"]
PATTERNS = ["^a+$", "b", "^[0-9]{2}$", "é", "^.{2}$", "^$", "a|7"]
FMT_SAMPLES = {
    "uuid": ["123e4567-e89b-12d3-a456-426614174000", "123e4567e89b12d3a456426614174000", "not-a-uuid", ""],
    "date": ["2024-02-29", "2023-02-29", "2024-1-01", "x"],
    "date-time": ["2024-02-29T12:00:00Z", "2024-02-29T12:00:00.5+01:00", "2024-02-29 12:00:00", "2024-02-29"],
    "ip": ["127.0.0.1", "::1", "256.0.0.1", "nope"],
    "ipv4": ["10.0.0.255", "1.2.3", "::1"],
    "ipv6": ["::1", "fe80::1", "1.2.3.4", ":::"],
    "email": ["a@b.c", "nope"],              # not asserted: annotation
    "hostname": ["x", "-"],
}
KEYS = ["a", "b", "c", "é", "d-e"]
TYPES = ["null", "boolean", "integer", "number", "string", "array", "object"]


class Gen:
    def __init__(self, rng):
        self.r = rng
        self.defnames = []
        self.defs = {}

    # ---- values
    def rstr(self, n=None):
        r = self.r
        if n is None:
            n = r.choice([0, 1, 1, 2, 2, 3, 4, 6])
        return "".join(r.choice(ALPHA) for _ in range(n))

    def rnum(self):
        r = self.r
        k = r.random()
        if k < 0.35:
            return r.randint(-6, 12)
        if k < 0.5:
            return float(r.randint(-6, 12))
        if k < 0.65:
            return r.randint(-12, 24) / 2
        if k < 0.72:
            return r.choice([0.1, 0.3, -0.25, 2.75, 1e300, -1e300, 1e-7])
        lim = r.choice(list(INT_FORMATS.values()))
        z = r.choice(lim) + r.choice([-1, 0, 0, 1])
        if r.random() < 0.25 and abs(z) < 2**53:
            return float(z)
        return z

    def rval(self, d=2):
        r = self.r
        k = r.random()
        if d <= 0 or k < 0.6:
            return r.choice([None, True, False, self.rnum(), self.rnum(), self.rstr(), self.rstr(), 0, 1, 1.0, 0.0, ""])
        if k < 0.8:
            return [self.rval(d - 1) for _ in range(r.randint(0, 3))]
        return {r.choice(KEYS): self.rval(d - 1) for _ in range(r.randint(0, 3))}

    # ---- schemas
    def bound(self):
        r = self.r
        k = r.random()
        if k < 0.5:
            return r.randint(-5, 10)
        if k < 0.7:
            return r.randint(-10, 20) / 2
        lim = r.choice(list(INT_FORMATS.values()))
        return r.choice(lim) + r.choice([-1, 0, 1])

    def ref(self, descending, frm):
        """a reference that keeps the document productive: in a position that
        does not descend into the instance only later definitions may be named"""
        r = self.r
        cands = []
        for i, n in enumerate(self.defnames):
            if descending or i > frm:
                cands.append("#/definitions/" + n)
        if descending:
            cands.append("#")
        if not cands:
            return None
        return r.choice(cands)

    def schema(self, d, frm, descending=False):
        """frm: index of the definition being generated (-1 for the root)."""
        r = self.r
        k = r.random()
        if k < 0.06:
            return r.random() < 0.7
        if k < 0.2 and self.defnames:
            rf = self.ref(descending, frm)
            if rf is not None:
                s = {"$ref": rf}
                if r.random() < 0.2:      # siblings of $ref: ignored in draft-07
                    s["type"] = r.choice(TYPES)
                    s["required"] = ["a"]
                return s
        s = {}
        if d <= 0:
            kinds = ["scalar"]
        else:
            kinds = ["scalar", "scalar", "string", "number", "array", "object", "object", "comb", "mixed"]
        kind = r.choice(kinds)
        if kind == "scalar":
            kind = r.choice(["string", "number", "enum", "type", "const", "empty"])
        if kind in ("string", "mixed"):
            if r.random() < 0.8:
                s["type"] = "string"
            if r.random() < 0.6:
                s["minLength"] = r.randint(0, 3)
            if r.random() < 0.6:
                s["maxLength"] = s.get("minLength", 0) + r.randint(0, 3) if r.random() < 0.9 else 0
            if r.random() < 0.3:
                s["pattern"] = r.choice(PATTERNS)
            if r.random() < 0.3:
                s["format"] = r.choice(list(FMT_SAMPLES))
        if kind in ("number", "mixed"):
            if r.random() < 0.85:
                s["type"] = r.choice(["integer", "integer", "number"])
            if r.random() < 0.4:
                s["format"] = r.choice(list(INT_FORMATS) + ["float", "double"])
            if r.random() < 0.45:
                s[r.choice(["minimum", "exclusiveMinimum"])] = self.bound()
            if r.random() < 0.45:
                s[r.choice(["maximum", "exclusiveMaximum"])] = self.bound()
            if r.random() < 0.3:
                s["multipleOf"] = r.choice([1, 2, 3, 5, 10, 0.5, 0.25, 1.5])
        if kind == "enum":
            s["enum"] = [self.rval(1) for _ in range(r.randint(1, 4))]
            if r.random() < 0.3:
                s["type"] = r.choice(TYPES)
        if kind == "const":
            s["const"] = self.rval(1)
        if kind == "type":
            s["type"] = r.choice(TYPES) if r.random() < 0.6 else r.sample(TYPES, r.randint(1, 3))
        if kind in ("array", "mixed"):
            if r.random() < 0.85:
                s["type"] = "array"
            k2 = r.random()
            if k2 < 0.45:
                s["items"] = self.schema(d - 1, frm, True)
            elif k2 < 0.8:
                s["items"] = [self.schema(d - 1, frm, True) for _ in range(r.randint(0, 3))]
                if r.random() < 0.6:
                    s["additionalItems"] = self.schema(d - 1, frm, True) if r.random() < 0.5 else False
            elif k2 < 0.85:
                s["additionalItems"] = False       # ignored: no tuple
            if r.random() < 0.4:
                s["minItems"] = r.randint(0, 3)
            if r.random() < 0.4:
                s["maxItems"] = s.get("minItems", 0) + r.randint(0, 2)
            if r.random() < 0.35:
                s["uniqueItems"] = r.random() < 0.9
        if kind in ("object", "mixed"):
            if r.random() < 0.85:
                s["type"] = "object"
            ks = r.sample(KEYS, r.randint(0, 3))
            if ks or r.random() < 0.5:
                s["properties"] = {k_: self.schema(d - 1, frm, True) for k_ in ks}
            if r.random() < 0.6:
                s["required"] = sorted(set(r.sample(KEYS, r.randint(0, 2)) + [k_ for k_ in ks if r.random() < 0.5]))
            k2 = r.random()
            if k2 < 0.3:
                s["additionalProperties"] = False
            elif k2 < 0.55:
                s["additionalProperties"] = self.schema(d - 1, frm, True)
            if r.random() < 0.25:
                s["minProperties"] = r.randint(0, 2)
            if r.random() < 0.25:
                s["maxProperties"] = s.get("minProperties", 0) + r.randint(0, 2)
        if kind == "comb" or (d > 0 and r.random() < 0.12):
            for kw in r.sample(["allOf", "anyOf", "oneOf", "not"], r.choice([1, 1, 1, 2])):
                if kw == "not":
                    s["not"] = self.schema(d - 1, frm, descending)
                else:
                    s[kw] = [self.schema(d - 1, frm, descending) for _ in range(r.randint(1, 3))]
        if r.random() < 0.1:
            s["title"] = "t"
        if r.random() < 0.1:
            s["default"] = self.rval(1)
        return s

    def document(self):
        r = self.r
        nd = r.choice([0, 0, 1, 2, 3])
        self.defnames = ["D%d" % i for i in range(nd)]
        self.defs = {}
        for i, n in enumerate(self.defnames):
            self.defs[n] = self.schema(r.choice([1, 2, 2]), i)
        root = self.schema(r.choice([1, 2, 3]), -1)
        return self.defs, root

    # ---- schema directed instances
    def resolve(self, s, root):
        seen = 0
        while isinstance(s, dict) and "$ref" in s and seen < 10:
            rf = s["$ref"]
            s = root if rf == "#" else self.defs.get(rf.split("/")[-1], True)
            seen += 1
        return s

    def inst(self, s, root, d=4):
        """an instance that is probably valid under s"""
        r = self.r
        s = self.resolve(s, root)
        if not isinstance(s, dict) or d <= 0:
            return self.rval(1)
        if "const" in s:
            return self.twist(s["const"])
        if "enum" in s and s["enum"]:
            return self.twist(r.choice(s["enum"]))
        for kw in ("allOf", "anyOf", "oneOf"):
            if kw in s and s[kw] and r.random() < 0.7:
                br = self.resolve(r.choice(s[kw]), root)
                if isinstance(br, dict):
                    m = dict(br)
                    for k_, v_ in s.items():
                        if k_ not in ("allOf", "anyOf", "oneOf"):
                            m.setdefault(k_, v_)
                    if kw == "allOf":
                        for other in s[kw]:
                            other = self.resolve(other, root)
                            if isinstance(other, dict):
                                for k_, v_ in other.items():
                                    if k_ == "properties" and isinstance(m.get(k_), dict):
                                        m[k_] = dict(v_, **m[k_])
                                    elif k_ == "required" and isinstance(m.get(k_), list):
                                        m[k_] = sorted(set(m[k_]) | set(v_))
                                    else:
                                        m.setdefault(k_, v_)
                    return self.inst(m, root, d - 1)
        ty = s.get("type")
        if isinstance(ty, list):
            ty = r.choice(ty) if ty else None
        if ty is None:
            if any(k_ in s for k_ in ("properties", "required", "additionalProperties", "minProperties")):
                ty = "object"
            elif any(k_ in s for k_ in ("items", "minItems", "uniqueItems", "maxItems")):
                ty = "array"
            elif any(k_ in s for k_ in ("minLength", "maxLength", "pattern")):
                ty = "string"
            elif any(k_ in s for k_ in ("minimum", "maximum", "exclusiveMinimum", "exclusiveMaximum", "multipleOf")):
                ty = "number"
            elif s.get("format") in INT_FORMATS:
                ty = "integer"
            elif s.get("format") in FMT_SAMPLES:
                ty = "string"
            else:
                return self.rval(1)
        if ty == "null":
            return None
        if ty == "boolean":
            return r.random() < 0.5
        if ty in ("integer", "number"):
            return self.num_inst(s, ty)
        if ty == "string":
            f = s.get("format")
            if f in FMT_SAMPLES and r.random() < 0.8:
                return r.choice(FMT_SAMPLES[f])
            lo = s.get("minLength", 0)
            hi = s.get("maxLength", lo + 3)
            n = r.choice([lo, hi, r.randint(min(lo, hi), max(lo, hi)), lo - 1 if lo > 0 else lo, hi + 1])
            p = s.get("pattern")
            if p == "^a+$":
                return "a" * max(n, 0)
            if p == "^[0-9]{2}$":
                return r.choice(["07", "42", "7", "0é"])
            if p in ("b", "é"):
                return self.rstr(max(n - 1, 0)) + p
            return self.rstr(max(n, 0))
        if ty == "array":
            items = s.get("items")
            lo = s.get("minItems", 0)
            hi = s.get("maxItems", lo + 2)
            n = max(0, r.choice([lo, hi, r.randint(min(lo, hi), max(lo, hi)), lo - 1, hi + 1]))
            out = []
            for i in range(n):
                if isinstance(items, list):
                    sub = items[i] if i < len(items) else s.get("additionalItems", True)
                elif items is None:
                    sub = True
                else:
                    sub = items
                out.append(self.inst(sub, root, d - 1))
            if r.random() < 0.25 and out:
                out.append(self.twist(r.choice(out)))       # a duplicate, maybe 1 against 1.0
            return out
        if ty == "object":
            props = s.get("properties", {})
            out = {}
            for k_ in s.get("required", []):
                if r.random() < 0.93:
                    out[k_] = self.inst(props.get(k_, s.get("additionalProperties", True)), root, d - 1)
            for k_, sub in props.items():
                if k_ not in out and r.random() < 0.5:
                    out[k_] = self.inst(sub, root, d - 1)
            ap = s.get("additionalProperties", True)
            extra = [k_ for k_ in KEYS + ["x"] if k_ not in props and k_ not in out]
            if extra and (r.random() < 0.25 or (ap is not False and len(out) < s.get("minProperties", 0))):
                for k_ in r.sample(extra, r.randint(1, min(2, len(extra)))):
                    out[k_] = self.inst(ap, root, d - 1)
            return out
        return self.rval(1)

    def num_inst(self, s, ty):
        r = self.r
        lo = s.get("minimum", s.get("exclusiveMinimum"))
        hi = s.get("maximum", s.get("exclusiveMaximum"))
        f = INT_FORMATS.get(s.get("format"))
        cands = []
        for b in (lo, hi) + (f or ()):
            if b is not None:
                cands += [b, b - 1, b + 1]
        if lo is not None and hi is not None and lo <= hi:
            cands += [lo + (hi - lo) // 2 if isinstance(lo, int) and isinstance(hi, int) else (lo + hi) / 2]
        if not cands:
            cands = [0, 1, -1, 5, 10, 30]
        x = r.choice(cands)
        m = s.get("multipleOf")
        if m and r.random() < 0.7 and abs(x) < 2**40:
            q = int(x // m) * m
            x = q
        if ty == "integer" and isinstance(x, float) and x.is_integer() and r.random() < 0.6:
            x = int(x)
        if ty == "number" and r.random() < 0.2:
            x = x + 0.5
        return self.twist(x)

    def twist(self, v):
        """same value, other spelling (1 <-> 1.0), sometimes"""
        r = self.r
        if isinstance(v, bool) or v is None:
            return v
        if isinstance(v, int) and abs(v) < 2**53 and r.random() < 0.2:
            return float(v)
        if isinstance(v, float) and v.is_integer() and abs(v) < 2**53 and r.random() < 0.3:
            return int(v)
        if isinstance(v, list):
            return [self.twist(x) for x in v]
        if isinstance(v, dict):
            return {k_: self.twist(x) for k_, x in v.items()}
        return v

    def mutate(self, v, d=3):
        r = self.r
        k = r.random()
        if isinstance(v, list) and v and k < 0.5 and d > 0:
            i = r.randrange(len(v))
            w = list(v)
            w[i] = self.mutate(v[i], d - 1)
            return w
        if isinstance(v, dict) and v and k < 0.5 and d > 0:
            kk = r.choice(sorted(v))
            w = dict(v)
            w[kk] = self.mutate(v[kk], d - 1)
            return w
        if isinstance(v, list):
            return r.choice([v + [self.rval(1)], v[:-1], v + v[:1], [self.rval(1)] + v])
        if isinstance(v, dict):
            w = dict(v)
            if w and r.random() < 0.5:
                del w[r.choice(sorted(w))]
            else:
                w[r.choice(KEYS + ["x"])] = self.rval(1)
            return w
        if isinstance(v, bool) or v is None:
            return self.rval(0)
        if isinstance(v, (int, float)):
            return r.choice([v + 1, v - 1, v + 0.5, float(v) if abs(v) < 2**53 else v, -v, self.rval(0)])
        if isinstance(v, str):
            return r.choice([v + r.choice(ALPHA), v[:-1], v[1:], self.rstr(), self.rval(0)])
        return self.rval(0)


# curated cases: (defs, schema, instance, expected model verdict)
CURATED = [
    ({}, {"type": "integer"}, 1.0, "true"),
    ({}, {"type": "integer"}, 1.5, "false"),
    ({}, {"enum": [1]}, 1.0, "true"),
    ({}, {"const": [1, {"a": 2.0}]}, [1.0, {"a": 2}], "true"),
    ({}, {"enum": [[1]]}, [True], "false"),
    ({}, {"uniqueItems": True}, [1, 1.0], "false"),
    ({}, {"uniqueItems": True}, [1, True], "true"),
    ({}, {"uniqueItems": True}, [{"a": 1, "b": 2}, {"b": 2.0, "a": 1}], "false"),
    ({}, {"maxLength": 1}, "é", "true"),
    ({}, {"maxLength": 1}, "\U0001F600", "true"),
    ({}, {"minLength": 2}, "\U0001F600", "false"),
    ({}, {"maxLength": 1}, 12345, "true"),
    ({}, {"format": "uint8"}, 256, "false"),
    ({}, {"format": "uint8"}, 255.0, "true"),
    ({}, {"format": "uint8"}, 256.0, "false"),
    ({}, {"format": "uint8"}, 300.5, "true"),
    ({}, {"format": "uint8"}, "300", "true"),
    ({}, {"format": "int64"}, 2**63, "false"),
    ({}, {"format": "uint64"}, 2**64 - 1, "true"),
    ({}, {"format": "uint64"}, 2**64, "false"),
    ({}, {"format": "ipv4"}, "1.2.3", "false"),
    ({}, {"format": "ipv4"}, 7, "true"),
    ({}, {"format": "email"}, "nope", "true"),
    ({}, {"multipleOf": 0.5}, 1.25, "false"),
    ({}, {"multipleOf": 3}, 9.0, "true"),
    ({}, {"exclusiveMinimum": 0}, 0.0, "false"),
    ({}, {"items": [{"type": "integer"}], "additionalItems": False}, [1, 2], "false"),
    ({}, {"items": {"type": "integer"}, "additionalItems": False}, [1, 2], "true"),
    ({}, {"additionalItems": False}, [1, 2], "true"),
    ({}, {"properties": {"a": False}}, {"b": 1}, "true"),
    ({}, {"properties": {"a": {}}, "additionalProperties": False}, {"a": 1, "b": 1}, "false"),
    ({}, {"required": ["a"]}, [], "true"),
    ({}, {"oneOf": [{"type": "integer"}, {"type": "number"}]}, 1, "false"),
    ({}, {"oneOf": [{"type": "integer"}, {"type": "number"}]}, 1.5, "true"),
    ({}, {"not": {"type": "string"}}, 1, "true"),
    ({"A": {"type": "string"}}, {"$ref": "#/definitions/A", "type": "integer"}, "s", "true"),
    ({}, {"properties": {"next": {"$ref": "#"}}, "required": ["v"]}, {"v": 1, "next": {"v": 2, "next": {}}}, "false"),
    ({}, {"properties": {"next": {"$ref": "#"}}, "required": ["v"]}, {"v": 1, "next": {"v": 2, "next": {"v": 3}}}, "true"),
    ({"A": {"anyOf": [{"type": "null"}, {"type": "array", "items": {"$ref": "#/definitions/A"}}]}},
     {"$ref": "#/definitions/A"}, [[], [None, [None]]], "true"),
    ({"A": {"anyOf": [{"type": "null"}, {"type": "array", "items": {"$ref": "#/definitions/A"}}]}},
     {"not": {"$ref": "#/definitions/A"}}, [[], [None, [1]]], "true"),
    # not definite: unproductive cycle / dangling reference (python: error)
    ({"A": {"$ref": "#/definitions/A"}}, {"not": {"$ref": "#/definitions/A"}}, 1, "undef"),
    ({}, {"not": {"$ref": "#/definitions/Nope"}}, 1, "undef"),
    # integer literals outside i64/u64 are doubles on both sides, in the schema too
    ({}, {"enum": [-9223372036854775809]}, -9223372036854775809, "true"),
    ({}, {"const": 2**64}, 1.8446744073709552e19, "true"),
    ({}, True, {"x": [1]}, "true"),
    ({}, False, None, "false"),
]

# documented python-jsonschema quirks: model verdict, python verdict (notes/Valid.md)
QUIRKS = [
    ({}, {"multipleOf": 0.1}, 1, "false", True,
     "python divides in binary64: 1/0.1 rounds to 10.0; exactly, the double 0.1 does not divide 1"),
    ({}, {"uniqueItems": True}, [[1], [True], [1.0]], "false", True,
     "python's uniq() sorts (True == 1 inside lists) and compares neighbours only: [1] and [1.0] are not adjacent"),
]


def selftest(n, seed, verbose=False, py_opts=None, opts="draft07"):
    t0 = time.time()
    rng = random.Random(seed)
    g = Gen(rng)
    pairs, expect = [], []
    for d, s, v, e in CURATED:
        pairs.append((d, s, v))
        expect.append(e)
    nc = len(pairs)
    for d, s, v, e, p, why in QUIRKS:
        pairs.append((d, s, v))
    nq = len(QUIRKS)
    while len(pairs) < nc + nq + n:
        defs, root = g.document()
        for _ in range(rng.choice([2, 3, 4])):
            k = rng.random()
            if k < 0.75:
                v = g.inst(root, root)
                if rng.random() < 0.4:
                    v = g.mutate(v)
            else:
                v = g.rval(2)
            pairs.append((defs, root, v))
    pairs = pairs[:nc + nq + n]
    res = k7_eval(pairs, opts=opts, tag="k7-selftest-%d" % seed, py_opts=py_opts, why=True)
    bad = []
    for i in range(nc):
        if res[i]["coq"] != expect[i] and opts == "draft07":
            bad.append(("curated: model verdict %s, expected %s" % (res[i]["coq"], expect[i]), pairs[i], res[i]))
        if res[i]["status"] in ("disagree", "coq-undef"):
            bad.append(("curated: oracle disagreement", pairs[i], res[i]))
    for j, q in enumerate(QUIRKS):
        r = res[nc + j]
        if (r["coq"] != q[3] or r.get("py_raw") != q[4] or r["status"] != "py-quirk") and py_opts is None:
            bad.append(("quirk no longer reproduces (model %s, python %s, %s)" % (r["coq"], r.get("py_raw"), r["status"]),
                        pairs[nc + j], r))
    stat = {}
    verd = {"true": 0, "false": 0}
    kw = {}
    for i in range(nc + nq, len(pairs)):
        r = res[i]
        stat[r["status"]] = stat.get(r["status"], 0) + 1
        if r["status"] == "agree":
            verd[r["coq"]] += 1
            for k in keywords_of(pairs[i][0], pairs[i][1]):
                c = kw.setdefault(k, [0, 0])
                c[0 if r["coq"] == "true" else 1] += 1
        if r["status"] in ("disagree", "coq-undef"):
            bad.append((r["status"], pairs[i], r))
    total = len(pairs) - nc - nq
    judged = stat.get("agree", 0) + stat.get("disagree", 0) + stat.get("coq-undef", 0)
    print("K7 selftest seed=%d: %d curated + %d quirks + %d random pairs in %.1fs" % (seed, nc, nq, total, time.time() - t0))
    print("  random: status %s; agreement %d/%d; verdicts on agreed %s" % (stat, stat.get("agree", 0), judged, verd))
    print("  keyword coverage (agreed valid / agreed invalid): " +
          ", ".join("%s %d/%d" % (k, v[0], v[1]) for k, v in sorted(kw.items())))
    whys = {}
    for r in res[nc + nq:]:
        for w in r["why"]:
            whys[w] = whys.get(w, 0) + 1
    print("  failing keywords reported by python on invalid instances: " +
          ", ".join("%s %d" % kv for kv in sorted(whys.items())))
    if verbose:
        errs = {}
        for r in res:
            if r["py_error"]:
                e = r["py_error"].split(":")[0]
                errs[e] = errs.get(e, 0) + 1
        print("  python errors (cases skipped):", errs)
    for why, p, r in bad[:20]:
        print("  DISAGREEMENT [%s]\n    defs=%s\n    schema=%s\n    instance=%s\n    coq=%s py=%s err=%s" % (
            why, json.dumps(p[0]), json.dumps(p[1]), json.dumps(p[2]), r["coq"], r["py"], r["py_error"]))
    print("  disagreements: %d" % len(bad))
    return bad


def keywords_of(defs, schema):
    out = set()

    def walk(s):
        if isinstance(s, dict):
            for k, v in s.items():
                out.add(k)
                if k in ("items",):
                    out.add("items:tuple" if isinstance(v, list) else "items:single")
                if k in ("properties",):
                    for x in v.values():
                        walk(x)
                elif k in ("items", "additionalItems", "additionalProperties", "not"):
                    for x in (v if isinstance(v, list) else [v]):
                        walk(x)
                elif k in ("allOf", "anyOf", "oneOf"):
                    for x in v:
                        walk(x)
                elif k == "$ref":
                    out.add("$ref:#" if v == "#" else "$ref:def")
        elif isinstance(s, bool):
            out.add("bool-schema")
    walk(schema)
    for x in defs.values():
        walk(x)
    return out


def main(argv):
    if "--oracle" in argv:
        return oracle_main()
    if "--selftest" in argv:
        n = int(argv[argv.index("--n") + 1]) if "--n" in argv else 400
        seeds = [int(argv[argv.index("--seed") + 1])] if "--seed" in argv else [1]
        if "--seeds" in argv:
            seeds = [int(x) for x in argv[argv.index("--seeds") + 1].split(",")]
        nbad = 0
        for s in seeds:
            # --mutate serde_ints | mut-no-int-formats: run the ORACLE with a different
            # reading than the model; the self test must then report disagreements
            mut = argv[argv.index("--mutate") + 1] if "--mutate" in argv else None
            opts = argv[argv.index("--opts") + 1] if "--opts" in argv else "draft07"
            nbad += len(selftest(n, s, verbose="-v" in argv, py_opts=mut, opts=opts))
        return 1 if nbad else 0
    print(__doc__)
    return 2


if __name__ == "__main__":
    sys.exit(main(sys.argv[1:]))
