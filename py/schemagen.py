"""Seeded generators: schema documents of the faithful fragment, schema-directed
instances, boundary variants and the eight single-constraint mutators (C05).

Everything is derived from one `random.Random`; every document carries the
construct tags it uses so evidence can print the distribution.
"""
import copy
import json
import random

NAMES = ["alpha", "beta", "gamma", "delta", "fooBar", "baz_qux", "type", "x-y", "Id", "value", "n1", "kind"]
STRS = ["", "a", "ab", "abc", "hello", "é", "日本", "a-b", "Hello World", "x" * 9, "ß", "0", "null"]
PATTERNS = ["^a", "b$", "^[a-z]+$", "^\\d{2,3}$", "é", "^.{2,4}$"]
PAT_SAMPLES = {
    "^a": (["a", "ab", "a-b"], ["b", "", "ba"]),
    "b$": (["b", "ab", "a-b"], ["a", "", "ba"]),
    "^[a-z]+$": (["a", "hello", "abc"], ["", "A", "a1", "é"]),
    "^\\d{2,3}$": (["12", "123"], ["1", "1234", "ab", ""]),
    "é": (["é", "aéb"], ["e", "", "abc"]),
    "^.{2,4}$": (["ab", "日本", "abcd", "éé"], ["a", "", "abcde", "é"]),
    "^[a-z]*$": (["", "a", "hello"], ["A", "a1", "é"]),
    "^x?$": (["", "x"], ["xx", "y"]),
    "^[a-z.]+$": (["a.b", "host.example", "abc"], ["", "A", "a_b"]),
}
FORMAT_SAMPLES = {
    "uuid": (["123e4567-e89b-12d3-a456-426614174000"], ["not-a-uuid", "", "123e4567"]),
    "date": (["2024-02-29", "1999-12-31"], ["2024-13-01", "yesterday", ""]),
    "date-time": (["2024-02-29T12:30:00Z", "1999-12-31T23:59:59Z"], ["2024-02-29", "noon", ""]),
    "ipv4": (["127.0.0.1", "10.0.0.255"], ["256.1.1.1", "::1", "abc"]),
    "ipv6": (["::1", "fe80::1"], ["127.0.0.1", "gggg::1", ""]),
    "ip": (["127.0.0.1", "::1"], ["300.1.1.1", "nope", ""]),
}
INT_FORMATS = {
    "int8": (-128, 127), "uint8": (0, 255), "int16": (-32768, 32767), "uint16": (0, 65535),
    "int32": (-2**31, 2**31 - 1), "uint32": (0, 2**32 - 1), "int64": (-2**63, 2**63 - 1), "uint64": (0, 2**64 - 1),
}

ALL_FEATURES = {
    "bool", "int", "int_format", "int_bounds", "number", "string", "str_len", "str_pattern", "str_format", "null",
    "str_enum", "int_enum", "object", "closed_object", "addl_schema", "map", "array", "set", "tuple", "fixed_array",
    "nullable_type", "nullable_oneof", "nullable_anyof_ref", "ref", "recursion",
    "oneof_external", "oneof_internal", "oneof_adjacent", "oneof_untagged", "anyof_exclusive", "allof_objects",
    "rename", "defaults", "oneof_optional_const", "mixed_closedness", "multi_tag_values", "boundary",
}


class Gen:
    def __init__(self, seed, features=None, ndefs=(2, 5), max_depth=3):
        self.rnd = random.Random(seed)
        self.features = set(features) if features is not None else set(ALL_FEATURES) - {"defaults"}
        self.ndefs = ndefs
        self.max_depth = max_depth
        self.tags = []

    # ------------------------------------------------------------ schemas
    def has(self, f):
        return f in self.features

    def pick(self, xs):
        return xs[self.rnd.randrange(len(xs))]

    def tag(self, t):
        self.tags.append(t)

    BOUNDARY_SCALARS = [
        {"type": "string", "minLength": 0}, {"type": "string", "maxLength": 0},
        {"type": "string", "minLength": 0, "maxLength": 0}, {"type": "string", "minLength": 2, "maxLength": 2},
        {"type": "string", "minLength": 0, "pattern": "^[a-z]*$"}, {"type": "string", "maxLength": 0, "pattern": "^x?$"},
        # (string constraints under an UNRECOGNISED format are dropped by typify: such schemas are not "built from
        #  enforced constructs" and stay out of this shared stream; C17 / C10 cover the format table)
        {"type": "string", "format": "ipv4-network"}, {"type": "string", "format": "hostname"},
        {"type": "string", "const": "only"}, {"type": "string", "enum": ["solo"]},
        {"type": "integer", "minimum": 5, "maximum": 5}, {"type": "integer", "format": "uint8", "minimum": 0, "maximum": 255},
        {"type": "integer", "format": "uint8", "minimum": 1}, {"type": "integer", "format": "int8", "minimum": -128, "maximum": 127},
        {"type": "integer", "minimum": 0, "exclusiveMinimum": -1, "format": "uint32"},
        {"type": "integer", "minimum": 1, "maximum": 4294967295}, {"type": "integer", "minimum": 0, "maximum": 4294967296},
        {"type": "integer", "multipleOf": 5}, {"type": "integer", "minimum": 0, "maximum": 100, "multipleOf": 10},
        {"type": "integer", "const": 7}, {"type": "integer", "enum": [0]},
        {"type": "number", "minimum": 0}, {"type": "number", "format": "float"}, {"type": "number", "format": "double", "maximum": 1.5},
        {"type": "boolean", "const": True}, {"type": "boolean", "enum": [False]},
    ]

    def scalar(self):
        r = self.rnd
        if self.has("boundary") and r.random() < 0.12:
            self.tag("boundary")
            return copy.deepcopy(self.pick(self.BOUNDARY_SCALARS))
        kinds = [k for k in ("bool", "int", "number", "string", "null") if self.has(k)]
        k = self.pick(kinds or ["string"])
        if k == "bool":
            self.tag("bool")
            return {"type": "boolean"}
        if k == "null":
            self.tag("null")
            return {"type": "null"}
        if k == "number":
            self.tag("number")
            return {"type": "number"}
        if k == "int":
            s = {"type": "integer"}
            x = r.random()
            if x < 0.3 and self.has("int_format"):
                s["format"] = self.pick(list(INT_FORMATS))
                self.tag("int_format")
            elif x < 0.6 and self.has("int_bounds"):
                lo = self.pick([0, 1, -5, -128, 0, 10])
                hi = lo + self.pick([1, 5, 100, 255, 256, 1000, 65535, 70000])
                y = r.random()
                if y < 0.5:
                    s["minimum"], s["maximum"] = lo, hi
                elif y < 0.65:                       # exclusive forms of the same range
                    s["exclusiveMinimum"], s["exclusiveMaximum"] = lo - 1, hi + 1
                elif y < 0.8:                        # inclusive bound binding, exclusive bound slack
                    s["minimum"], s["exclusiveMinimum"] = lo, lo - self.pick([1, 2, 7])
                    s["maximum"] = hi
                elif y < 0.9:
                    s["minimum"] = lo
                    s["maximum"], s["exclusiveMaximum"] = hi, hi + self.pick([1, 3, 744])
                else:                                # exclusive bound binding
                    s["minimum"], s["exclusiveMinimum"] = lo - 3, lo - 1
                    s["maximum"], s["exclusiveMaximum"] = hi + 9, hi + 1
                self.tag("int_bounds")
            else:
                self.tag("int")
            return s
        s = {"type": "string"}
        x = r.random()
        if x < 0.25 and self.has("str_len"):
            lo = r.randrange(0, 3)
            if r.random() < 0.7:
                s["minLength"] = lo
            if r.random() < 0.7:
                s["maxLength"] = lo + r.randrange(0, 4)
            if len(s) == 1:
                s["maxLength"] = 3
            self.tag("str_len")
        elif x < 0.4 and self.has("str_pattern"):
            s["pattern"] = self.pick(PATTERNS)
            self.tag("str_pattern")
        elif x < 0.55 and self.has("str_format"):
            s["format"] = self.pick(list(FORMAT_SAMPLES))
            self.tag("str_format")
        else:
            self.tag("string")
        return s

    def length_keywords(self, a):
        """minItems / maxItems on a variable-length array (never equal: that is the fixed-array form)"""
        x = self.rnd.random()
        if self.has("boundary") and x > 0.9:
            self.tag("boundary")
            a.update(self.pick([{"minItems": 0}, {"maxItems": 0}, {"minItems": 0, "maxItems": 1}, {"uniqueItems": False},
                                {"minItems": 3}, {"maxItems": 1}]))
            return
        if x < 0.2:
            a["minItems"] = self.pick([1, 2])
        elif x < 0.3:
            a["maxItems"] = self.pick([2, 3, 5])
        elif x < 0.4:
            a["minItems"], a["maxItems"] = 1, self.pick([2, 4])

    def scalar_nonnull(self):
        s = self.scalar()
        while s.get("type") == "null":
            s = self.scalar()
        return s

    def str_enum(self):
        self.tag("str_enum")
        pool = ["red", "green", "blue", "Dark-Blue", "dark_blue2", "a b", "é", "UPPER", "x", "type"]
        n = self.rnd.randrange(1, 5)
        vals = self.rnd.sample(pool, n)
        return {"type": "string", "enum": vals}

    def int_enum(self):
        self.tag("int_enum")
        vals = self.rnd.sample([0, 1, 2, 3, 5, 8, -1, 100], self.rnd.randrange(1, 4))
        return {"type": "integer", "enum": vals}

    def ref(self, names):
        self.tag("ref")
        return {"$ref": "#/definitions/" + self.pick(names)}

    def leafish(self, names, depth):
        """a schema usable as property / item / map value"""
        r = self.rnd.random()
        if names and self.has("ref") and r < 0.3:
            return self.ref(names)
        if r < 0.45 or depth >= self.max_depth:
            x = self.rnd.random()
            if x < 0.15 and self.has("str_enum"):
                return self.str_enum()
            if x < 0.22 and self.has("int_enum"):
                return self.int_enum()
            return self.scalar()
        return self.compound(names, depth + 1)

    def obj(self, names, depth, closed=None, nprops=None, extra_props=None):
        r = self.rnd
        n = nprops if nprops is not None else r.randrange(1, 5)
        pool = NAMES if self.has("rename") else [x for x in NAMES if x.islower() and x.isalpha() and x != "type"]
        pn = r.sample(pool, min(n, len(pool)))
        props = {}
        for p in pn:
            props[p] = self.leafish(names, depth)
        if extra_props:
            props.update(extra_props)
        req = sorted(p for p in props if r.random() < 0.5 or (extra_props and p in extra_props))
        s = {"type": "object", "properties": props}
        if req:
            s["required"] = req
        x = r.random()
        if closed is True or (closed is None and x < 0.3 and self.has("closed_object")):
            s["additionalProperties"] = False
            self.tag("closed_object")
        elif closed is None and x < 0.4:
            s["additionalProperties"] = True
            self.tag("object")
        elif closed is None and x < 0.5 and self.has("addl_schema"):
            s["additionalProperties"] = self.scalar()
            self.tag("addl_schema")
        else:
            self.tag("object")
        if self.has("defaults"):
            for p in props:
                if p not in req and r.random() < 0.4:
                    d = self.default_for(props[p])
                    if d is not None:
                        props[p] = dict(props[p], default=d[0])
                        self.tag("defaults")
        return s

    def default_for(self, s):
        t = s.get("type")
        if "enum" in s:
            return (s["enum"][0],)
        if t == "boolean":
            return (True,)
        if t == "integer":
            # a VALID default: effective bounds from the inclusive and exclusive forms and the format, multipleOf
            lo, hi = -10 ** 6, 10 ** 6
            if s.get("format") in INT_FORMATS:
                lo, hi = INT_FORMATS[s["format"]]
            if "minimum" in s:
                lo = max(lo, s["minimum"])
            if "maximum" in s:
                hi = min(hi, s["maximum"])
            if "exclusiveMinimum" in s:
                lo = max(lo, s["exclusiveMinimum"] + 1)
            if "exclusiveMaximum" in s:
                hi = min(hi, s["exclusiveMaximum"] - 1)
            if "const" in s:
                return (s["const"],)
            m = s.get("multipleOf")
            for c in (1, lo, hi, 0):
                if lo <= c <= hi and float(c).is_integer() and (not m or c % m == 0):
                    return (int(c),)
            if m and lo <= -(-lo // m) * m <= hi:
                return (int(-(-lo // m) * m),)
            return None
        if t == "string" and len(s) == 1:
            return ("dflt",)
        if t == "array" and isinstance(s.get("items"), dict) and "minItems" not in s:
            it = s["items"]
            if self.rnd.random() < 0.6 and "maxItems" not in s and not s.get("uniqueItems"):
                d = self.default_for(it) if isinstance(it, dict) and "$ref" not in it else None
                if d is not None and not isinstance(d[0], (list, dict)):
                    return ([d[0], d[0]],)
            return ([],)
        if t == "object" and "properties" not in s and isinstance(s.get("additionalProperties"), dict):
            # map-typed member: empty (the intrinsic default) or a non-empty default of its own
            av = s["additionalProperties"]
            if self.rnd.random() < 0.7 and "$ref" not in av:
                d = self.default_for(av)
                if d is not None and not isinstance(d[0], (list, dict)):
                    return ({"env": d[0], "tier": d[0]},)
            return ({},)
        return None

    def compound(self, names, depth):
        r = self.rnd
        opts = []
        for f, w in (("object", 4), ("map", 1), ("array", 2), ("set", 1), ("tuple", 1), ("fixed_array", 1),
                     ("nullable_type", 1), ("nullable_oneof", 1)):
            if self.has(f):
                opts += [f] * w
        k = self.pick(opts or ["object"])
        if k == "object":
            return self.obj(names, depth)
        if k == "map":
            self.tag("map")
            return {"type": "object", "additionalProperties": self.leafish(names, depth)}
        if k == "array":
            self.tag("array")
            a = {"type": "array", "items": self.leafish(names, depth)}
            self.length_keywords(a)
            return a
        if k == "set":
            self.tag("set")
            a = {"type": "array", "items": self.pick([{"type": "string"}, {"type": "integer"}]), "uniqueItems": True}
            self.length_keywords(a)
            return a
        if k == "tuple":
            self.tag("tuple")
            n = r.randrange(2, 4)
            return {"type": "array", "items": [self.leafish(names, depth + 1) for _ in range(n)],
                    "minItems": n, "maxItems": n}
        if k == "fixed_array":
            self.tag("fixed_array")
            n = r.randrange(1, 4)
            return {"type": "array", "items": self.scalar(), "minItems": n, "maxItems": n}
        if k == "nullable_type":
            self.tag("nullable_type")
            s = self.scalar()
            while s.get("type") == "null":
                s = self.scalar()
            s = dict(s)
            s["type"] = [s["type"], "null"]
            return s
        self.tag("nullable_oneof")
        inner = self.leafish(names, depth + 1)
        while inner.get("type") == "null" or isinstance(inner.get("type"), list):
            inner = self.scalar()
        return {"oneOf": [inner, {"type": "null"}]}


    def union(self, names, depth):
        r = self.rnd
        opts = [f for f in ("oneof_external", "oneof_internal", "oneof_adjacent", "oneof_untagged", "anyof_exclusive",
                            "allof_objects", "nullable_anyof_ref", "oneof_optional_const") if self.has(f)]
        if not opts:
            return self.obj(names, depth)
        k = self.pick(opts)
        self.tag(k)
        vn = r.sample(["A", "bee", "C-c", "dee_e", "Eff", "gee"], r.randrange(2, 4))
        if k == "oneof_optional_const":
            # closed object branches sharing an OPTIONAL fixed-value member, told apart by a required member
            subs = []
            for n, v in enumerate(vn):
                req = "m%d_%s" % (n, self.pick(["len", "size", "val"]))
                subs.append({"type": "object",
                             "properties": {"kind": {"type": "string", "enum": [v]}, req: self.scalar_nonnull()},
                             "required": [req], "additionalProperties": False})
            return {"oneOf": subs}
        if k == "oneof_external":
            subs = []
            simple = [v for v in vn if r.random() < 0.4]
            if simple:
                subs.append({"type": "string", "enum": simple})
            for v in vn:
                if v in simple:
                    continue
                subs.append({"type": "object", "properties": {v: _closed_payload(self.leafish(names, depth + 1))},
                             "required": [v], "additionalProperties": False})
            return {"oneOf": subs}
        if k == "oneof_internal":
            # Random stream: all branches open or all closed (a mix is finding C02-F1, kept in the
            # curated corpus), and the first branch has two members besides the tag so that the
            # document cannot be mistaken for an adjacently tagged one (finding C02-F2).
            subs = []
            closed = r.random() < 0.5
            # full stream only: a mix of closed and open branches in either order (the rejected valid
            # instances of the open branches are finding C02-F1; what is ACCEPTED must still be valid)
            mixed = self.has("mixed_closedness") and r.random() < 0.3
            if mixed:
                self.tag("mixed_closedness")
            # full stream only: one branch admits TWO tag values (so the property is no constant
            # and the union must not become an internally tagged enum keyed on the first value)
            multi = r.randrange(len(vn)) if self.has("multi_tag_values") and r.random() < 0.3 else None
            if multi is not None:
                self.tag("multi_tag_values")
            for n, v in enumerate(vn):
                o = self.obj(names, depth + 1, closed=(r.random() < 0.5) if mixed else closed,
                             nprops=2 if n == 0 else r.randrange(0, 3),
                             extra_props={"tagg": {"type": "string", "enum": [v, v + "-alt"] if n == multi else [v]}})
                subs.append(o)
            return {"oneOf": subs}
        if k == "oneof_adjacent":
            subs = []
            for v in vn:
                subs.append({"type": "object", "properties": {"t": {"type": "string", "enum": [v]},
                                                              "c": _closed_payload(self.leafish(names, depth + 1))},
                             "required": ["c", "t"], "additionalProperties": False})
            return {"oneOf": subs}
        if k in ("oneof_untagged", "anyof_exclusive"):
            cands = [{"type": "string"}, {"type": "integer"}, {"type": "boolean"},
                     {"type": "array", "items": self.scalar()},
                     self.obj(names, depth + 1, closed=None, nprops=2)]
            subs = r.sample(cands, r.randrange(2, 4))
            return {("oneOf" if k == "oneof_untagged" else "anyOf"): subs}
        if k == "nullable_anyof_ref" and names:
            return {"anyOf": [self.ref(names), {"type": "null"}]}
        # allOf of objects with disjoint property names
        a = self.obj([], self.max_depth, closed=False, nprops=2)
        b = {"type": "object", "properties": {"zeta": self.scalar(), "eta": self.scalar()}, "required": ["zeta"]}
        a.pop("additionalProperties", None)
        return {"allOf": [a, b]}

    def definition(self, names, depth=0):
        r = self.rnd.random()
        if r < 0.45:
            return self.obj(names, depth)
        if r < 0.7:
            return self.union(names, depth)
        if r < 0.8:
            x = self.rnd.random()
            if x < 0.4 and self.has("str_enum"):
                return self.str_enum()
            if x < 0.5 and self.has("int_enum"):
                return self.int_enum()
            return self.scalar()
        return self.compound(names, depth)

    def doc(self):
        self.tags = []
        n = self.rnd.randrange(*self.ndefs)
        names = ["D%d" % i for i in range(n)]
        defs = {}
        for i, nm in enumerate(names):
            usable = names if self.has("recursion") else names[:i]
            defs[nm] = self.definition([x for x in usable])
        doc = {"$schema": "http://json-schema.org/draft-07/schema#", "definitions": defs}
        break_required_cycles(doc)
        return doc, sorted(set(self.tags))


def _closed_payload(s):
    """An inline object used as the payload of a tagged variant becomes a struct VARIANT and falls under
    the enum's container-level deny_unknown_fields: in the random stream its closedness follows the
    (closed) branches; the mixed case is finding C02-F1 and lives in the curated corpus."""
    if isinstance(s, dict) and s.get("type") == "object" and "properties" in s:
        s = dict(s)
        s["additionalProperties"] = False
    return s


def resolve(doc, s):
    seen = 0
    while isinstance(s, dict) and "$ref" in s and len(s) == 1 and seen < 20:
        s = doc["definitions"][s["$ref"].split("/")[-1]]
        seen += 1
    return s


def break_required_cycles(doc):
    """Remove `required` edges that make a definition need itself (no finite
    instance would exist): repeatedly compute which definitions have a finite
    instance and un-require offending members."""
    defs = doc["definitions"]

    def finite(s, ok, depth=0):
        if not isinstance(s, dict) or depth > 30:
            return True
        if "$ref" in s:
            return s["$ref"].split("/")[-1] in ok
        if "oneOf" in s or "anyOf" in s:
            return any(finite(x, ok, depth + 1) for x in s.get("oneOf", s.get("anyOf")))
        if "allOf" in s:
            return all(finite(x, ok, depth + 1) for x in s["allOf"])
        t = s.get("type")
        if t == "object":
            return all(finite(s["properties"][p], ok, depth + 1) for p in s.get("required", [])
                       if p in s.get("properties", {}))
        if t == "array":
            it = s.get("items")
            if isinstance(it, list):
                return all(finite(x, ok, depth + 1) for x in it)
            if isinstance(it, dict) and s.get("minItems", 0) > 0:
                return finite(it, ok, depth + 1)
        return True

    for _ in range(20):
        ok = set()
        changed = True
        while changed:
            changed = False
            for n, s in defs.items():
                if n not in ok and finite(s, ok):
                    ok.add(n)
                    changed = True
        bad = [n for n in defs if n not in ok]
        if not bad:
            return
        # un-require / weaken the first offending definition
        s = defs[bad[0]]
        _weaken(s)


def _weaken(s):
    if not isinstance(s, dict):
        return
    if "$ref" in s and len(s) == 1:
        s.clear()
        s["type"] = "string"
        return
    if s.get("type") == "object" and s.get("required"):
        s.pop("required")
        return
    for k in ("oneOf", "anyOf"):
        if k in s:
            s[k][0] = {"type": "null"} if {"type": "null"} not in s[k] else {"type": "boolean"}
            return
    if "allOf" in s:
        for x in s["allOf"]:
            x.pop("required", None)
        return
    if s.get("type") == "array":
        s.pop("minItems", None)
        s.pop("maxItems", None)
        s["items"] = {"type": "string"}
        return
    s.clear()
    s["type"] = "string"


# ---------------------------------------------------------------- instances
class Inst:
    def __init__(self, seed, doc):
        self.rnd = random.Random(seed)
        self.doc = doc

    def pick(self, xs):
        return xs[self.rnd.randrange(len(xs))]

    def string_for(self, s):
        r = self.rnd
        if "pattern" in s:
            ok = [x for x in PAT_SAMPLES[s["pattern"]][0]
                  if s.get("minLength", 0) <= len(x) <= s.get("maxLength", 10 ** 6)]
            return self.pick(ok or PAT_SAMPLES[s["pattern"]][0])
        if s.get("format") in FORMAT_SAMPLES:
            return self.pick(FORMAT_SAMPLES[s["format"]][0])
        lo = s.get("minLength", 0)
        hi = s.get("maxLength", lo + 4)
        if hi < lo:
            return None
        n = r.randrange(lo, hi + 1)
        alphabet = "abé日z-"
        return "".join(self.pick(alphabet) for _ in range(n))

    def int_for(self, s):
        lo, hi = -1000, 1000
        if s.get("format") in INT_FORMATS:
            lo, hi = INT_FORMATS[s["format"]]
        lo = max(lo, s.get("minimum", lo))
        hi = min(hi, s.get("maximum", hi))
        if "exclusiveMinimum" in s:
            lo = max(lo, s["exclusiveMinimum"] + 1)
        if "exclusiveMaximum" in s:
            hi = min(hi, s["exclusiveMaximum"] - 1)
        c = [lo, hi, lo + (hi - lo) // 2, max(lo, min(hi, 0)), max(lo, min(hi, 1))]
        m = s.get("multipleOf")
        if isinstance(m, int) and m > 0:
            c = [x - x % m for x in c if lo <= x - x % m <= hi] or [-(-lo // m) * m]
        return self.pick(c)

    def gen(self, s, depth=0, minimal=False):
        """A valid instance of s (best effort; the oracle has the last word)."""
        r = self.rnd
        if s is True or s == {}:
            return self.pick([1, "x", None, [1], {"k": 1}])
        minimal = minimal or depth > 5
        if depth > 40:
            return None     # unproductive recursion (e.g. anyOf [$ref self, …]); the oracle has the last word
        if "$ref" in s:
            return self.gen(self.doc["definitions"][s["$ref"].split("/")[-1]], depth + 1, minimal)
        if "const" in s:
            return copy.deepcopy(s["const"])
        if "enum" in s:
            return self.pick(s["enum"])
        if "oneOf" in s or "anyOf" in s:
            subs = s.get("oneOf", s.get("anyOf"))
            if minimal:
                for x in subs:
                    if x == {"type": "null"}:
                        return None
            return self.gen(self.pick(subs), depth + 1, minimal)
        if "allOf" in s:
            out = {}
            for x in s["allOf"]:
                v = self.gen(x, depth + 1, minimal)
                if isinstance(v, dict):
                    out.update(v)
            return out
        t = s.get("type")
        if isinstance(t, list):
            if "null" in t and (minimal or r.random() < 0.3):
                return None
            t = [x for x in t if x != "null"][0]
            s = dict(s, type=t)
        if t == "null":
            return None
        if t == "boolean":
            return r.random() < 0.5
        if t == "integer":
            return self.int_for(s)
        if t == "number":
            c = [x for x in [0, 1.5, -2.25, 3, 1e3, 0.5]
                 if s.get("minimum", x) <= x <= s.get("maximum", x)]
            return self.pick(c or [s.get("minimum", s.get("maximum", 0))])
        if t == "string":
            return self.string_for(s)
        if t == "array":
            it = s.get("items")
            if isinstance(it, list):
                return [self.gen(x, depth + 1, minimal) for x in it]
            lo = s.get("minItems", 0)
            hi = s.get("maxItems", lo + 2)
            n = lo if minimal else r.randrange(lo, hi + 1)
            if it is None:
                return [1] * n
            out = [self.gen(it, depth + 1, minimal) for _ in range(n)]
            if s.get("uniqueItems"):
                u = []
                for x in out:
                    if not any(json_equal(x, y) for y in u):
                        u.append(x)
                out = u
                if len(out) < lo:
                    return None
            return out
        if t == "object" or "properties" in s or "additionalProperties" in s:
            out = {}
            props = s.get("properties", {})
            for p, ps in sorted(props.items()):
                if p in s.get("required", []) or (not minimal and r.random() < 0.6):
                    out[p] = self.gen(ps, depth + 1, minimal)
            ap = s.get("additionalProperties")
            if isinstance(ap, dict) and not minimal:
                for k in r.sample(["k1", "k2", "zz"], r.randrange(0, 3)):
                    if k not in props:
                        out[k] = self.gen(ap, depth + 1, minimal)
            elif (ap is None or ap is True) and not props and not minimal:
                out["any"] = 1
            return out
        return self.pick([1, "x", None])


def json_equal(a, b):
    if isinstance(a, bool) or isinstance(b, bool):
        return isinstance(a, bool) and isinstance(b, bool) and a == b
    if isinstance(a, (int, float)) and isinstance(b, (int, float)):
        return a == b
    if type(a) != type(b):
        return False
    if isinstance(a, list):
        return len(a) == len(b) and all(json_equal(x, y) for x, y in zip(a, b))
    if isinstance(a, dict):
        return set(a) == set(b) and all(json_equal(a[k], b[k]) for k in a)
    return a == b


# ---------------------------------------------------------------- mutators (C05)
def paths(doc, s, v, path=(), depth=0):
    """Yield (path, subschema, subvalue) for every position of v described by s."""
    if depth > 12 or not isinstance(s, dict):
        return
    if "$ref" in s:
        yield from paths(doc, doc["definitions"][s["$ref"].split("/")[-1]], v, path, depth + 1)
        return
    yield path, s, v
    for uk in ("oneOf", "anyOf"):
        if uk in s and isinstance(v, dict):
            cands = []
            for b in s[uk]:
                b = resolve(doc, b)
                if not isinstance(b, dict) or b.get("type") != "object":
                    continue
                props = b.get("properties", {})
                if not all(r in v for r in b.get("required", [])):
                    continue
                if b.get("additionalProperties") is False and not all(k in props for k in v):
                    continue
                ok = True
                for pk, ps in props.items():
                    if isinstance(ps, dict) and isinstance(ps.get("enum"), list) and len(ps["enum"]) == 1 \
                            and pk in v and v[pk] != ps["enum"][0]:
                        ok = False
                if ok:
                    cands.append(b)
            if len(cands) == 1:
                yield from paths(doc, cands[0], v, path, depth + 1)
            return
    if isinstance(v, dict) and isinstance(s.get("properties"), dict):
        for k, sv in v.items():
            if k in s["properties"]:
                yield from paths(doc, s["properties"][k], sv, path + (k,), depth + 1)
            elif isinstance(s.get("additionalProperties"), dict):
                yield from paths(doc, s["additionalProperties"], sv, path + (k,), depth + 1)
    elif isinstance(v, dict) and isinstance(s.get("additionalProperties"), dict):
        for k, sv in v.items():
            yield from paths(doc, s["additionalProperties"], sv, path + (k,), depth + 1)
    elif isinstance(v, list):
        it = s.get("items")
        if isinstance(it, list):
            for i, (si, vi) in enumerate(zip(it, v)):
                yield from paths(doc, si, vi, path + (i,), depth + 1)
        elif isinstance(it, dict):
            for i, vi in enumerate(v):
                yield from paths(doc, it, vi, path + (i,), depth + 1)


def set_path(v, path, new, delete=False):
    v = copy.deepcopy(v)
    if not path:
        return new
    cur = v
    for p in path[:-1]:
        cur = cur[p]
    if delete:
        del cur[path[-1]]
    else:
        cur[path[-1]] = new
    return v


def mutants(seed, doc, schema, inst):
    """Single-constraint violations of `inst` (kind, mutated instance).  The
    oracle decides whether each really is invalid."""
    rnd = random.Random(seed)
    out = []
    for path, s, v in paths(doc, schema, inst):
        t = s.get("type")
        tt = [x for x in t if x != "null"][0] if isinstance(t, list) else t
        nullable = isinstance(t, list) and "null" in t
        if isinstance(v, dict) and "properties" in s:
            for p in s.get("required", []):
                if p in v:
                    ps = resolve(doc, s["properties"].get(p, {}))
                    if not _accepts_null(doc, ps):
                        out.append(("delete-required", set_path(inst, path + (p,), None, delete=True)))
            if s.get("additionalProperties") is False:
                out.append(("add-to-closed", set_path(inst, path + ("__extra__",), 1)))
        if "enum" in s and v is not None:
            nv = "__nonmember__" if isinstance(v, str) else 424242
            out.append(("enum-nonmember", set_path(inst, path, nv)))
        if tt == "string" and isinstance(v, str) and "enum" not in s:
            if "maxLength" in s:
                out.append(("length-over", set_path(inst, path, "é" * (s["maxLength"] + 1))))
            if "minLength" in s and s["minLength"] > 0:
                out.append(("length-under", set_path(inst, path, "é" * (s["minLength"] - 1))))
            if "pattern" in s:
                out.append(("pattern-break", set_path(inst, path, rnd.choice(PAT_SAMPLES[s["pattern"]][1]))))
        if isinstance(v, list) and isinstance(s.get("items"), list):
            out.append(("tuple-arity-short", set_path(inst, path, v[:-1])))
            out.append(("tuple-arity-long", set_path(inst, path, v + [v[-1] if v else 1])))
        if isinstance(v, list) and isinstance(s.get("items"), dict) and "minItems" in s and \
                s.get("minItems") == s.get("maxItems"):
            out.append(("tuple-arity-short", set_path(inst, path, v[:-1])))
            out.append(("tuple-arity-long", set_path(inst, path, v + [v[-1] if v else 1])))
        if tt in ("boolean", "integer", "string", "number") and v is not None and not nullable:
            swap = {"boolean": "true", "integer": "seven", "string": 7, "number": "1.5"}[tt]
            out.append(("scalar-type-swap", set_path(inst, path, swap)))
        if "oneOf" in s and isinstance(v, dict):
            for k in ("tagg", "t"):
                if isinstance(v.get(k), str):
                    out.append(("alter-tag", set_path(inst, path + (k,), "__nosuchtag__")))
            if len(v) == 1:
                (k0, v0), = v.items()
                subs = s["oneOf"]
                if any(isinstance(x, dict) and list(x.get("properties", {})) == [k0] for x in subs):
                    nv = copy.deepcopy(inst)
                    cur = nv
                    for p in path:
                        cur = cur[p]
                    cur.pop(k0)
                    cur["__nosuchvariant__"] = v0
                    out.append(("alter-tag", nv))
    return out


def _accepts_null(doc, s, depth=0):
    if not isinstance(s, dict):
        return True
    if depth > 12:
        return False
    s = resolve(doc, s)
    t = s.get("type")
    if t == "null" or (isinstance(t, list) and "null" in t):
        return True
    for k in ("oneOf", "anyOf"):
        if k in s and any(_accepts_null(doc, x, depth + 1) for x in s[k]):
            return True
    if t is None and "enum" not in s and "properties" not in s and "allOf" not in s and "$ref" not in s \
            and "oneOf" not in s and "anyOf" not in s:
        return True
    return False


def boundary_variants(seed, doc, schema, inst):
    """Valid-side boundary variants: strings at exact length limits with
    multi-byte scalars, integer limits."""
    out = []
    for path, s, v in paths(doc, schema, inst):
        t = s.get("type")
        tt = [x for x in t if x != "null"][0] if isinstance(t, list) else t
        if tt == "string" and isinstance(v, str) and "enum" not in s and "pattern" not in s and "format" not in s:
            if "maxLength" in s:
                out.append(set_path(inst, path, "é" * s["maxLength"]))
            if "minLength" in s:
                out.append(set_path(inst, path, "日" * s["minLength"]))
        if tt == "integer" and isinstance(v, int) and "enum" not in s:
            lo, hi = -2**63, 2**63 - 1
            if s.get("format") in INT_FORMATS:
                lo, hi = INT_FORMATS[s["format"]]
            lo = max(lo, s.get("minimum", lo))
            hi = min(hi, s.get("maximum", hi))
            if "exclusiveMinimum" in s:
                lo = max(lo, s["exclusiveMinimum"] + 1)
            if "exclusiveMaximum" in s:
                hi = min(hi, s["exclusiveMaximum"] - 1)
            if "format" in s or "minimum" in s or "maximum" in s or "exclusiveMinimum" in s or "exclusiveMaximum" in s:
                out.append(set_path(inst, path, lo))
                out.append(set_path(inst, path, hi))
    return out


def with_emptied(doc, schema, inst):
    """Variants of inst in which ONE present non-required map / array member is replaced by the empty
    map / array (an explicit empty value must survive a round trip as itself or as absent-with-empty-default)."""
    out = []
    for path, s, v in list(paths(doc, schema, inst)):
        if not path or not isinstance(s, dict):
            continue
        if isinstance(v, dict) and v and "properties" not in s and s.get("type") == "object":
            out.append(set_path(inst, path, {}))
        elif isinstance(v, list) and v and isinstance(s.get("items"), dict):
            out.append(set_path(inst, path, []))
    return out[:4]


def with_extra_keys(doc, schema, inst, key="zzz_extra"):
    """inst with an undeclared member added to every OPEN object position
    (properties declared, additionalProperties absent or true); None if there is none."""
    out = inst
    n = 0
    for path, s, v in list(paths(doc, schema, inst)):
        if isinstance(v, dict) and isinstance(s.get("properties"), dict) and \
                s.get("additionalProperties", True) is True and key not in s["properties"]:
            out = set_path(out, path + (key,), 1)
            n += 1
    return out if n else None
