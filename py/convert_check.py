#!/usr/bin/env python3
"""K3 for Algo/Convert.v: the Coq model of the converter against the real typify.

    python3 py/convert_check.py [--n N] [--seed S] [--tag T] [--no-exhaustive] [--show K]

For every generated document `{"definitions": {...}}`:
  * the real typify is run through `vh gen` (`add_root_schema`), its `verif_dump`
    is turned into a Gallina `space` term by tocoq.cspace;
  * Coq evaluates `in_frag ascii_classes D`; when it is `true` the goal
    `convert_doc ascii_classes D = Some <dumped space>` must close by
    `vm_compute; reflexivity` - EXACT equality of the two `space` terms
    (entries with ids, names, renames, states, deny, bespoke impls, next id,
    uses_* flags, default settings).  A document of the fragment the real code
    rejects is a mismatch as well (C02F_convert_total says the model accepts it).
  * documents with `in_frag = false` are counted, nothing is claimed for them
    (except: the model must not crash).

Documents: an exhaustive enumeration of small documents over a grammar that
covers every arm of the fragment (plus a few just outside it), a curated corpus
(corpus/convert/*.json), and `schemagen.Gen(seed, features=FEATURES)` with the
matching feature subset; all names are ASCII (the model is evaluated with
`ascii_classes`).

Importable: `run(n, seed, tag)` -> dict(total, in_frag, out, mismatches=[...]).
Exit status 0 iff there is no mismatch.
"""
import argparse
import glob
import itertools
import json
import os
import random
import re
import sys

sys.path.insert(0, os.path.dirname(os.path.abspath(__file__)))
import schemagen
import tocoq
import vlib

# schemagen features whose output lies (mostly) in the fragment; what falls outside
# (by-value recursion, non-ASCII names are rewritten) is filtered by `in_frag` itself
FEATURES = {"bool", "int", "int_format", "number", "string", "null", "str_enum", "object", "closed_object",
            "map", "array", "nullable_type", "ref", "recursion", "rename", "str_len", "str_pattern", "int_bounds", "set", "fixed_array", "tuple",
            "oneof_external", "oneof_internal", "oneof_adjacent", "oneof_untagged", "nullable_oneof", "nullable_anyof_ref", "anyof_exclusive"}

CORPUS = os.path.join(vlib.ROOT, "corpus", "convert")


def asciify(x):
    """schemagen's pools contain a few non-ASCII strings; the model runs with ascii_classes"""
    if isinstance(x, str):
        return "".join(c if ord(c) < 128 else "u%x" % ord(c) for c in x)
    if isinstance(x, list):
        return [asciify(v) for v in x]
    if isinstance(x, dict):
        return {asciify(k): asciify(v) for k, v in x.items()}
    return x


# ---------------------------------------------------------------- exhaustive small documents
LEAVES = [
    {"type": "boolean"}, {"type": "string"}, {"type": "null"}, {"type": "number"}, {"type": "integer"},
    {"type": "integer", "format": "int32"}, {"type": "integer", "format": "uint64"},
    {"type": "string", "enum": ["a", "b-c"]}, {"type": ["string", "null"]}, {"type": ["null", "integer"]},
    {"type": ["string", "null"], "enum": ["x", "y"]},
    {}, {"type": "object"}, {"type": "array"},
    {"type": "string", "minLength": 1}, {"type": "string", "maxLength": 3, "pattern": "^ab$"},
    {"type": ["string", "null"], "pattern": "x-y"},
    {"type": "string", "pattern": "^[a-z]+$"},            # outside: the pattern class
    {"type": "string", "enum": ["a", "bb"], "minLength": 2},   # outside: enum with validation
    {"minLength": 2},                                     # outside: untyped
    {"type": "integer", "minimum": 0, "maximum": 255}, {"type": "integer", "minimum": 1},
    {"type": "integer", "format": "uint8", "minimum": 1, "maximum": 200},
    {"type": "integer", "format": "int8", "maximum": 300}, {"type": "integer", "exclusiveMinimum": 0},
    {"type": "integer", "minimum": -128, "maximum": 127, "multipleOf": 2}, {"type": "integer", "format": "foo"},
    {"type": ["integer", "null"], "minimum": 0, "maximum": 65535}, {"type": "integer", "format": "uint64", "maximum": 5},
    {"type": "integer", "format": "int64", "maximum": 9223372036854775808},
    {"type": "integer", "minimum": 0, "maximum": 18446744073709551616}, {"type": "integer", "maximum": 9223372036854775808},
    {"type": "integer", "minimum": -9223372036854775808}, {"type": "integer", "exclusiveMaximum": 256, "minimum": 0},
    {"type": "integer", "minimum": 0.5},                  # outside: not an integer bound
    {"type": "integer", "maximum": 1e17},                 # outside: not a safe bound
    {"type": "array", "items": {"type": "boolean"}, "minItems": 1, "maxItems": 4}, {"type": "array", "maxItems": 2},
    {"type": "array", "items": {"type": "boolean"}, "minItems": 2, "maxItems": 2},   # fixed length
    {"type": "array", "minItems": 3, "maxItems": 3}, {"type": ["array", "null"], "items": {"type": "string", "maxLength": 2}, "minItems": 1, "maxItems": 1},
    {"type": "array", "items": {"type": "string"}, "uniqueItems": True}, {"type": "array", "uniqueItems": True, "maxItems": 4},
    {"type": "array", "items": {"type": "integer"}, "uniqueItems": True, "minItems": 2, "maxItems": 2},   # outside
    {"type": "array", "items": {"type": "boolean"}, "minItems": 0, "maxItems": 0},   # outside
    {"type": "array", "items": [{"type": "string"}, {"type": "integer"}], "minItems": 2, "maxItems": 2},
    {"type": "array", "items": [{"type": "object", "properties": {"k": {"type": "null"}}}], "minItems": 1, "maxItems": 1},
    {"type": ["array", "null"], "items": [{"type": "string", "enum": ["u", "v"]}, {"type": "string", "maxLength": 1}, {"$ref": "#/definitions/B"}], "minItems": 3, "maxItems": 3},
    {"type": "array", "items": [{"type": "string"}, {"type": "integer"}], "minItems": 3, "maxItems": 3},   # outside: fewer items
    {"type": "array", "items": [{"type": "string"}, {"type": "integer"}], "minItems": 1, "maxItems": 1},   # outside: more items
    {"type": "array", "items": [{"type": "string"}]},                                                      # outside: no lengths
    {"type": "object", "additionalProperties": False},
    {"$ref": "#/definitions/B"},
]


def wraps(x):
    """one level of structure around a schema"""
    yield {"type": "array", "items": x}
    yield {"type": "object", "additionalProperties": x}
    yield {"type": "object", "properties": {"p": x}}
    yield {"type": "object", "properties": {"p": x}, "required": ["p"], "additionalProperties": False}
    yield {"type": ["object", "null"], "properties": {"q-r": x}}
    yield {"type": ["array", "null"], "items": x}


def exhaustive():
    docs = []
    b_choices = [{"type": "string"}, {"type": "object", "properties": {"z": {"type": "boolean"}}},
                 {"type": "array", "items": {"$ref": "#/definitions/A"}}, {"type": ["integer", "null"]},
                 {"type": "string", "enum": ["On", "off"]}]
    # size 1 and 2 for definition A, every B
    for b in b_choices:
        for x in LEAVES:
            docs.append({"definitions": {"A": x, "B": b}})
            for w in wraps(x):
                docs.append({"definitions": {"A": w, "B": b}})
    # size 3 with B fixed
    b = b_choices[1]
    for x in LEAVES:
        for w in wraps(x):
            for w2 in wraps(w):
                docs.append({"definitions": {"A": w2, "B": b}})
    # two-property objects: order, renames, sorting by identifier, required/optional mix
    names = ["b", "a", "B", "a-b", "type", "async", "X_y", "fooBar", "1st", "-1", "A"]
    for p, q in itertools.permutations(names, 2):
        docs.append({"definitions": {"S": {"type": "object",
                                           "properties": {p: {"type": "string"}, q: {"type": "array"}},
                                           "required": [p]}}})
    # definition names: sanitising, collisions between definitions and inline names
    dn = ["a", "A", "foo_bar", "FooBar", "foo-bar", "Foo", "FooBar2", "type", "x y", "1", "Foo_bar"]
    for p, q in itertools.combinations(dn, 2):
        docs.append({"definitions": {p: {"type": "object", "properties": {"bar": {"type": "object", "properties": {
            "k": {"type": "integer"}}}}}, q: {"type": "string", "enum": ["v"]}}})
    # name reuse: a definition that sorts before `Foo` and sanitises to `FooBar` is reused for the inline `Foo.bar`
    for p in ["FOO_BAR", "FOO-BAR", " foo bar", "FOO.bar"]:
        for inl in ({"type": "object", "properties": {"k": {"type": "integer"}}}, {"type": "string", "enum": ["v", "w"]},
                    {"type": "string", "maxLength": 2}):
            docs.append({"definitions": {p: {"type": "object", "properties": {"z": {"type": "boolean"}}, "required": ["z"]},
                                         "Foo": {"type": "object", "properties": {"bar": inl}, "required": ["bar"]}}})
    return docs


# ---------------------------------------------------------------- oneOf -> tagged enums (enums.rs)
def xs(*names):
    return {"type": "string", "enum": list(names)}


def xt(v, sc, **kw):
    b = {"type": "object", "properties": {v: sc}, "required": [v], "additionalProperties": False}
    b.update(kw)
    return b


ONE_PAYLOADS = [
    {"type": "string"}, {"type": "integer", "format": "uint8"}, {"type": "boolean"}, {"type": "null"}, {},
    {"type": ["string", "null"]}, {"type": "string", "enum": ["p", "q"]}, {"type": "string", "maxLength": 3},
    {"type": "object", "properties": {"a": {"type": "integer"}, "b-c": {"type": "string"}}, "required": ["a"]},
    {"type": "object", "properties": {"a": {"type": "integer"}}, "required": ["a"], "additionalProperties": False},
    {"type": ["object", "null"], "properties": {"a": {"type": "integer"}}},
    {"type": "object", "properties": {"in": {"type": "object", "properties": {"k": {"type": "boolean"}}}}},
    {"type": "object"}, {"type": "object", "additionalProperties": {"type": "integer"}},
    {"type": "object", "additionalProperties": False},
    {"type": "array", "items": {"type": "string"}}, {"type": "array", "items": {"type": "string"}, "uniqueItems": True},
    {"type": "array", "items": {"type": "boolean"}, "minItems": 2, "maxItems": 2},
    {"type": "array", "items": [{"type": "string"}, {"type": "integer"}], "minItems": 2, "maxItems": 2},
    {"type": "array", "items": [{"type": "string"}], "minItems": 1, "maxItems": 1},          # one-element tuple
    {"type": "array", "items": [{"type": "object", "properties": {"k": {"type": "null"}}}], "minItems": 1, "maxItems": 1},
    {"$ref": "#/definitions/B"}, {"$ref": "#/definitions/E"}, {"type": "array", "items": {"$ref": "#/definitions/E"}},
    {"oneOf": [xs("n1", "n2"), xt("N3", {"type": "integer"})]},                              # enum in enum
]


def oneof_docs():
    """externally tagged enums (maybe_externally_tagged_enum / external_variant) and their near misses"""
    docs = []
    b = {"type": "object", "properties": {"z": {"type": "boolean"}}}

    def doc(e, **more):
        d = {"B": b, "E": e}
        d.update(more)
        docs.append({"definitions": d})
    closed = ONE_PAYLOADS[9]
    opened = ONE_PAYLOADS[8]
    for pl in ONE_PAYLOADS:
        doc({"oneOf": [xs("Alpha", "beta-gamma"), xt("Del", pl)]})
        doc({"oneOf": [xt("v_one", pl), xt("VTwo", {"type": "string"})]})
        doc({"oneOf": [xt("only", pl)]})
        doc({"oneOf": [xt("x", pl), xs("y"), xt("z", closed)]})
        # the enum below a property / an array / a map / as a tuple item
        doc({"type": "object", "properties": {"e": {"oneOf": [xs("u"), xt("w", pl)]}}, "required": ["e"]})
        doc({"type": "array", "items": {"oneOf": [xs("u"), xt("w", pl)]}})
    doc({"oneOf": [xs("a", "b", "c")]})
    doc({"oneOf": [xs("a"), xs("b", "c")]})
    doc({"oneOf": [xt("P", closed), xt("Q", closed)]})
    doc({"oneOf": [xt("P", opened), xt("Q", opened), xs("R")]})
    doc({"oneOf": [xt("P", closed), xt("Q", opened)]})                       # mixed closedness: outside
    doc({"oneOf": [xt("P", opened), xt("Q", closed), xs("R")]})              # mixed closedness: outside
    doc({"type": "object", "additionalProperties": {"oneOf": [xs("u"), xt("w", {"type": "integer"})]}})
    doc({"type": ["object", "null"], "properties": {"e": {"oneOf": [xs("u", "v")]}}})
    # identifiers: the 'x' fallback, clashes, keywords, digits
    doc({"oneOf": [xs("a-b", "a_b"), xt("c", {"type": "string"})]})
    doc({"oneOf": [xs("a-b"), xt("a_b", {"type": "string"})]})
    doc({"oneOf": [xs("a", "A")]})                                           # both passes clash: panic
    doc({"oneOf": [xs("a_b", "aB"), xt("c", {"type": "integer"})]})          # the 'X' pass tells them apart
    doc({"oneOf": [xs("type", "1st", "Self"), xt("x y", {"type": "integer"})]})
    # names of the payload types: E_<variant>
    doc({"oneOf": [xt("b", opened)]}, Eb={"type": "string"})
    doc({"oneOf": [xt("b", {"type": "string", "enum": ["k"]})]}, EB={"type": "string"})      # name reuse / clash
    doc({"oneOf": [xt("b", {"type": "string", "enum": ["k"]})]}, Ec={"type": "string"})
    # recursion: by value (outside), through a Vec (inside)
    doc({"oneOf": [xs("leaf"), xt("node", {"$ref": "#/definitions/E"})]})
    doc({"oneOf": [xs("leaf"), xt("node", {"type": "array", "items": {"$ref": "#/definitions/E"}})]})
    doc({"oneOf": [xs("leaf"), xt("node", {"type": "object", "properties": {"l": {"$ref": "#/definitions/E"}}})]})
    doc({"oneOf": [xs("leaf"), xt("node", {"type": "array", "items": [{"$ref": "#/definitions/E"}], "minItems": 1, "maxItems": 1})]})
    # near misses: the real code takes another representation or rejects; the model must classify them out
    nm = [
        [xs("V"), xt("V", {"type": "string"})],                                              # duplicate names
        [xs("a", "a")],
        [xs("a"), {"type": "object", "properties": {"V": {"type": "string"}}, "required": ["V"]}],           # open branch
        [xs("a"), {"type": "object", "properties": {"V": {"type": "string"}}, "required": ["V"], "additionalProperties": True}],
        [xs("a"), {"type": "object", "properties": {"V": {"type": "string"}}, "additionalProperties": False}],   # optional
        [xs("a"), {"type": "object", "properties": {"V": {"type": "string"}, "W": {"type": "string"}}, "required": ["V"],
                   "additionalProperties": False}],
        [xs("a"), {"properties": {"V": {"type": "string"}}, "required": ["V"], "additionalProperties": False}],  # untyped
        [{"type": "string", "enum": ["a", 1]}], [{"enum": ["a", "b"]}], [{"type": "string", "const": "a"}, xs("b")],
        [{"type": "integer", "enum": [1, 2]}, xs("b")],
        [xs("a"), {"type": "null"}], [xt("V", {"type": "string"}), {"type": "null"}],          # maybe_option
        [xs("a"), {"type": "string"}], [xs("a"), {"type": "integer"}], [{"type": "string"}, {"type": "integer"}],
        [xs("a"), xt("V", {"type": "string"}, title="T")],
        [dict(xs("a"), maxLength=3)], [xs("a"), xt("V", {"type": "string"}, minProperties=1)],
        [{"type": ["string"], "enum": ["a"]}],
    ]
    for bs in nm:
        doc({"oneOf": bs})
    doc({"oneOf": [xs("a"), xt("V", {"type": "string"})], "title": "T"})
    doc({"oneOf": [xs("a"), xt("V", {"type": "string"})], "type": "object"})
    doc({"oneOf": [xs("a"), xt("V", {"type": "string"})], "default": "a"})
    doc({"oneOf": [xs("a")], "anyOf": [xs("a")]})
    doc({"anyOf": [xs("a"), xt("V", {"type": "string"})]})
    docs.extend(tagged_docs())
    docs.extend(untagged_docs())
    docs.extend(option_docs())
    return docs


def option_docs():
    """unions with exactly one non-null arm: maybe_option makes an Option of that arm"""
    docs = []
    bdef = {"type": "object", "properties": {"z": {"type": "boolean"}}}
    nul = {"type": "null"}

    def doc(e, **more):
        d = {"B": bdef, "E": e}
        d.update(more)
        docs.append({"definitions": d})
    arms = ONE_PAYLOADS + [{"oneOf": [tb({"t": tg("A"), "c": {"type": "string"}}), tb({"t": tg("B")})]},
                           {"oneOf": [{"type": "string"}, {"type": "integer"}]}]
    for x in arms:
        doc({"oneOf": [x, nul]})
        doc({"oneOf": [nul, x]})
        doc({"type": "object", "properties": {"o": {"oneOf": [x, nul]}, "r": {"oneOf": [nul, x]}}, "required": ["r"]})
        doc({"type": "array", "items": {"oneOf": [x, nul]}})
        doc({"oneOf": [xs("a"), xt("V", {"oneOf": [x, nul]})]})
    doc({"oneOf": [{"$ref": "#/definitions/N"}, nul]}, N={"type": ["string", "null"]})
    doc({"oneOf": [{"$ref": "#/definitions/N"}, nul]}, N={"oneOf": [{"type": "string"}, nul]})
    # near misses
    doc({"oneOf": [{"type": "string"}, {"type": "integer"}, nul]})          # two non-null arms: untagged with a unit variant
    doc({"oneOf": [nul, nul, {"type": "string"}]})
    doc({"oneOf": [{"type": "string"}, dict(nul, title="N")]})
    doc({"oneOf": [{"type": "string"}, {"type": "null", "enum": [None]}]})
    doc({"oneOf": [nul, nul]})
    doc({"oneOf": [{"oneOf": [{"type": "string"}, nul]}, nul]})            # Option of an Option
    doc({"anyOf": [{"type": "string"}, nul]})
    doc({"anyOf": [{"$ref": "#/definitions/B"}, nul]})
    # the anyOf routes of convert_any_of: maybe_option, then all_mutually_exclusive -> convert_one_of
    for x in arms:
        doc({"anyOf": [x, nul]})
        doc({"anyOf": [nul, x]})
        doc({"type": "object", "properties": {"o": {"anyOf": [x, nul]}, "r": {"anyOf": [nul, x]}}, "required": ["r"]})
    sc = [{"type": "string"}, {"type": "integer"}, {"type": "boolean"}, {"type": "number"}, {"type": "null"},
          {"type": "integer", "format": "uint8"}]
    for a, b in itertools.permutations(sc, 2):
        doc({"anyOf": [a, b]})
    for a, b, c in itertools.permutations(sc[:5], 3):
        doc({"anyOf": [a, b, c]})
    doc({"type": "array", "items": {"anyOf": [{"type": "boolean"}, {"type": "string"}]}})
    doc({"anyOf": [{"type": "integer"}, {"type": "integer", "format": "uint8"}]})     # not exclusive: flattened struct
    doc({"anyOf": [{"type": "string"}, {"type": "string", "maxLength": 2}]})
    doc({"anyOf": [{"type": "string"}, {"type": "array", "items": {"type": "string"}}]})
    doc({"anyOf": [{"type": "string"}, {"type": "object", "properties": {"a": {"type": "integer"}}}]})
    doc({"anyOf": [xs("a"), xt("V", {"type": "string"})]})
    doc({"anyOf": [{"type": "string"}]})
    doc({"anyOf": [{"type": "string"}, {"type": "integer"}], "oneOf": [{"type": "string"}, {"type": "integer"}]})
    doc({"anyOf": [{"type": "string"}, {"type": "integer"}], "title": "T"})
    return docs


def untagged_docs():
    """untagged enums over plain scalar arms (untagged_enum with `Variant<i>` names) and what is next to them:
    maybe_option, a single arm, non-scalar arms, titles"""
    docs = []
    bdef = {"type": "object", "properties": {"z": {"type": "boolean"}}}

    def doc(e, **more):
        d = {"B": bdef, "E": e}
        d.update(more)
        docs.append({"definitions": d})
    sc = [{"type": "string"}, {"type": "integer"}, {"type": "boolean"}, {"type": "number"}, {"type": "null"},
          {"type": "integer", "format": "uint8"}, {"type": "integer", "minimum": 0, "maximum": 255}]
    for a, b in itertools.permutations(sc, 2):
        doc({"oneOf": [a, b]})
    for a, b, c in itertools.permutations(sc[:5], 3):
        doc({"oneOf": [a, b, c]})
    doc({"oneOf": sc[:4]})
    doc({"oneOf": sc[:5]})
    doc({"type": "object", "properties": {"u": {"oneOf": [{"type": "string"}, {"type": "integer"}]}}, "required": ["u"]})
    doc({"type": "object", "properties": {"u": {"oneOf": [{"type": "string"}, {"type": "integer"}]}}})
    doc({"type": "array", "items": {"oneOf": [{"type": "boolean"}, {"type": "number"}]}})
    doc({"oneOf": [xs("a"), xt("V", {"oneOf": [{"type": "string"}, {"type": "boolean"}]})]})
    # near misses
    doc({"oneOf": [{"type": "string"}]})                                                # one arm
    doc({"oneOf": [{"type": "string"}, {"type": "string", "maxLength": 3}]})
    doc({"oneOf": [{"type": "string", "title": "S"}, {"type": "integer", "title": "I"}]})   # named arms
    doc({"oneOf": [{"type": "string"}, {"$ref": "#/definitions/B"}]})
    doc({"oneOf": [{"type": "string"}, {"type": "array", "items": {"type": "string"}}]})
    doc({"oneOf": [{"type": "string"}, {"type": "object", "properties": {"a": {"type": "integer"}}}]})
    doc({"oneOf": [{"type": "string"}, {"type": ["integer", "null"]}]})
    doc({"oneOf": [{"type": "string"}, {}]})
    doc({"oneOf": [{"type": "string", "format": "uuid"}, {"type": "integer"}]})
    doc({"oneOf": [{"type": "string", "enum": ["a"]}, {"type": "integer"}]})
    doc({"oneOf": [{"type": "integer", "minimum": 0.5}, {"type": "string"}]})
    doc({"anyOf": [{"type": "string"}, {"type": "integer"}]})
    doc({"oneOf": [{"type": "null"}, {"type": "null"}, {"type": "string"}]})
    return docs


def tg(v, typed=True):
    return {"type": "string", "enum": [v]} if typed else {"enum": [v]}


def tb(props, closed=True, req=None, **kw):
    b = {"type": "object", "properties": props, "required": sorted(props) if req is None else req}
    if closed:
        b["additionalProperties"] = False
    b.update(kw)
    return b


def tagged_docs():
    """adjacently (maybe_adjacently_tagged_enum) and internally (maybe_internally_tagged_enum) tagged enums, near misses"""
    docs = []
    bdef = {"type": "object", "properties": {"z": {"type": "boolean"}}}

    def doc(e, **more):
        d = {"B": bdef, "E": e}
        d.update(more)
        docs.append({"definitions": d})
    # ---- adjacent: tag + content
    for pl in ONE_PAYLOADS:
        doc({"oneOf": [tb({"t": tg("A"), "c": pl}), tb({"t": tg("bee")})]})
        doc({"oneOf": [tb({"kind": tg("x-y"), "data": pl}), tb({"kind": tg("Z"), "data": {"type": "string"}})]})
        doc({"type": "object", "properties": {"e": {"oneOf": [tb({"t": tg("A"), "c": pl}), tb({"t": tg("B")})]}}, "required": ["e"]})
        doc({"type": "array", "items": {"oneOf": [tb({"t": tg("A"), "c": pl}), tb({"t": tg("B"), "c": {"type": "integer"}})]}})
    doc({"oneOf": [tb({"t": tg("A"), "c": {"type": "string"}})]})                                  # one branch
    doc({"oneOf": [tb({"t": tg("A")}), tb({"t": tg("B")})]})              # tags only: no content name -> not adjacent
    doc({"oneOf": [tb({"t": tg("A"), "c": {"type": "string"}}, closed=False), tb({"t": tg("B")})]})      # open branch (C02-F2 shape)
    doc({"oneOf": [tb({"t": tg("A"), "c": {"type": "string"}}), tb({"t": tg("B")}, closed=False)]})
    doc({"oneOf": [tb({"t": tg("A"), "c": {"type": "string"}}, req=["t"]), tb({"t": tg("B")})]})          # optional content
    doc({"oneOf": [tb({"t": tg("A"), "c": {"type": "string"}}), tb({"t": tg("A")})]})                     # same tag twice
    doc({"oneOf": [tb({"t": tg("A"), "c": {"type": "string"}}), tb({"t": tg("B"), "d": {"type": "string"}})]})   # three names
    doc({"oneOf": [tb({"t": tg("A", False), "c": {"type": "string"}}), tb({"t": tg("B", False)})]})        # untyped tag
    doc({"oneOf": [tb({"t": {"type": "string", "const": "A"}, "c": {"type": "string"}}), tb({"t": {"const": "B"}})]})
    doc({"oneOf": [tb({"t": tg("A"), "c": tg("k")}), tb({"t": tg("B"), "c": tg("l")})]})                   # two constant properties
    doc({"oneOf": [tb({"t": tg("A"), "c": tg("k")}), tb({"t": tg("B"), "c": {"type": "string"}})]})
    doc({"oneOf": [tb({"t": {"type": "string", "enum": ["A", "A2"]}, "c": {"type": "string"}}), tb({"t": tg("B")})]})   # multi-valued tag
    doc({"oneOf": [tb({"t": tg("a-b"), "c": {"type": "string"}}), tb({"t": tg("a_b")})]})                 # identifiers clash
    # ---- internal: the members beside the tag
    members = [{"a": {"type": "integer"}, "b-c": {"type": "string"}}, {"a": {"type": "integer"}},
               {"in": {"type": "object", "properties": {"k": {"type": "boolean"}}}, "n": {"type": ["string", "null"]}},
               {"e": {"type": "string", "enum": ["p", "q"]}, "l": {"type": "array", "items": {"type": "string"}}},
               {"r": {"$ref": "#/definitions/B"}, "s": {"type": "string", "maxLength": 3}},
               {"x": {"type": "string"}, "y": {"type": "string"}, "z": {"type": "integer"}}]
    for m in members:
        for closed in (True, False):
            for req in (None, ["tagg"]):
                p1 = dict(m, tagg=tg("Eff"))
                doc({"oneOf": [tb(p1, closed, req=req), tb({"tagg": tg("gee"), "w": {"type": "integer"}, "v": {"type": "string"}}, closed)]})
                doc({"oneOf": [tb(p1, closed, req=req), tb({"tagg": tg("unit")}, closed)]})
                doc({"type": "object", "properties": {"e": {"oneOf": [tb(p1, closed, req=req), tb({"tagg": tg("u")}, closed)]}}, "required": ["e"]})
    doc({"oneOf": [tb({"tagg": tg("A"), "a": {"type": "integer"}, "b": {"type": "string"}}, True),
                   tb({"tagg": tg("B"), "c": {"type": "integer"}, "d": {"type": "string"}}, False)]})      # mixed closedness (C02-F1)
    doc({"oneOf": [tb({"tagg": tg("A"), "a": {"type": "integer"}, "b": {"type": "string"}}, False),
                   tb({"tagg": tg("B"), "c": {"type": "integer"}, "d": {"type": "string"}}, True)]})
    doc({"oneOf": [tb({"tagg": tg("A"), "a": {"type": "integer"}, "b": {"type": "string"}}, req=["a", "b"]),
                   tb({"tagg": tg("B"), "c": {"type": "integer"}, "d": {"type": "string"}})]})             # optional tag
    doc({"oneOf": [tb({"tagg": tg("A"), "a": {"type": "integer"}, "b": {"type": "string"}}),
                   tb({"tagg": tg("A"), "c": {"type": "integer"}, "d": {"type": "string"}})]})             # same value twice
    doc({"oneOf": [tb({"tagg": {"type": "string", "enum": ["A", "A2"]}, "a": {"type": "integer"}, "b": {"type": "string"}}),
                   tb({"tagg": tg("B"), "c": {"type": "integer"}, "d": {"type": "string"}})]})             # multi-valued tag
    doc({"oneOf": [tb({"k1": tg("A"), "k2": tg("X"), "a": {"type": "integer"}}),
                   tb({"k1": tg("B"), "k2": tg("Y"), "b": {"type": "integer"}, "c": {"type": "integer"}})]})   # two tags: the least
    doc({"oneOf": [tb({"k1": tg("A"), "k2": tg("X"), "a": {"type": "integer"}}),
                   tb({"k1": tg("B"), "k2": tg("X"), "b": {"type": "integer"}, "c": {"type": "integer"}})]})   # k2 not distinct
    doc({"oneOf": [tb({"tagg": tg("A"), "a": {"type": "integer"}, "b": {"type": "string"}}),
                   {"type": "string"}]})                                                                # a non-object branch
    doc({"oneOf": [tb({"tagg": tg("A"), "a": {"type": "integer"}, "b": {"type": "string"}}),
                   tb({"tagg": tg("B"), "c": {"type": "integer"}, "d": {"type": "string"}}, title="T")]})
    doc({"oneOf": [tb({"tagg": tg("A"), "foo-bar": {"type": "integer"}, "foo_bar": {"type": "string"}}),
                   tb({"tagg": tg("B"), "c": {"type": "integer"}, "d": {"type": "string"}})]})             # field identifiers clash
    doc({"oneOf": [tb({"tagg": tg("A"), "a": {"type": "object", "properties": {"k": {"type": "integer"}}}, "b": {"type": "string"}}),
                   tb({"tagg": tg("B"), "a": {"type": "object", "properties": {"k": {"type": "string"}}}, "d": {"type": "string"}})]})  # E_a twice: name reuse
    doc({"oneOf": [tb({"tagg": tg("A"), "a": {"type": "integer"}, "b": {"type": "string"}}, req=["tagg", "a", "zz"]),
                   tb({"tagg": tg("B"), "c": {"type": "integer"}, "d": {"type": "string"}})]})             # required without schema
    # awkward definition names: the members' type names use the RAW enum name
    for dn in ["foo-bar", "1st", "x y", "Self"]:
        docs.append({"definitions": {dn: {"oneOf": [
            tb({"tagg": tg("A"), "in": {"type": "object", "properties": {"k": {"type": "integer"}}}, "b": {"type": "string", "enum": ["u"]}}),
            tb({"tagg": tg("B")})]}}})
        docs.append({"definitions": {dn: {"oneOf": [
            tb({"t": tg("A"), "c": {"type": "object", "properties": {"in": {"type": "object", "properties": {"k": {"type": "integer"}}}}}}),
            tb({"t": tg("B"), "c": {"type": "string", "enum": ["u"]}})]}}})
    return docs


def curated():
    out = []
    for p in sorted(glob.glob(os.path.join(CORPUS, "*.json"))):
        d = json.load(open(p))
        for doc in (d if isinstance(d, list) else [d]):
            out.append(doc)
    return out


SAFE_PAT = re.compile(r"^\^?[A-Za-z0-9 _-]*\$?$")
SAFE_POOL = ["^a", "b$", "^ab$", "x-y", "A_b 9", ""]


def safe_patterns(x, keep_every=4):
    """schemagen's patterns use classes / quantifiers the model's [pat_safe] does not cover; rewrite most of
    them to patterns of the class (every 4th one is kept: those documents must be classified outside)"""
    cnt = [0]

    def walk(v):
        if isinstance(v, dict):
            if isinstance(v.get("pattern"), str) and not SAFE_PAT.match(v["pattern"]):
                cnt[0] += 1
                if cnt[0] % keep_every:
                    v["pattern"] = SAFE_POOL[sum(map(ord, v["pattern"])) % len(SAFE_POOL)]
            for w in v.values():
                walk(w)
        elif isinstance(v, list):
            for w in v:
                walk(w)
    walk(x)
    return x


def random_docs(n, seed):
    docs = []
    for k in range(n):
        # every other document without forward/self references (no by-value cycle possible)
        feats = FEATURES if k % 3 == 0 else FEATURES - {"recursion"}
        g = schemagen.Gen(seed * 100003 + k, features=feats, ndefs=(1, 5))
        doc, _ = g.doc()
        doc = safe_patterns(asciify({"definitions": doc["definitions"]}))
        docs.append(doc)
    return docs


def mutate_names(docs, seed):
    """re-key properties / definitions of random documents with awkward names"""
    rnd = random.Random(seed)
    pool = ["type", "async", "a-b", "a_b", "aB", "Ab", "x", "self", "1x", "-1", "+1", "fooBar", "foo_bar", "FOO",
            "D0_alpha", "D1Alpha", "Item", "d0", "D0Item", "D0Value", "D0Inner", "value"]
    out = []
    for doc in docs:
        d = json.loads(json.dumps(doc))

        def walk(s):
            if isinstance(s, dict):
                if isinstance(s.get("properties"), dict) and rnd.random() < 0.5:
                    ps = s["properties"]
                    ks = list(ps)
                    k = rnd.choice(ks)
                    nk = rnd.choice(pool)
                    if nk not in ps:
                        ps[nk] = ps.pop(k)
                        if "required" in s:
                            s["required"] = sorted(set(nk if r == k else r for r in s["required"]))
                for v in list(s.values()):
                    walk(v)
            elif isinstance(s, list):
                for v in s:
                    walk(v)
        walk(d["definitions"])
        if rnd.random() < 0.3:
            ks = list(d["definitions"])
            k = rnd.choice(ks)
            nk = rnd.choice(pool)
            if nk not in d["definitions"]:
                txt = json.dumps(d).replace('"#/definitions/%s"' % k, '"#/definitions/%s"' % nk)
                d = json.loads(txt)
                d["definitions"][nk] = d["definitions"].pop(k)
        out.append(d)
    return out


# ---------------------------------------------------------------- evaluation
def mutate_dump(dmp, how):
    """CONVERT_CHECK_MUTATE=<how>: alter the recorded answer of the real code the way a change of
    the converter would (used to show that the comparison is sensitive)"""
    ents = dmp["entries"]
    if how == "next":
        dmp["next_id"] += 1
    elif how == "optional":          # non-required members no longer wrapped: Optional -> Required
        for e in ents.values():
            for p in e.get("props", []):
                if p["state"]["k"] == "optional":
                    p["state"] = {"k": "required"}
    elif how == "deny":
        for e in ents.values():
            if e["kind"] == "struct":
                e["deny"] = not e["deny"]
    elif how == "order":             # members no longer sorted by identifier
        for e in ents.values():
            if e["kind"] == "struct":
                e["props"].reverse()
    elif how == "name":
        for e in ents.values():
            if e["kind"] in ("struct", "enum", "newtype"):
                e["name"] += "X"
    elif how == "i64":
        for e in ents.values():
            if e["kind"] == "integer" and e["name"] == "i64":
                e["name"] = "u64"
    elif how == "derives":           # patch derives no longer attached
        for e in ents.values():
            e["extra_derives"] = []
    elif how == "native":            # a replaced / converted position keeps a generated-looking type
        for e in ents.values():
            if e["kind"] == "native":
                e["type_name"] += "X"
    elif how == "impls":
        for e in ents.values():
            if e["kind"] == "native":
                e["impls"] = []
    elif how == "variant":           # a struct payload no longer dissolved into the variant / a tuple payload kept as a type
        for e in ents.values():
            if e["kind"] == "enum":
                for v in e.get("variants", []):
                    if v["details"]["k"] in ("struct", "tuple"):
                        v["details"] = {"k": "simple"}
    elif how == "enumdeny":          # deny_unknown_fields no longer accumulated at the enum
        for e in ents.values():
            if e["kind"] == "enum":
                e["deny"] = not e.get("deny", False)


HEADER = (tocoq.COQ_HEADER +
          "From Typify Require Import Spec.Valid Algo.Heck Algo.Sanitize Algo.Convert Algo.ConvertRoot.\n"
          "Close Scope string_scope.\n")


def coq_case(i, doc, dump):
    try:
        cd = tocoq.cdefs(doc.get("definitions", {}))
        root = None
        if "title" in doc:      # a titled root schema (RefKey::Root): convert_root / in_frag_root
            root = tocoq.cschema({k: v for k, v in doc.items() if k not in ("definitions", "$schema")})
    except tocoq.Unsupported as e:
        return None
    lines = ["Definition D_%d : defs := %s.\n" % (i, cd)]
    if root is None:
        conv, frag = "convert_doc ascii_classes D_%d" % i, "in_frag_w ascii_classes D_%d" % i
    else:
        lines.append("Definition Rt_%d : schema := %s.\n" % (i, root))
        args = "ascii_classes D_%d %s Rt_%d" % (i, tocoq.ustr(doc["title"]), i)
        conv, frag = "convert_root " + args, "in_frag_root " + args
    if dump is not None:
        lines.append("Definition T_%d : space := %s.\n" % (i, tocoq.cspace(dump)))
        goal = "%s = Some T_%d" % (conv, i)
    else:
        goal = "False"     # the real code rejected the document: a mismatch when in the fragment
    # outside the fragment nothing is claimed; whether the model still reproduces the real type space
    # (it does for name reuse, for instance) is reported for information: OUT_EQ / OUT
    lines.append(
        'Goal True. tryif (assert (%s = true) by (vm_compute; reflexivity)) '
        'then (tryif (assert (%s) by (vm_compute; reflexivity)) then idtac "R %d OK" else idtac "R %d MISMATCH") '
        'else (tryif (assert (%s) by (vm_compute; reflexivity)) then idtac "R %d OUT_EQ" else idtac "R %d OUT"). '
        'Abort.\n' % (frag, goal, i, i, goal, i, i))
    return "".join(lines)


def evaluate(tag, docs, shard=150, timeout=900):
    vlib.build_harness(bins=("vh",))
    dev = os.environ.get("CONVERT_DEV_COQ")      # a private copy of /verif/coq (already compiled): development only
    if dev:
        vlib.COQ = dev
    else:
        ok, out = vlib.coq_make(["theories/Algo/Convert.vo", "theories/Algo/ConvertRoot.vo"])
        if not ok:
            raise RuntimeError(out[-3000:])
    cases = [{"settings": {}, "steps": [{"op": "root", "doc": d}], "code": False} for d in docs]
    gens = vlib.run_vh("gen", cases)
    dumps = [g.get("dump") if g.get("all_ok") else None for g in gens]
    mut = os.environ.get("CONVERT_CHECK_MUTATE")      # emulated regressions of the real converter
    if mut:
        for dmp in dumps:
            if dmp is not None:
                mutate_dump(dmp, mut)
    d = os.path.join(vlib.WORK, "cases", tag)
    os.makedirs(d, exist_ok=True)
    for f in os.listdir(d):
        os.unlink(os.path.join(d, f))
    verdict = {}
    paths = []
    for k in range(0, len(docs), shard):
        body = [HEADER]
        for i in range(k, min(k + shard, len(docs))):
            c = coq_case(i, docs[i], dumps[i])
            if c is None:
                verdict[i] = "UNSUPPORTED"
            else:
                body.append(c)
        p = os.path.join(d, "conv_%d.v" % (k // shard))
        open(p, "w").write("".join(body))
        paths.append(p)

    def one(p):
        rc, out, err = vlib.coqc_file(p, timeout)
        if rc != 0:
            raise RuntimeError("coqc failed on %s: %s" % (p, (out + err)[-3000:]))
        return out

    from concurrent.futures import ThreadPoolExecutor
    with ThreadPoolExecutor(max_workers=min(8, vlib.NCPU)) as ex:
        for out in ex.map(one, paths):
            for m in re.finditer(r"^R (\d+) (OK|MISMATCH|OUT_EQ|OUT)\s*$", out, re.M):
                verdict[int(m.group(1))] = m.group(2)
    return verdict, gens


def run(n=300, seed=1, tag="convert_check", exhaustive_docs=True, show=3):
    docs, origin = [], []
    for d in curated():
        docs.append(d)
        origin.append("corpus")
    if exhaustive_docs:
        for d in exhaustive():
            docs.append(d)
            origin.append("exhaustive")
    od = oneof_docs()
    if not exhaustive_docs:        # the quick tier: a seeded sample
        od = random.Random(seed).sample(od, min(len(od), 50))
    for d in od:
        docs.append(d)
        origin.append("oneof")
    rd = random_docs(n, seed)
    for d in rd:
        docs.append(d)
        origin.append("random")
    for d in mutate_names(rd[: n // 2], seed + 7):
        docs.append(d)
        origin.append("random-names")
    return summarise(docs, origin, *evaluate(tag, docs))


def summarise(docs, origin, verdict, gens):
    # name reuse (hook verif::take_name_reuse, `name_reuse` of vh gen): assign_type resolved a named type to a
    # DIFFERENT existing type of that name.  `unique (all_names ..)` in in_frag claims this never happens on
    # the fragment; documents with such an event must all be classified outside (and some must exist).
    res = {"total": len(docs), "in_frag": 0, "out": 0, "out_model_equal": 0, "unsupported": 0, "mismatches": [],
           "by_origin": {}, "reuse_in_frag": [], "reuse_out": 0}
    for i, d in enumerate(docs):
        v = verdict.get(i, "MISSING")
        o = res["by_origin"].setdefault(origin[i], {"OK": 0, "OUT": 0, "OUT_EQ": 0, "MISMATCH": 0, "UNSUPPORTED": 0,
                                                    "MISSING": 0})
        o[v] += 1
        reuse = (gens[i] or {}).get("name_reuse") or []
        if reuse and v == "OK":
            res["reuse_in_frag"].append({"index": i, "origin": origin[i], "doc": d, "name": reuse[0].get("name")})
        elif reuse and v in ("OUT", "OUT_EQ"):
            res["reuse_out"] += 1
        if v == "OK":
            res["in_frag"] += 1
        elif v in ("OUT", "OUT_EQ"):
            res["out"] += 1
            res["out_model_equal"] += v == "OUT_EQ"
        elif v == "UNSUPPORTED":
            res["unsupported"] += 1
        else:
            g = gens[i]
            res["mismatches"].append({"index": i, "origin": origin[i], "verdict": v, "doc": d,
                                      "real": "ok" if g.get("all_ok") else g.get("steps")})
    return res


# ---------------------------------------------------------------- K3 with a titled root schema (convert_root)
ROOT_TITLES = ["Root", "root thing", "aaa", "Zed", "A", "B-root", "type", "the_Root2"]


def root_docs(n, seed, full=True):
    """documents `{title, <root schema>, definitions}`: add_root_schema converts the root as one more definition,
    last, named by its title; `"$ref": "#"` points at it.  MODEL + K3 ONLY (no theorem is about these)."""
    rnd = random.Random(seed * 7919 + 13)
    selfref = [{"$ref": "#"}, {"type": "array", "items": {"$ref": "#"}}, {"type": ["object", "null"], "properties": {"up": {"$ref": "#"}}},
               {"type": "object", "additionalProperties": {"$ref": "#"}}, {"type": "array", "items": {"$ref": "#"}, "minItems": 2, "maxItems": 2},
               {"type": "array", "items": [{"type": "string"}, {"$ref": "#"}], "minItems": 2, "maxItems": 2}]
    docs, origin = [], []
    b = {"type": "object", "properties": {"z": {"type": "boolean"}}}
    for t in (ROOT_TITLES[:5] if full else []):
        for x in LEAVES:
            for w in [x] + list(wraps(x)):
                docs.append(dict(w, title=t, definitions={"A": {"type": "string", "enum": ["On", "off"]}, "B": b}))
                origin.append("root-exhaustive")
    for t in (ROOT_TITLES if full else ROOT_TITLES[:3]):
        for x in selfref:
            for w in [x] + list(wraps(x)):
                docs.append(dict(w, title=t, definitions={"B": b, "C": {"type": "array", "items": {"$ref": "#"}}}))
                origin.append("root-selfref")
                docs.append(dict(w, title=t))
                origin.append("root-selfref")
    rd = random_docs(n, seed + 3)
    for d in rd + mutate_names(rd[: n // 2], seed + 11):
        defs = dict(d["definitions"])
        # the root: a fresh schema, or one of the definitions moved to the root (its references stay valid)
        if rnd.random() < 0.5 and len(defs) > 1:
            k = rnd.choice(sorted(defs))
            r = defs[k] if isinstance(defs[k], dict) else {}
        else:
            x = rnd.choice(LEAVES[:-1] + selfref)
            r = rnd.choice([x] + list(wraps(x)))
        r = {k: v for k, v in r.items() if k != "title"}
        if rnd.random() < 0.3:
            k = rnd.choice(sorted(defs))
            if isinstance(defs[k], dict) and defs[k].get("type") == "object" and "properties" in defs[k]:
                defs[k] = dict(defs[k], properties=dict(defs[k]["properties"], rootward={"type": "array", "items": {"$ref": "#"}}))
        docs.append(dict(r, title=rnd.choice(ROOT_TITLES + sorted(defs)[:1]), definitions=defs))
        origin.append("root-random")
    return docs, origin


def run_root(n=150, seed=1, tag="convert_check_root", full=True):
    docs, origin = root_docs(n, seed, full)
    return summarise(docs, origin, *evaluate(tag, docs))


# ---------------------------------------------------------------- K3 under settings (Algo/ConvertS.v, C14F)
NATIVE_TYPES = ["String", "u64", "::std::vec::Vec<String>", "::my::Thing", "bool"]
IMPLS = [[], ["Display"], ["FromStr", "Display"], ["Default"]]


def csettings(st):
    def cimpls(l):
        return tocoq.clist(l, lambda t: tocoq.TRAITS[t], "trait")
    rep = tocoq.clist(sorted(st.get("replace", {}).items()),
                      lambda kv: "(%s, (%s, %s))" % (tocoq.ustr(kv[0]), tocoq.ustr(kv[1]["type"]), cimpls(kv[1].get("impls", []))),
                      "(ustring * (ustring * list trait))")
    cnv = tocoq.clist(st.get("convert", []),
                      lambda c: "(%s, (%s, %s))" % (tocoq.cschema(c["schema"]), tocoq.ustr(c["type"]), cimpls(c.get("impls", []))),
                      "(schema * (ustring * list trait))")
    pat = tocoq.clist(sorted(st.get("patch", {}).items()),
                      lambda kv: "(%s, (%s, %s))" % (tocoq.ustr(kv[0]), tocoq.copt(kv[1].get("rename"), tocoq.ustr),
                                                    tocoq.clist(kv[1].get("derives", []), tocoq.ustr, "ustring")),
                      "(ustring * (option ustring * list ustring))")
    return "(mkCs %s %s %s)" % (rep, cnv, pat)


def type_positions(doc):
    """subschemas the converter converts: definition bodies, property values, items, tuple items, map values"""
    out = []

    def walk(s):
        if not isinstance(s, dict):
            return
        out.append(s)
        for v in (s.get("properties") or {}).values():
            walk(v)
        it = s.get("items")
        if isinstance(it, dict):
            walk(it)
        elif isinstance(it, list):
            for v in it:
                walk(v)
        if isinstance(s.get("additionalProperties"), dict):
            walk(s["additionalProperties"])
    for v in doc["definitions"].values():
        walk(v)
    return out


def annotate(rnd, s):
    """annotations the cache must ignore, at the top and below"""
    s = json.loads(json.dumps(s))
    if isinstance(s, dict):
        if rnd.random() < 0.5:
            s["title"] = rnd.choice(["A title", "x"])
        if rnd.random() < 0.3:
            s["description"] = "words"
        for v in (s.get("properties") or {}).values():
            if isinstance(v, dict) and rnd.random() < 0.3:
                v["description"] = "inner words"
    return s


def settings_for(rnd, doc, dump):
    """a settings assignment drawn from the document's own definitions / positions / type names"""
    st = {}
    names = {int(k): e.get("name") for k, e in dump["entries"].items() if e.get("name")}
    defs = sorted(doc["definitions"])
    r2i = dump["ref_to_id"]
    replaced_names = set()
    if rnd.random() < 0.55:
        d = rnd.choice(defs)
        nm = names.get(r2i["#/" + d])
        if nm:
            st["replace"] = {nm: {"type": rnd.choice(NATIVE_TYPES), "impls": rnd.choice(IMPLS)}}
            replaced_names.add(nm)
    if rnd.random() < 0.6:
        pos = [p for p in type_positions(doc) if "$ref" not in p]
        if pos:
            cs = rnd.choice(pos)
            st["convert"] = [{"schema": annotate(rnd, cs), "type": rnd.choice(NATIVE_TYPES + ["::serde_json::Value"]),
                              "impls": rnd.choice(IMPLS)}]
            if rnd.random() < 0.3 and len(pos) > 1:      # a second conversion; an equal one must lose (first match wins)
                cs2 = rnd.choice(pos)
                st["convert"].append({"schema": annotate(rnd, cs2), "type": "::second::Choice", "impls": []})
    if rnd.random() < 0.6:
        cands = sorted(set(names.values()) - replaced_names)
        pat = {}
        for k in range(rnd.randrange(1, 3)):
            if not cands:
                break
            tgt = rnd.choice(cands)
            p = {}
            if rnd.random() < 0.6:
                p["rename"] = rnd.choice(["Renamed%d" % k, tgt + "X", "Z9"])
            if rnd.random() < 0.7:
                p["derives"] = rnd.choice([["PartialEq"], ["Eq", "PartialEq", "Eq"], ["Hash", "Ord", "PartialOrd"]])
            if p:
                pat[tgt] = p
        if pat:
            st["patch"] = pat
    return st


CURATED_SETTINGS = [
    # (document, settings): replacement of a referenced definition; conversion at a property and inside a nullable;
    # patch of an inline type; first conversion wins; Native whose last path segment is the definition's name
    ({"definitions": {"A": {"type": "object", "properties": {"b": {"$ref": "#/definitions/B"}, "c": {"type": "array", "items": {"$ref": "#/definitions/B"}}}},
                      "B": {"type": "object", "properties": {"deep": {"type": "object", "properties": {"x": {"type": "string"}}}}}}},
     {"replace": {"B": {"type": "::my::B", "impls": ["Display"]}}}),
    ({"definitions": {"A": {"type": "object", "properties": {"p": {"type": "string", "maxLength": 3, "description": "d"},
                                                              "q": {"type": ["string", "null"], "maxLength": 3}},
                            "required": ["p"]},
                      "Tiny": {"type": "string", "maxLength": 3, "title": "tiny"}}},
     {"convert": [{"schema": {"type": "string", "maxLength": 3}, "type": "::my::Tiny", "impls": ["FromStr"]},
                  {"schema": {"type": "string", "maxLength": 3}, "type": "::never::Chosen", "impls": []}]}),
    ({"definitions": {"Foo": {"type": "object", "properties": {"bar": {"type": "object", "properties": {"k": {"type": "integer"}}}}},
                      "E": {"type": "string", "enum": ["a", "b"]}}},
     {"patch": {"FooBar": {"rename": "Inner", "derives": ["Eq", "PartialEq", "Eq"]}, "E": {"derives": ["Hash"]}}}),
    ({"definitions": {"A": {"type": "string", "minLength": 1}, "B": {"type": "string", "minLength": 1}}},
     {"patch": {"A": {"rename": "B"}}}),                       # patched names collide: outside
    ({"definitions": {"Thing": {"type": "object", "properties": {"x": {"type": "string"}}},
                      "U": {"type": "array", "items": {"$ref": "#/definitions/Thing"}}}},
     {"convert": [{"schema": {"type": "object", "properties": {"x": {"type": "string"}}}, "type": "::my::Thing", "impls": []}]}),
]


def run_settings(n=120, seed=1, tag="convert_check_s", per_doc=2):
    """K3 for Algo/ConvertS.v: documents x settings; `convert_doc_s ascii_classes S D = Some <real space>`
    whenever `in_frag_s ascii_classes S D = true`."""
    vlib.build_harness(bins=("vh",))
    dev = os.environ.get("CONVERT_DEV_COQ")
    if dev:
        vlib.COQ = dev
    else:
        ok, out = vlib.coq_make(["theories/Algo/ConvertS.vo", "theories/Algo/ConvertRoot.vo"])
        if not ok:
            raise RuntimeError(out[-3000:])
    rnd = random.Random(seed * 7919 + 13)
    base = curated() + random_docs(n, seed + 100)
    g0 = vlib.run_vh("gen", [{"settings": {}, "steps": [{"op": "root", "doc": d}], "code": False} for d in base])
    pairs = list(CURATED_SETTINGS)
    for f in sorted(glob.glob(os.path.join(CORPUS, "settings", "*.json"))):     # curated (document, settings) pairs
        for c in json.load(open(f)):
            if (c["doc"], c["settings"]) not in pairs:
                pairs.append((c["doc"], c["settings"]))
    for d, g in zip(base, g0):
        if not g.get("all_ok"):
            continue
        for _ in range(per_doc):
            st = settings_for(rnd, d, g["dump"])
            if st:
                pairs.append((d, st))
    gens = vlib.run_vh("gen", [{"settings": st, "steps": [{"op": "root", "doc": d}], "code": False} for d, st in pairs])
    mut = os.environ.get("CONVERT_CHECK_MUTATE")
    if mut:
        for g in gens:
            if g.get("all_ok"):
                mutate_dump(g["dump"], mut)
    hdr = HEADER.replace("Algo.ConvertRoot.", "Algo.ConvertRoot Algo.ConvertS.")
    d = os.path.join(vlib.WORK, "cases", tag)
    os.makedirs(d, exist_ok=True)
    for f in os.listdir(d):
        os.unlink(os.path.join(d, f))
    verdict, paths, shard = {}, [], 120
    for k in range(0, len(pairs), shard):
        body = [hdr]
        for i in range(k, min(k + shard, len(pairs))):
            doc, st = pairs[i]
            try:
                body.append("Definition D_%d : defs := %s.\nDefinition S_%d : csettings := %s.\n"
                            % (i, tocoq.cdefs(doc["definitions"]), i, csettings(st)))
            except tocoq.Unsupported:
                verdict[i] = "UNSUPPORTED"
                continue
            if gens[i].get("all_ok"):
                body.append("Definition T_%d : space := %s.\n" % (i, tocoq.cspace(gens[i]["dump"])))
                goal = "convert_doc_s ascii_classes S_%d D_%d = Some T_%d" % (i, i, i)
            else:
                goal = "False"
            body.append('Goal True. tryif (assert (in_frag_s ascii_classes S_%d D_%d = true) by (vm_compute; reflexivity)) '
                        'then (tryif (assert (%s) by (vm_compute; reflexivity)) then idtac "R %d OK" else idtac "R %d MISMATCH") '
                        'else (tryif (assert (%s) by (vm_compute; reflexivity)) then idtac "R %d OUT_EQ" else idtac "R %d OUT"). '
                        'Abort.\n' % (i, i, goal, i, i, goal, i, i))
        p = os.path.join(d, "convs_%d.v" % (k // shard))
        open(p, "w").write("".join(body))
        paths.append(p)

    def one(p):
        rc, out, err = vlib.coqc_file(p, 900)
        if rc != 0:
            raise RuntimeError("coqc failed on %s: %s" % (p, (out + err)[-3000:]))
        return out
    from concurrent.futures import ThreadPoolExecutor
    with ThreadPoolExecutor(max_workers=min(8, vlib.NCPU)) as ex:
        for out in ex.map(one, paths):
            for m in re.finditer(r"^R (\d+) (OK|MISMATCH|OUT_EQ|OUT)\s*$", out, re.M):
                verdict[int(m.group(1))] = m.group(2)
    res = {"total": len(pairs), "in_frag": 0, "out": 0, "out_model_equal": 0, "mismatches": [],
           "kinds": {"replace": 0, "convert": 0, "patch": 0}}
    for i, (doc, st) in enumerate(pairs):
        v = verdict.get(i, "MISSING")
        if v == "OK":
            res["in_frag"] += 1
            for kk in res["kinds"]:
                res["kinds"][kk] += kk in st
        elif v in ("OUT", "OUT_EQ"):
            res["out"] += 1
            res["out_model_equal"] += v == "OUT_EQ"
        elif v != "UNSUPPORTED":
            g = gens[i]
            res["mismatches"].append({"index": i, "verdict": v, "doc": doc, "settings": st,
                                      "real": "ok" if g.get("all_ok") else g.get("steps")})
    return res


# ---------------------------------------------------------------- for the property checks
FRAGMENT_PROPS = {            # property -> (module, theorem-name prefix)
    "C02": ("Props.C02F", "C02F_"),
    "C05": ("Props.C05F", "C05F_"),
    "C03": ("Props.C03F", "C03F_"),
    "C14": ("Props.C14F", "C14F_"),      # the model under settings (Algo/ConvertS.v); K3 = run_settings
}


def theorem_names(path, prefix):
    txt = re.sub(r"\(\*.*?\*\)", "", open(path).read(), flags=re.S)
    return re.findall(r"^\s*(?:Theorem|Lemma|Example|Corollary)\s+(%s\w+)" % re.escape(prefix), txt, re.M)


def convert_obligations(ctx, prop, n=None, exhaustive_docs=None, k3=True):
    """Called by py/props/c02.py, c05.py, c03.py.  Records on ctx:
      * build + forbidden-token scan + Print Assumptions of every theorem/example of Props/<prop>F.v
        (the schema quantifier of <prop> closed on the converter fragment),
      * (k3=True) the tie of the model to the real converter: exact equality of type spaces on every
        generated fragment document (the same run serves the three properties: pass k3=False in two of
        them if the checks run together; each uses its own tag, so they may also run concurrently).
    Returns the K3 result dict (or None)."""
    import time
    module, prefix = FRAGMENT_PROPS[prop]
    path = os.path.join(vlib.COQ, "theories", *module.split(".")) + ".v"
    thms = theorem_names(path, prefix)
    if not thms:
        ctx.oblige("%s present" % path, False, "fragment theorem file missing or without %s theorems" % prefix)
        return None
    saved = ctx.prop
    ctx.prop = prop + "F"
    try:
        vlib.standard_coq_obligations(ctx, module, thms, vlib.STD_AXIOMS)
    finally:
        ctx.prop = saved
    if prop == "C02":
        # the model's integer table = the table regenerated from convert.rs (Gen/IntTable.v, C10's translator)
        ok, out = vlib.coq_make(["theories/Proofs/ConvertIntTie.vo"])
        ctx.oblige("Convert.int_rows = regenerated integer format table (Proofs/ConvertIntTie.v)", ok, out[-1500:])
    if not k3:
        return None
    quick = getattr(ctx, "tier", "quick") == "quick"
    if prop == "C14":
        res = run_settings(n=n if n is not None else (60 if quick else 300), seed=ctx.seed,
                           tag="c14_convert_%s" % ("q" if quick else "t"))
        ctx.oblige("correspondence K3 under settings: ConvertS.convert_doc_s = real type space (exact term equality) on "
                   "%d (document, settings) pairs of the fragment (replace %d, convert %d, patch %d)"
                   % (res["in_frag"], res["kinds"]["replace"], res["kinds"]["convert"], res["kinds"]["patch"]),
                   not res["mismatches"] and min(res["kinds"].values()) > 0,
                   json.dumps(res["mismatches"][:2], default=str)[:1500])
        ctx.coverage["convert_settings_pairs"] = res["in_frag"]
        ctx.coverage["convert_settings_outside"] = res["out"]
        ctx.evaluations += res["in_frag"]
        return res
    res = run(n=n if n is not None else (60 if quick else 400), seed=ctx.seed,
              tag="%s_convert_%s" % (prop.lower(), "q" if quick else "t"),
              exhaustive_docs=(not quick) if exhaustive_docs is None else exhaustive_docs)
    ctx.oblige("correspondence K3: Convert.convert_doc = real type space (exact term equality) on %d fragment "
               "documents" % res["in_frag"], not res["mismatches"] and res["in_frag"] > 0,
               json.dumps(res["mismatches"][:2], default=str)[:1500])
    ctx.oblige("no fragment document has a name-reuse event of the real converter (hook take_name_reuse); "
               "%d documents with such an event, all classified outside" % res["reuse_out"],
               not res["reuse_in_frag"] and res["reuse_out"] > 0,
               json.dumps(res["reuse_in_frag"][:2], default=str)[:1500])
    ctx.coverage["convert_fragment_documents"] = res["in_frag"]
    ctx.coverage["convert_outside_fragment"] = res["out"]
    ctx.evaluations += res["in_frag"]
    if prop == "C02":
        # a titled root schema (Algo/ConvertRoot.v): model + K3 only, no theorem is about these documents
        rr = run_root(n=30 if quick else 200, seed=ctx.seed, tag="c02_convert_root_%s" % ("q" if quick else "t"),
                      full=not quick)
        ctx.oblige("correspondence K3 (titled root, model only - no theorem): ConvertRoot.convert_root = real type "
                   "space on %d documents in in_frag_root; no name-reuse event among them" % rr["in_frag"],
                   not rr["mismatches"] and not rr["reuse_in_frag"] and rr["in_frag"] > 0,
                   json.dumps((rr["mismatches"] + rr["reuse_in_frag"])[:2], default=str)[:1500])
        ctx.coverage["convert_root_documents"] = rr["in_frag"]
        ctx.evaluations += rr["in_frag"]
    return res


def main():
    ap = argparse.ArgumentParser()
    ap.add_argument("--n", type=int, default=300)
    ap.add_argument("--seed", type=int, default=int(os.environ.get("VERIF_SEED", "1")))
    ap.add_argument("--tag", default="convert_check")
    ap.add_argument("--no-exhaustive", action="store_true")
    ap.add_argument("--show", type=int, default=5)
    ap.add_argument("--settings", action="store_true", help="K3 under settings (Algo/ConvertS.v)")
    ap.add_argument("--root", action="store_true", help="K3 with a titled root schema (convert_root)")
    a = ap.parse_args()
    if a.settings:
        res = run_settings(a.n, a.seed, a.tag + "_s")
        print(json.dumps({k: v for k, v in res.items() if k != "mismatches"}, indent=1))
        print("settings: compared (in fragment, exact equality): %d   outside: %d   mismatches: %d"
              % (res["in_frag"], res["out"], len(res["mismatches"])))
        for m in res["mismatches"][: a.show]:
            print("MISMATCH", json.dumps(m)[:2500])
        sys.exit(0 if not res["mismatches"] else 1)
    res = run_root(a.n, a.seed, a.tag + "_root") if a.root else run(a.n, a.seed, a.tag, not a.no_exhaustive)
    print(json.dumps({k: v for k, v in res.items() if k not in ("mismatches", "reuse_in_frag")}, indent=1))
    print("compared (in fragment, exact equality): %d   outside the fragment: %d   mismatches: %d"
          % (res["in_frag"], res["out"], len(res["mismatches"])))
    for m in res["mismatches"][: a.show]:
        print("MISMATCH", json.dumps(m)[:2000])
    print("name reuse events: %d in fragment documents (must be 0), %d in documents outside"
          % (len(res["reuse_in_frag"]), res["reuse_out"]))
    for m in res["reuse_in_frag"][: a.show]:
        print("NAME-REUSE-IN-FRAGMENT", json.dumps(m)[:1500])
    sys.exit(0 if not res["mismatches"] and not res["reuse_in_frag"] else 1)


if __name__ == "__main__":
    main()
