"""Source of MANIFEST.json (run bin/mkmanifest after editing)."""
HOOK_COMMITS = ["7fd0615"]

CHECKS = {
    "C10": dict(
        text="Coq theorems over a Flocq binary64 model of convert_integer (format table regenerated from the Rust source on every run) plus the string/number format tables; the model is tied to the code by evaluating model and public API on the whole boundary lattice (bit-exact doubles) each run; a direct exact-arithmetic evaluation of the property supplies failing inputs.",
        note="Trusted: Coq kernel/vm_compute, Flocq as semantics of f64, the four classical real axioms Flocq depends on, the syn-based table translator, the hand-written control-flow model (checked by correspondence, not proved equal to the Rust). C10_int_fits is stated for safe_bounds (integral doubles); non-integral bounds are covered by the lattice only.",
        technique="machine-checked proof (Coq/Flocq) + regenerated table + model/implementation correspondence",
        design="DESIGN 4 C10"),
    "C16": dict(
        text="proof: next_id monotone, id stability (under the checked break_cycles-locality hypothesis), closedness, re-add idempotence of add_type_with_name, one definition per name under name-freshness of definitions - for all histories of allocation-level operations, no axioms; clause 4 proved for the set of registered names only (partial), structure checked on the implementation; every real history of the run is replayed call by call in the Coq model.",
        note="4 known findings (C16-1..4): re-added / colliding definition names duplicate definitions and change ids; state after a failed batch. C16_split_independent is _partial. Trusted: Coq kernel + vm_compute (no axioms), hand model Space.v tied per call to verif_dump, python trace derivation.",
        technique="Coq proof over an executable model of TypeSpace id allocation (converter and break_cycles universally quantified) + per-call replay of real histories in the model + direct evaluation of the four clauses on the public API",
        design="DESIGN 4 C16, notes/C16.md"),
}

NOT_YET = "not yet built in this round (planned, see DESIGN.md section 7)"
ALL = ["C%02d" % i for i in range(1, 20)]
