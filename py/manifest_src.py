"""Source of MANIFEST.json (run bin/mkmanifest after editing)."""
HOOK_COMMITS = ["7fd0615"]

CHECKS = {
    "C10": dict(
        text="Coq theorems over a Flocq binary64 model of convert_integer (format table regenerated from the Rust source on every run) plus the string/number format tables; the model is tied to the code by evaluating model and public API on the whole boundary lattice (bit-exact doubles) each run; a direct exact-arithmetic evaluation of the property supplies failing inputs.",
        note="Trusted: Coq kernel/vm_compute, Flocq as semantics of f64, the four classical real axioms Flocq depends on, the syn-based table translator, the hand-written control-flow model (checked by correspondence, not proved equal to the Rust). C10_int_fits is stated for safe_bounds (integral doubles); non-integral bounds are covered by the lattice only.",
        technique="machine-checked proof (Coq/Flocq) + regenerated table + model/implementation correspondence",
        design="DESIGN 4 C10"),
    "C16": dict(
        text="proof: next_id monotone, id stability (under the checked break_cycles-locality hypothesis), closedness, re-add idempotence of add_type_with_name, one definition per name under name-freshness of definitions - for all histories of allocation-level operations, no axioms; clause 4 proved for the set of registered names only (partial), structure checked on the implementation; every real history of the run is replayed call by call in the Coq model.",
        note="3 known findings (C16-1, C16-3, C16-4): re-added definition names and titled sub-schemas duplicate definitions and change ids; state after a failed batch. C16-2 repaired by fix c22ef06 and mirrored in the model. C16_split_independent is _partial. Trusted: Coq kernel + vm_compute (no axioms), hand model Space.v tied per call to verif_dump, python trace derivation.",
        technique="Coq proof over an executable model of TypeSpace id allocation (converter and break_cycles universally quantified) + per-call replay of real histories in the model + direct evaluation of the four clauses on the public API",
        design="DESIGN 4 C16, notes/C16.md"),
    "C13": dict(
        text="proof - Coq theorems over executable models of convert_rust_extension/name_match and of semver 1.0.26's matcher, unbounded in versions, requirement ASTs, crate tables, paths and policies; the matcher is proved equal to an independent interval specification of Cargo's documented semantics on all release versions and on all versions for requirements written with full versions",
        note="models tied on every run to the real pipeline (2.9k-case decision table) and to the real semver crate (87k pairs); parsers (serde, VersionReq::parse) are inputs; the syn TypePath verdict for the path is an input too; no axioms; C13-F1 (unvalidated extension path) repaired by fix 31fad76, its witnesses are regression cases",
        technique="verified algorithm model + independent specification + correspondence + oracle from the text",
        design="DESIGN 4 C13, notes/C13.md"),
    "C15": dict(
        text="proof (Coq, no axioms) of the crate-spec parsers, output_path/set_extension, TypeAndImpls and the three option mappings onto TypeSpaceSettings for all strings / option records and all hash-map iteration orders; token-for-token equality of the three real front-ends established by execution on every run (correspondence), stated as such",
        note="C15_cli_accepts_valid_spec holds for every is_crate class accepting [A-Za-z0-9]; the check measures the class on the implementation each run (C15-1: digits rejected while is_alphabetic is used); macro agreement assumes distinct original crate names (C15-3 exhibited); macro map_type unusable (C15-2). Partial: the real front-end binaries agreeing token for token is established by execution, not by theorem.",
        technique="executable Gallina model + universally quantified theorems; section variables for semver parsing, Unicode class (measured on the implementation), hash orders; correspondence on 5k-15k spec strings, std set_extension, real setters; execution of builder / cargo-typify binary / import_types! expansion with syn-level comparison",
        design="DESIGN 4 C15, notes/C15.md"),
    "C19": dict(
        text="proof - Coq theorems for all type spaces, settings and entries over a model of the derive/visibility/impl surface whose literals are regenerated from type_entry.rs each run; model = emitted code on every type of the world (K4); the property's trait-bound assertions compiled by rustc for every type of the world (K6)",
        note="No axioms. `derivable`'s std/serde impl table and the control flow around the table are modelled (tied by K4/K6); user-requested derives are outside the claim.",
        technique="syn table translator + Gallina model + vm_compute-over-finite-kinds lifted by structural lemmas; translation validation of the emitted module against the model; compile-time bound assertions",
        design="DESIGN 4 C19, notes/C19.md"),
    "C07": dict(
        text="proof - unbounded: for every type-space graph (all node kinds of get_child_ids, any size, any root range) break_cycles terminates within 3*slots+4 steps per root without panicking, leaves no by-value cycle reachable from the roots, changes nothing when there is no such cycle, and otherwise only re-points slots that lay on an input cycle to a Box of their former target (Coq, no axioms).",
        note="The theorems are about the Coq model of cycles.rs/id_to_box, tied to the code on every run by full-output correspondence on 9k (quick) / 116k (thorough) synthetic spaces and on the pre-break_cycles snapshots of real schema histories, with the theorems' hypotheses and a proven acyclicity checker evaluated on the real data. Schema-level claims (no Box without a schema cycle; containment through native type parameters) are checked by oracle, not proved: two recorded findings C07-1, C07-2. Round trip of recursive values: C03.",
        technique="verified algorithm (DFS invariant proof in Coq) + full-output model/implementation correspondence + proven acyclicity checker on real IRs + independent oracle",
        design="DESIGN 4 C07, notes/C07.md"),
    "C17": dict(
        text="proof (Coq, no axioms) of has_impl soundness for every type space and both code variants outside exactly characterised classes, with refutation witnesses for the pinned code; projections (props/variants/inner/builder/names) proved on the model; model = code and the property itself checked on every run against syn and rustc over a compiled world",
        note="uses_* flag updates are not modelled: `uses_flags_cover` is a proven-sound checker evaluated on each real dump, plus a token-level check; F3 (serde_json for native defaults) and F4 (1-tuple variants) are recorded findings; F1 repaired by fix 0e25061, F2 by fix 2273521",
        technique="verified algorithm model + translation-validation style checkers (vm_compute on the real IR) + compiled trait-bound assertions",
        design="DESIGN 4 C17, notes/C17.md"),
    "C18": dict(
        text="Coq theorems (no axioms) over a model of the emitted builder template and of generate_serde_attr with abstract Rust values: build succeeds iff every Required field was set and the last argument of every set field converts; built fields are the converted last arguments or the builder defaults, which equal serde's missing-member defaults for every non-flattened field; first failing slot's message names the field; struct->builder->struct is the identity; Type::builder() path. Tied every run to compiled generated code: the real builders are driven through all subsets/sequences of setters (incl. failing conversions) and compared with the model instantiated on the dumped IR and, independently, with schema-level oracles and from_value of the same object.",
        note="Trusted: Coq kernel/vm_compute, the hand-written model (tied by correspondence + syn template tie, not proved equal to the Rust), the serde_derive missing-member rules as modelled in de_missing (validated by execution), tocoq/world/vh glue. External functions (Default, default fns, TryInto, flatten fallback, sanitize) are section variables without hypotheses, instantiated by tables measured on the same compiled module. Two recorded departures: flattened Required `extra` (F1) and flattened Option subtypes of anyOf structs (F2), both refuted in Coq with witnesses.",
        technique="machine-checked proof (Coq) + model/compiled-code correspondence + direct property evaluation on compiled builders",
        design="DESIGN 4 C18, notes/C18.md"),
    "C06": dict(
        text="proof (Coq 8.16.1, no axioms) on executable models of validate_value/output_value/default_fn: validation implies rendering succeeds for every type space, kind and value (unconditional after the repairs); shape, string, constraint and integer-range rejection for all inputs; typing of rendered defaults for scalar kinds under Option/Box/Vec/Set/arrays/tuples/newtypes; exactness for scalar kinds (partial for composite kinds)",
        note="typing for structs/maps/enums/natives and exactness for composite kinds rest on the per-run agreement of the model with rustc and serde on the compiled world, not on a proof; expr_typed/eval_expr are models; the regex engine is a parameter instantiated from the real regress crate; findings F7, F9-F12 recorded, F1-F6 and F8 repaired by fix commits",
        technique="verified algorithm model + K1 token-level correspondence with the real validate_value/output_value + K5 compiled-world direct evaluation with jsonschema oracle; finding classes decided by Coq class predicates on the dumped IR",
        design="DESIGN 4 C06, notes/C06.md"),
    "C12": dict(
        text="proof (Coq, no axioms) that every hash-ordered collection in typify's sources is consumed order-independently (the macro's impls list is a sorted set since fix 9ffca46: its Vec is a function of the set), that JSON object member order is erased by parsing and that OutputSpace depends on insertion order only within one key; inventory of hash/env/time/thread/rand sites regenerated from the sources and re-proved covered on every run",
        note="partial: hash seeding of the real runtime is covered by the inventory translator + multi-process comparison (8 fresh processes x 8 encodings per case), not by a theorem; dependencies' internal hash use is covered by the byte comparison only; macro front-end emulated in quick tier, real macro expansion in thorough tier",
        technique="Coq theorems over an executable model with an explicit enumeration-order argument per hash site (Permutation-invariance) + syn inventory translator + multi-process byte comparison",
        design="DESIGN 4 C12, notes/C12.md"),
    "C11": dict(
        text="proof (for every type space, every string-wired type and every string) on the model: FromStr = Deserialize in verdict and value, TryFrom x3 = FromStr, Display = serialised string outside the recorded chrono class, untagged enums try variants in declaration order on both sides; correspondence to compiled code on the explored world",
        note="no axioms; hypotheses wf_conv (checked true on every explored dump) and A1 (native FromStr = Deserialize, validated per run against the compiled uuid/chrono/std::net); Display theorem excludes one recorded finding class (chrono DateTime Display, C11-F2) with a refutation witness replayed on the real code; C11-F1 (brace raw names) repaired by fix a0ebad5",
        technique="Coq proof over an executable model of the FromStr/TryFrom/Display templates and of serde's string (de)serialisation (Algo/StrConv.v), tied each run to compiled generated code by a per-probe correspondence (parse, try_from x3, deserialize, Display, chosen variant, emitted impls) with regex verdicts from the real regress crate; plus direct evaluation of the property on the compiled code",
        design="DESIGN 4 C11, notes/C11.md"),
    "C08": dict(
        text="proof: for every Unicode string and both cases, sanitize yields an identifier accepted by syn and recase/variant renames denote exactly the original JSON name; enum variants, struct fields and the definitions of one call are pairwise distinct or generation fails (panic resp. InvalidSchema, the latter exactly on collisions) - Coq, no axioms, for every character classification satisfying ClassesOK, which is audited exhaustively over all 1,112,064 scalars each run. Identifiers that differ as scalar sequences but are NFC-equal (C08-F4) are recorded as a finding.",
        note="model of heck 0.5.0 `transform` and util.rs `sanitize` tied by correspondence on ~18k (quick) / ~147k (thorough) strings and ~16k/~90k pipeline schemas; syn acceptance modelled and compared with real syn; NFC normalisation by rustc outside the model. C08-F1/F3 fixed by 5896b59, C08-F2 by c22ef06; their witnesses are must-reject regression cases. Type names of definitions colliding with derived sub-type names or across calls are C16's scope.",
        technique="Coq verified algorithm (parametric in Unicode classes) + exhaustive class-hypothesis audit + model/implementation correspondence + direct pipeline oracle",
        design="DESIGN 4 C08, notes/C08.md"),
}

NOT_YET = "not yet built in this round (planned, see DESIGN.md section 7)"
ALL = ["C%02d" % i for i in range(1, 20)]
