"""Translators from JSON-level data to Gallina terms (trusted glue).

  ustr(s)            python str            -> ustring  ([104; 105]%N)
  cjson(v)           python JSON value     -> Base.Json.json
  cschema(s)         JSON Schema (dict/bool) -> Spec.Schema.schema, or raises Unsupported
  cdefs(d)           definitions map       -> Spec.Schema.defs
  cspace(dump)       `verif_dump` output   -> IR.TypeIR.space
  unshow_json(text)  output of Coq `show_json` -> python JSON value (floats as Fraction)

Numbers follow serde_json: an int literal within u64/i64 is JInt, everything
else is the exact rational value of the nearest double (JFlt).
"""
import json
from fractions import Fraction


class Unsupported(Exception):
    pass


def ustr(s):
    if s == "":
        return "(@nil N)"
    return "[" + "; ".join(str(ord(c)) for c in s) + "]%N"


def copt(x, f):
    return "None" if x is None else "(Some %s)" % f(x)


def clist(xs, f, ty=None):
    xs = list(xs)
    if not xs:
        return "(@nil %s)" % ty if ty else "[]"
    return "[" + "; ".join(f(x) for x in xs) + "]"


def cq(x):
    fr = Fraction(x) if not isinstance(x, Fraction) else x
    return "(Qmake (%d)%%Z %d%%positive)" % (fr.numerator, fr.denominator)


def cN(n):
    return "%d%%N" % int(n)


def cbool(b):
    return "true" if b else "false"


def cjson(v):
    if v is None:
        return "JNull"
    if isinstance(v, bool):
        return "(JBool %s)" % cbool(v)
    if isinstance(v, int):
        if -2**63 <= v < 2**64:
            return "(JInt (%d)%%Z)" % v
        return "(JFlt %s)" % cq(Fraction(float(v)))
    if isinstance(v, float):
        return "(JFlt %s)" % cq(Fraction(v))
    if isinstance(v, Fraction):
        return "(JFlt %s)" % cq(v)
    if isinstance(v, str):
        return "(JStr %s)" % ustr(v)
    if isinstance(v, list):
        return "(JArr %s)" % clist(v, cjson, "json")
    if isinstance(v, dict):
        return "(JObj %s)" % clist(sorted(v.items()), lambda kv: "(%s, %s)" % (ustr(kv[0]), cjson(kv[1])),
                                   "(ustring * json)")
    raise TypeError(v)


ITYPES = {"null": "TNull", "boolean": "TBoolean", "integer": "TInteger", "number": "TNumber",
          "string": "TString", "array": "TArray", "object": "TObject"}

KNOWN_KEYS = {
    "type", "format", "enum", "const", "multipleOf", "maximum", "exclusiveMaximum", "minimum", "exclusiveMinimum",
    "maxLength", "minLength", "pattern", "items", "additionalItems", "minItems", "maxItems", "uniqueItems",
    "properties", "required", "additionalProperties", "minProperties", "maxProperties",
    "allOf", "anyOf", "oneOf", "not", "$ref", "default", "title",
    # annotations without semantics
    "description", "$schema", "$id", "examples", "deprecated", "readOnly", "writeOnly", "$comment", "definitions",
    "$defs",
}


def cschema(s):
    if isinstance(s, bool):
        return "(SBool %s)" % cbool(s)
    if not isinstance(s, dict):
        raise Unsupported("schema is not an object")
    for k in s:
        if k not in KNOWN_KEYS:
            raise Unsupported("keyword " + k)
    ty = s.get("type")
    if ty is None:
        cty = "None"
    else:
        tys = ty if isinstance(ty, list) else [ty]
        cty = "(Some %s)" % clist(tys, lambda t: ITYPES[t], "itype")
    items = s.get("items")
    if items is None:
        ik, citems = "ItemsAbsent", "(@nil schema)"
    elif isinstance(items, list):
        ik, citems = "ItemsTuple", clist(items, cschema, "schema")
    else:
        ik, citems = "ItemsSingle", "[%s]" % cschema(items)
    ref = s.get("$ref")
    if ref is not None:
        for pre in ("#/definitions/", "#/$defs/"):
            if ref.startswith(pre):
                ref = ref[len(pre):]
                break
        else:
            if ref != "#":
                raise Unsupported("ref " + ref)
    sl = lambda k: copt(s.get(k), lambda l: clist(l, cschema, "schema"))
    nv = "(mkNumv %s %s %s %s %s)" % tuple(copt(s.get(k), cq) for k in (
        "multipleOf", "maximum", "exclusiveMaximum", "minimum", "exclusiveMinimum"))
    sv = "(mkStrv %s %s %s)" % (copt(s.get("maxLength"), cN), copt(s.get("minLength"), cN),
                                copt(s.get("pattern"), ustr))
    parts = [
        cty, copt(s.get("format"), ustr),
        copt(s.get("enum"), lambda l: clist(l, cjson, "json")),
        "(Some %s)" % cjson(s["const"]) if "const" in s else "None",
        nv, sv, ik, citems,
        copt(s.get("additionalItems"), cschema),
        copt(s.get("minItems"), cN), copt(s.get("maxItems"), cN), cbool(bool(s.get("uniqueItems", False))),
        clist(sorted(s.get("properties", {}).items()), lambda kv: "(%s, %s)" % (ustr(kv[0]), cschema(kv[1])),
              "(ustring * schema)"),
        clist(sorted(set(s.get("required", []))), ustr, "ustring"),
        copt(s.get("additionalProperties"), cschema),
        copt(s.get("minProperties"), cN), copt(s.get("maxProperties"), cN),
        sl("allOf"), sl("anyOf"), sl("oneOf"),
        copt(s.get("not"), cschema),
        copt(ref, ustr),
        "(Some %s)" % cjson(s["default"]) if "default" in s else "None",
        copt(s.get("title"), ustr),
    ]
    return "(SObj " + " ".join(parts) + ")"


def cdefs(d):
    return clist(sorted(d.items()), lambda kv: "(%s, %s)" % (ustr(kv[0]), cschema(kv[1])), "(ustring * schema)")


# ---------------------------------------------------------------- IR dump
def cprop(p):
    rn = p["rename"]
    crn = {"none": "RNone", "flatten": "RFlatten"}.get(rn["k"]) or "(RRename %s)" % ustr(rn["s"])
    st = p["state"]
    cst = {"required": "PRequired", "optional": "POptional"}.get(st["k"]) or "(PDefault %s)" % cjson(st["v"])
    return "(mkProp %s %s %s %s)" % (ustr(p["name"]), crn, cst, cN(p["type_id"]))


def cvariant(v):
    d = v["details"]
    k = d["k"]
    if k == "simple":
        cd = "VSimple"
    elif k == "item":
        cd = "(VItem %s)" % cN(d["id"])
    elif k == "tuple":
        cd = "(VTuple %s)" % clist(d["ids"], cN, "id")
    else:
        cd = "(VStruct %s)" % clist(d["props"], cprop, "prop")
    return "(mkVariant %s %s %s)" % (ustr(v["raw"]), ustr(v["ident"] or ""), cd)


def cdefault(d):
    return "None" if d is None else "(Some %s)" % cjson(d["v"])


TRAITS = {"FromStr": "TFromStr", "Display": "TDisplay", "Default": "TDefault"}


def cdetails(e):
    k = e["kind"]
    if k == "enum":
        t = e["tag"]
        ct = {"external": "TagExternal", "untagged": "TagUntagged"}.get(t["k"])
        if t["k"] == "internal":
            ct = "(TagInternal %s)" % ustr(t["tag"])
        elif t["k"] == "adjacent":
            ct = "(TagAdjacent %s %s)" % (ustr(t["tag"]), ustr(t["content"]))
        return "(DEnum %s %s %s %s %s %s)" % (
            ustr(e["name"]), cdefault(e["default"]), ct, clist(e["variants"], cvariant, "variant"),
            cbool(e["deny"]), clist(e["bespoke"], str, "bespoke"))
    if k == "struct":
        return "(DStruct %s %s %s %s)" % (ustr(e["name"]), cdefault(e["default"]),
                                          clist(e["props"], cprop, "prop"), cbool(e["deny"]))
    if k == "newtype":
        c = e["constraints"]
        if c["k"] == "none":
            cc = "CNone"
        elif c["k"] == "enum":
            cc = "(CEnum %s)" % clist(c["values"], cjson, "json")
        elif c["k"] == "deny":
            cc = "(CDeny %s)" % clist(c["values"], cjson, "json")
        else:
            cc = "(CString %s %s %s)" % (copt(c["max"], cN), copt(c["min"], cN), copt(c["pattern"], ustr))
        return "(DNewtype %s %s %s %s)" % (ustr(e["name"]), cdefault(e["default"]), cN(e["type_id"]), cc)
    if k == "native":
        return "(DNative %s %s %s)" % (ustr(e["type_name"]), clist(e["impls"], lambda t: TRAITS[t], "trait"),
                                       clist(e["params"], cN, "id"))
    if k in ("option", "box", "vec", "set", "reference"):
        return "(D%s %s)" % (k.capitalize(), cN(e["id"]))
    if k == "map":
        return "(DMap %s %s)" % (cN(e["key"]), cN(e["value"]))
    if k == "array":
        return "(DArray %s %s)" % (cN(e["id"]), cN(e["len"]))
    if k == "tuple":
        return "(DTuple %s)" % clist(e["ids"], cN, "id")
    if k == "unit":
        return "DUnit"
    if k == "boolean":
        return "DBoolean"
    if k == "integer":
        return "(DInteger %s)" % ustr(e["name"])
    if k == "float":
        return "(DFloat %s)" % ustr(e["name"])
    if k == "string":
        return "DString"
    if k == "json":
        return "DJsonValue"
    raise TypeError(k)


def centry(e):
    return "(mkEntry %s %s)" % (cdetails(e), clist(e.get("extra_derives", []), ustr, "ustring"))


def cspace(dump):
    ents = sorted(((int(k), v) for k, v in dump["entries"].items()))
    st = dump["settings"]
    cset = "(mkSettings %s %s %s %s)" % (copt(st["type_mod"], ustr), clist(st["extra_derives"], ustr, "ustring"),
                                         cbool(st["struct_builder"]), ustr(st["map_type"]))
    u = dump["uses"]
    return "(mkSpace %s %s %s %s %s %s %s %s)" % (
        clist(ents, lambda kv: "(%s, %s)" % (cN(kv[0]), centry(kv[1])), "(id * entry)"),
        cN(dump["next_id"]), cset, cbool(u["chrono"]), cbool(u["uuid"]), cbool(u["serde_json"]), cbool(u["regress"]),
        clist(dump["defaults"], ustr, "ustring"))


COQ_HEADER = ("From Coq Require Import String ZArith NArith QArith List Bool.\n"
              "From Typify Require Import Base.Json Spec.Schema IR.TypeIR.\n"
              "Import ListNotations.\nClose Scope Q_scope.\n")


# ---------------------------------------------------------------- back from Coq
def unshow_json(text):
    """Parse the output of Coq's show_json; {"$q":[n,d]} becomes a Fraction."""
    def hook(o):
        if set(o.keys()) == {"$q"}:
            return Fraction(o["$q"][0], o["$q"][1])
        return o
    return json.loads(text, object_hook=hook)


def canon(v):
    """Canonical form for comparing JSON values numerically (ints stay ints,
    floats -> Fraction of the double)."""
    if isinstance(v, bool) or v is None or isinstance(v, (str, int, Fraction)):
        return v
    if isinstance(v, float):
        return Fraction(v)
    if isinstance(v, list):
        return [canon(x) for x in v]
    if isinstance(v, dict):
        return {k: canon(x) for k, x in v.items()}
    raise TypeError(v)
