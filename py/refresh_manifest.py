"""Developer tool: refresh py/manifest_src.py texts from the builders' notes (section '## MANIFEST…' of notes/Cxx.md),
then re-append the converter-fragment sentences the builders' notes do not carry.  Run bin/mkmanifest afterwards."""
import json
import os
import re
import sys

ROOT = os.path.dirname(os.path.dirname(os.path.abspath(__file__)))
SRC = os.path.join(ROOT, "py", "manifest_src.py")

REPL = [('—', '-'), ('⇒', '=>'), ('∀', 'for-all '), ('×', 'x'), ('σ', 'settings'), ('·', '*'), ('∩', '/\\'), ('→', '->'),
        ('\\"', '"'), ('⊆', 'subset-of'), ('≈', '~'), ('∪', 'u'), ('∈', 'in'), ('≤', '<='), ('≥', '>='), ('≠', '!='), ('∧', '/\\'), ('¬', 'not ')]

FRAGMENT = {
    "C03": "; on the converter fragment (Algo/Convert.v, tied by K3 exact term equality to the real converter) the schema quantifier is closed: C03F_convert_rt_simple / C03F_convert_rt_set / C03F_fragment_roundtrip / C03F_fragment_contains hold for EVERY type of EVERY fragment document, no exploration (side condition no_untagged where the fragment produces untagged enums); the flattened-union structs of anyOf are modelled in IR/Serde.v (de_flats) and finding F4 is explained on the model by Props/Flatten.v.",
    "C14": "; on the converter fragment under settings (Algo/ConvertS.v: replace / convert / patch inside the converter model, tied to the real converter by K3 exact term equality on (document, settings) pairs) the schema quantifier is closed: C14F_convert_everywhere (+ _nullable, _first_match, _ignores_annotations), C14F_replace_everywhere / _use_sites / _ignores_schema, C14F_patch_everywhere / _old_name_gone hold for EVERY fragment document and settings.",
    "C11": ": FromStr = Deserialize in verdict and value, TryFrom x3 = FromStr, Display = the serialised string outside the recorded chrono class (keyed to exactly DateTime<Utc>), untagged enums try variants in declaration order on both sides; string formats and natives of the probe world are taken from the current convert.rs, and the native hypotheses (A1, Display = ser) are obliged per native type that appears in any dump of the run.",
    "C02": "; the run also checks that no fragment document has a name-reuse event (hook take_name_reuse) and ties a titled-root extension of the model (Algo/ConvertRoot.v, no theorem yet) by K3.",
}


def norm(s):
    return re.sub(r'\s+', ' ', s).strip()


def main():
    src = open(SRC).read()

    def setfield(prop, field, val):
        nonlocal src
        m = re.search(r'("%s": dict\(.*?)(\n    "C\d\d": dict\(|\n}\n)' % prop, src, re.S)
        blk = m.group(1)
        pat = re.compile(r'(\n        %s=)("(?:[^"\\]|\\.)*")' % field)
        if not pat.search(blk):
            return
        nb = pat.sub(lambda mm: mm.group(1) + json.dumps(norm(val), ensure_ascii=False), blk, count=1)
        src = src.replace(blk, nb)

    def get(prop, field):
        m = re.search(r'"%s": dict\(.*?\n        %s="((?:[^"\\]|\\.)*)"' % (prop, field), src, re.S)
        return json.loads('"' + m.group(1) + '"')

    n = 0
    for i in range(1, 20):
        p = "C%02d" % i
        f = os.path.join(ROOT, "notes", p + ".md")
        if not os.path.exists(f):
            continue
        txt = open(f).read()
        ms = list(re.finditer(r'^## MANIFEST[^\n]*\n(.*?)(?=^## |\Z)', txt, re.S | re.M))
        if not ms:
            continue
        sec = ms[-1].group(1)
        keys = [("level_claimed.text", "text"), ("level_note", "note"), ("technique", "technique")]
        pos = sorted((sec.find('`%s`' % k), k, fld) for k, fld in keys if sec.find('`%s`' % k) >= 0)
        for idx, (a, k, fld) in enumerate(pos):
            b = pos[idx + 1][0] if idx + 1 < len(pos) else len(sec)
            chunk = sec[a:b]
            i1, j1 = chunk.find('"'), chunk.rfind('"')
            if i1 < 0 or j1 <= i1:
                continue
            val = norm(chunk[i1 + 1:j1])
            for x, y in REPL:
                val = val.replace(x, y)
            if len(val) < 40:
                continue
            setfield(p, fld, val)
            n += 1
    for p, extra in FRAGMENT.items():
        t = get(p, "text")
        key = extra[2:40]
        if key not in t:
            setfield(p, "text", t.rstrip(". ") + extra)
    open(SRC, "w").write(src)
    print("fields refreshed:", n)


if __name__ == "__main__":
    main()
