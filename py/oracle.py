"""Front end of the validity oracle (see oracle_main.py)."""
import json
import os
import subprocess

VTPY = "/opt/veriftools/pyvenv/bin/python"


def classify(batches):
    """batches: list of (doc, [(schema, instance), ...]) -> list of list of bool|None"""
    inp = "".join(json.dumps({"doc": d, "queries": [{"schema": s, "instance": v} for s, v in qs]}) + "\n"
                  for d, qs in batches)
    p = subprocess.run([VTPY, os.path.join(os.path.dirname(os.path.abspath(__file__)), "oracle_main.py")],
                       input=inp, capture_output=True, text=True, timeout=1800)
    if p.returncode != 0:
        raise RuntimeError("oracle failed: " + p.stderr[-2000:])
    res = [json.loads(l) for l in p.stdout.splitlines() if l.strip()]
    if len(res) != len(batches):
        raise RuntimeError("oracle: %d answers for %d batches" % (len(res), len(batches)))
    return res
