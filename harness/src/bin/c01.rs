//! C01 harness.  One JSON case per stdin line, one JSON result per line.
//!   {"op":"classes","chars":[scalar..]}  Unicode class rows for these scalars (closed under
//!        to_uppercase / to_lowercase): [scalar, flags, upper, lower] with flags bit 0 XID_Start,
//!        1 XID_Continue, 2 alphanumeric, 3 lowercase, 4 uppercase - the table `Sanitize.table_classes`
//!        is instantiated with, so that `RustStatic.wf_module` can decide identifier validity
//!        and default-function names (heck snake case) on the real dumps.
//!   {"op":"idents","names":[str..]}      syn's verdict on each string: parse_str::<syn::Ident>
//!   {"op":"snake","names":[str..]}       typify's sanitize(name, Snake) (default function names)
//!   {"op":"pascal","names":[str..]}      typify's sanitize(name, Pascal) (type names of definition keys / titles)
//! Everything else the check needs comes from `vh gen`.
use serde_json::{json, Value};
use unicode_ident::{is_xid_continue, is_xid_start};

fn row(c: char) -> Value {
    let flags = (is_xid_start(c) as u32)
        | (is_xid_continue(c) as u32) << 1
        | (c.is_alphanumeric() as u32) << 2
        | (c.is_lowercase() as u32) << 3
        | (c.is_uppercase() as u32) << 4;
    json!([c as u32, flags, c.to_uppercase().map(|x| x as u32).collect::<Vec<_>>(),
           c.to_lowercase().map(|x| x as u32).collect::<Vec<_>>()])
}

fn classes(case: &Value) -> Value {
    let mut set = std::collections::BTreeSet::new();
    for x in case["chars"].as_array().unwrap() {
        let c = char::from_u32(x.as_u64().unwrap() as u32).expect("scalar value");
        set.insert(c);
        set.extend(c.to_uppercase());
        set.extend(c.to_lowercase());
    }
    json!({"r":"ok","rows": set.into_iter().map(row).collect::<Vec<_>>()})
}

fn names(case: &Value) -> Vec<String> {
    case["names"].as_array().map(|a| a.iter().map(|x| x.as_str().unwrap_or("").to_string()).collect()).unwrap_or_default()
}

fn main() {
    vh::run_lines(|case| match case["op"].as_str().unwrap_or("") {
        "classes" => classes(case),
        "idents" => json!({"r":"ok","ok": names(case).iter().map(|s| syn::parse_str::<syn::Ident>(s).is_ok()).collect::<Vec<_>>()}),
        "snake" => json!({"r":"ok","out": names(case).iter().map(|s| typify_impl::verif::sanitize(s, false)).collect::<Vec<_>>()}),
        "pascal" => json!({"r":"ok","out": names(case).iter().map(|s| typify_impl::verif::sanitize(s, true)).collect::<Vec<_>>()}),
        _ => json!({"r":"badop"}),
    })
}
