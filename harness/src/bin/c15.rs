//! `c15` — harness binary of property C15 (front-ends agree).
//! JSON lines in, JSON lines out (same order).  Ops:
//!   {"op":"spec","s":..}      real `CrateSpec::from_str` (hook) + the semver verdict of every
//!                             suffix that follows an '@' or '=' (table for the Coq section variable)
//!   {"op":"chars","cps":[..]} `char::is_alphabetic` / `is_alphanumeric` (Coq section variables)
//!   {"op":"setext","p":..}    `PathBuf::set_extension("rs")` (std, models output_path's default)
//!   {"op":"cmp","cli":text,"builder":tokens}   CLI output vs builder tokens, item by item
//!   {"op":"expanded","path":file,"cases":[{"id":..,"schema":path}]}  modules of a -Zunpretty=expanded dump
use std::path::PathBuf;

use proc_macro2::{Delimiter, Literal, TokenStream, TokenTree};
use quote::ToTokens;
use serde_json::{json, Value};
use typify_impl::CrateVers;

fn op_spec(v: &Value) -> Value {
    let s = v["s"].as_str().unwrap_or("");
    let mut vtab = serde_json::Map::new();
    let mut add = |sub: &str| {
        let d = CrateVers::parse(sub).map(|x| format!("{:?}", x));
        vtab.insert(sub.to_string(), json!(d));
    };
    add(s);
    for (i, c) in s.char_indices() {
        if c == '@' || c == '=' {
            add(&s[i + c.len_utf8()..]);
        }
    }
    let r = match cargo_typify::verif_parse_crate_spec(s) {
        Some((name, ver, rename)) => json!({"r":"some","name":name,"ver":ver,"rename":rename}),
        None => json!({"r":"none"}),
    };
    json!({"res": r, "vtab": vtab})
}

fn op_chars(v: &Value) -> Value {
    let cps: Vec<u32> = v["cps"].as_array().unwrap().iter().map(|x| x.as_u64().unwrap() as u32).collect();
    let al: Vec<bool> = cps.iter().map(|c| char::from_u32(*c).map_or(false, |c| c.is_alphabetic())).collect();
    let an: Vec<bool> = cps.iter().map(|c| char::from_u32(*c).map_or(false, |c| c.is_alphanumeric())).collect();
    json!({"alphabetic": al, "alphanumeric": an})
}

fn op_setext(v: &Value) -> Value {
    let mut p = PathBuf::from(v["p"].as_str().unwrap());
    let ok = p.set_extension("rs");
    json!({"ok": ok, "p": p.to_string_lossy()})
}

/// Canonical flat token text: groups flattened with their delimiters, every
/// string literal re-emitted in cooked form (so `r" x"` == `" x"`, and `/// x`
/// == `#[doc = " x"]` after syn parsing).
fn flat(ts: TokenStream, out: &mut Vec<String>) {
    for tt in ts {
        match tt {
            TokenTree::Group(g) => {
                let (o, c) = match g.delimiter() {
                    Delimiter::Parenthesis => ("(", ")"),
                    Delimiter::Brace => ("{", "}"),
                    Delimiter::Bracket => ("[", "]"),
                    Delimiter::None => ("", ""),
                };
                if !o.is_empty() {
                    out.push(o.to_string());
                }
                flat(g.stream(), out);
                if !c.is_empty() {
                    out.push(c.to_string());
                }
            }
            TokenTree::Literal(l) => {
                let txt = l.to_string();
                match syn::parse_str::<syn::Lit>(&txt) {
                    Ok(syn::Lit::Str(s)) => out.push(Literal::string(&s.value()).to_string()),
                    _ => out.push(txt),
                }
            }
            TokenTree::Punct(p) => out.push(p.as_char().to_string()),
            TokenTree::Ident(i) => out.push(i.to_string()),
        }
    }
}

/// Token-level normalisation applied BEFORE syn parsing ("up to formatting"):
/// inside attribute arguments (`#[...]`, `#![...]`) and macro-call arguments
/// (`name!(...)`), which syn keeps as raw token streams, a trailing comma at the
/// end of a group is dropped (rustfmt adds them when it breaks a list).
/// Everywhere else trailing commas are left to the AST comparison (so `(T,)`
/// and `(T)` stay different).  String literals get `subst` applied (module
/// names that derive macros embed through module_path!()).
fn norm(ts: TokenStream, inside: bool, subst: &[(String, String)]) -> TokenStream {
    let toks: Vec<TokenTree> = ts.into_iter().collect();
    let mut out: Vec<TokenTree> = vec![];
    let n = toks.len();
    for (i, tt) in toks.iter().enumerate() {
        match tt {
            TokenTree::Group(g) => {
                // attribute?  `#` [`!`] `[..]`   macro call?  ident `!` group
                let prev = if i > 0 { Some(&toks[i - 1]) } else { None };
                let prev2 = if i > 1 { Some(&toks[i - 2]) } else { None };
                let is_p = |t: Option<&TokenTree>, c: char| matches!(t, Some(TokenTree::Punct(p)) if p.as_char() == c);
                let attr = g.delimiter() == Delimiter::Bracket
                    && (is_p(prev, '#') || (is_p(prev, '!') && is_p(prev2, '#')));
                let mac = is_p(prev, '!') && matches!(prev2, Some(TokenTree::Ident(_)));
                let inner_inside = inside || attr || mac;
                let mut inner: Vec<TokenTree> = norm(g.stream(), inner_inside, subst).into_iter().collect();
                if inside {
                    if let Some(TokenTree::Punct(p)) = inner.last() {
                        if p.as_char() == ',' {
                            inner.pop();
                        }
                    }
                }
                let mut ng = proc_macro2::Group::new(g.delimiter(), inner.into_iter().collect());
                ng.set_span(g.span());
                out.push(TokenTree::Group(ng));
            }
            TokenTree::Literal(l) if !subst.is_empty() => {
                let txt = l.to_string();
                match syn::parse_str::<syn::Lit>(&txt) {
                    Ok(syn::Lit::Str(sv)) => {
                        let mut v = sv.value();
                        for (a, b) in subst {
                            v = v.replace(a.as_str(), b.as_str());
                        }
                        out.push(TokenTree::Literal(Literal::string(&v)));
                    }
                    _ => out.push(tt.clone()),
                }
            }
            _ => out.push(tt.clone()),
        }
        let _ = n;
    }
    out.into_iter().collect()
}

fn parse_norm(text: &str, subst: &[(String, String)]) -> Result<syn::File, String> {
    let ts: TokenStream = text.parse().map_err(|e: proc_macro2::LexError| e.to_string())?;
    syn::parse2::<syn::File>(norm(ts, false, subst)).map_err(|e| e.to_string())
}

fn item_key(it: &syn::Item) -> Vec<String> {
    let mut v = vec![];
    flat(it.to_token_stream(), &mut v);
    v
}

fn is_allow_header(attrs: &[syn::Attribute]) -> (bool, Vec<String>) {
    let txt: Vec<String> = attrs.iter().map(|a| a.to_token_stream().to_string().replace(' ', "")).collect();
    let want = [
        "#![allow(clippy::redundant_closure_call)]",
        "#![allow(clippy::needless_lifetimes)]",
        "#![allow(clippy::match_single_binding)]",
        "#![allow(clippy::clone_on_copy)]",
    ];
    (txt.iter().map(String::as_str).eq(want.iter().copied()), txt)
}

fn describe(it: &syn::Item) -> String {
    let s = it.to_token_stream().to_string();
    // skip the doc attributes for the short description
    let cut = s.rfind("] pub ").map(|i| i + 2).unwrap_or(0);
    s[cut..].chars().take(160).collect()
}

/// Formatting-free normal form of one item: prettyplease's rendering of the
/// syn AST (doc attributes, raw strings, trailing commas, line breaks vanish;
/// `(T,)` vs `(T)` and every token that reaches the AST stay).
fn pretty(it: &syn::Item) -> String {
    let f = syn::File { shebang: None, attrs: vec![], items: vec![it.clone()] };
    prettyplease::unparse(&f)
}

/// Compare two item lists; returns (equal, first difference description).
fn cmp_items(a: &[syn::Item], b: &[syn::Item]) -> (bool, Value) {
    let n = a.len().min(b.len());
    for i in 0..n {
        let ka = item_key(&a[i]);
        let kb = item_key(&b[i]);
        if ka != kb {
            let pa = pretty(&a[i]);
            let pb = pretty(&b[i]);
            if pa == pb {
                continue;
            }
            let la: Vec<&str> = pa.lines().collect();
            let lb: Vec<&str> = pb.lines().collect();
            let j = la.iter().zip(lb.iter()).position(|(x, y)| x != y).unwrap_or(la.len().min(lb.len()));
            let lo = j.saturating_sub(2);
            return (
                false,
                json!({"item": i, "a": describe(&a[i]), "b": describe(&b[i]),
                   "a_lines": la[lo..(j + 3).min(la.len())].join("\n"),
                   "b_lines": lb[lo..(j + 3).min(lb.len())].join("\n")}),
            );
        }
    }
    if a.len() != b.len() {
        return (false, json!({"len_a": a.len(), "len_b": b.len()}));
    }
    (true, Value::Null)
}

fn op_cmp(v: &Value) -> Value {
    let cli = match parse_norm(v["cli"].as_str().unwrap_or(""), &[]) {
        Ok(f) => f,
        Err(e) => return json!({"r":"cli-unparsable","msg":e}),
    };
    let bld = match parse_norm(v["builder"].as_str().unwrap_or(""), &[]) {
        Ok(f) => f,
        Err(e) => return json!({"r":"builder-unparsable","msg":e}),
    };
    let (hdr, hdr_txt) = is_allow_header(&cli.attrs);
    let (eq, diff) = cmp_items(&cli.items, &bld.items);
    json!({"r":"ok","header_ok":hdr,"header":hdr_txt,"builder_attrs":bld.attrs.len(),
           "equal":eq,"diff":diff,"n_items":cli.items.len()})
}

fn module_items<'a>(f: &'a syn::File, name: &str) -> Option<(&'a [syn::Attribute], &'a [syn::Item])> {
    for it in &f.items {
        if let syn::Item::Mod(m) = it {
            if m.ident == name {
                if let Some((_, items)) = &m.content {
                    return Some((&m.attrs, items));
                }
            }
        }
    }
    None
}

/// The macro's anchor `const _: &str = include_str!(path);` after expansion is
/// `const _: &str = "<file contents>";`.  Returns (items without anchors, anchor strings).
fn strip_anchor(items: &[syn::Item]) -> (Vec<syn::Item>, Vec<String>) {
    let mut out = vec![];
    let mut anchors = vec![];
    for it in items {
        if let syn::Item::Const(c) = it {
            let ty = c.ty.to_token_stream().to_string().replace(' ', "");
            if c.ident == "_" && ty == "&str" {
                if let syn::Expr::Lit(syn::ExprLit { lit: syn::Lit::Str(s), .. }) = &*c.expr {
                    anchors.push(s.value());
                    continue;
                }
            }
        }
        out.push(it.clone());
    }
    (out, anchors)
}

fn op_expanded(v: &Value) -> Value {
    let text = match std::fs::read_to_string(v["path"].as_str().unwrap()) {
        Ok(t) => t,
        Err(e) => return json!({"r":"noread","msg":e.to_string()}),
    };
    let mut subst = vec![];
    for c in v["cases"].as_array().unwrap() {
        let id = c["id"].as_str().unwrap();
        for k in ["macro", "builder", "cli"] {
            subst.push((format!("::{}_{}::", id, k), format!("::{}_X::", id)));
        }
    }
    let f = match parse_norm(&text, &subst) {
        Ok(f) => f,
        Err(e) => return json!({"r":"unparsable","msg":e}),
    };
    let mut res = vec![];
    for c in v["cases"].as_array().unwrap() {
        let id = c["id"].as_str().unwrap();
        let mac = module_items(&f, &format!("{}_macro", id));
        let bld = module_items(&f, &format!("{}_builder", id));
        let cli = module_items(&f, &format!("{}_cli", id));
        let (Some((_, mac)), Some((_, bld))) = (mac, bld) else {
            res.push(json!({"id":id,"r":"missing-module","macro":mac.is_some(),"builder":bld.is_some()}));
            continue;
        };
        let (mac_items, anchors) = strip_anchor(mac);
        let anchor_ok = match c["schema"].as_str() {
            Some(p) => {
                let want = std::fs::read_to_string(p).unwrap_or_default();
                anchors.len() == 1 && anchors[0] == want
            }
            None => anchors.len() == 1,
        };
        // the anchor must be the LAST item of the macro module
        let anchor_last = matches!(mac.last(), Some(syn::Item::Const(c)) if c.ident == "_");
        let (eq_mb, d_mb) = cmp_items(&mac_items, bld);
        let mut o = json!({"id":id,"r":"ok","macro_eq_builder":eq_mb,"diff_mb":d_mb,"anchor_ok":anchor_ok && anchor_last,
                           "n_items":bld.len()});
        if let Some((attrs, cli)) = cli {
            let (hdr, _) = is_allow_header(attrs);
            let (eq_cb, d_cb) = cmp_items(cli, bld);
            o["cli_eq_builder"] = json!(eq_cb);
            o["diff_cb"] = d_cb;
            o["cli_header_ok"] = json!(hdr);
        }
        res.push(o);
    }
    json!({"r":"ok","cases":res})
}

/// {"op":"modtext","path":file,"module":name}: flat token text of one module
/// of an expanded dump (used to compare repeated expansions of one invocation).
fn op_modtext(v: &Value) -> Value {
    let text = match std::fs::read_to_string(v["path"].as_str().unwrap()) {
        Ok(t) => t,
        Err(e) => return json!({"r":"noread","msg":e.to_string()}),
    };
    let f = match syn::parse_file(&text) {
        Ok(f) => f,
        Err(e) => return json!({"r":"unparsable","msg":e.to_string()}),
    };
    let mut out = vec![];
    for m in v["modules"].as_array().unwrap() {
        let name = m.as_str().unwrap();
        match module_items(&f, name) {
            Some((_, items)) => {
                let (items, _) = strip_anchor(items);
                let mut toks = vec![];
                for it in &items {
                    toks.extend(item_key(it));
                }
                out.push(json!({"module":name,"text":toks.join(" ")}));
            }
            None => out.push(json!({"module":name,"text":null})),
        }
    }
    json!({"r":"ok","modules":out})
}

fn main() {
    vh::run_lines(|v| match v["op"].as_str().unwrap_or("") {
        "spec" => op_spec(v),
        "chars" => op_chars(v),
        "setext" => op_setext(v),
        "cmp" => op_cmp(v),
        "expanded" => op_expanded(v),
        "modtext" => op_modtext(v),
        _ => json!({"r":"badop"}),
    });
}
