//! C08 harness: identifier sanitisation.
//!
//! JSON lines in, JSON lines out.  Strings travel as arrays of Unicode scalar
//! values so that no escaping layer can blur them.
//!
//! {"op":"audit"}                       exhaustive audit of the class hypotheses of
//!                                      Proofs/SanitizeProofs.v `ClassesOK` over all
//!                                      1,112,064 scalar values (std + unicode-ident +
//!                                      heck on one-character strings) and direct
//!                                      evaluation of the property on every
//!                                      one-character string
//! {"op":"classes","chars":[..]}        class table rows for these scalars, closed
//!                                      under to_uppercase / to_lowercase
//! {"op":"sanitize","s":[..],"pascal":b} typify's recase + syn acceptance
//! {"op":"keywords"}                    syn's verdict on a list of candidate keywords
use heck::{ToPascalCase, ToSnakeCase};
use serde_json::{json, Value};
use unicode_ident::{is_xid_continue, is_xid_start};

fn cps(s: &str) -> Vec<u32> {
    s.chars().map(|c| c as u32).collect()
}

fn from_cps(v: &Value) -> String {
    v.as_array()
        .expect("array of scalars")
        .iter()
        .map(|x| char::from_u32(x.as_u64().expect("scalar") as u32).expect("scalar value"))
        .collect()
}

fn syn_ok(s: &str) -> bool {
    syn::parse_str::<syn::Ident>(s).is_ok()
}

fn all_scalars() -> impl Iterator<Item = char> {
    (0u32..=0x10FFFF).filter_map(char::from_u32)
}

struct Hyp {
    name: &'static str,
    bad: Vec<u32>,
    n: u64,
    failed: bool,
}

impl Hyp {
    fn new(name: &'static str) -> Self {
        Hyp { name, bad: vec![], n: 0, failed: false }
    }
    fn check(&mut self, c: char, ok: bool) {
        self.n += 1;
        if !ok && self.bad.len() < 8 {
            self.bad.push(c as u32);
        }
        if !ok {
            self.failed = true;
        }
    }
    fn json(&self) -> Value {
        json!({"name": self.name, "ok": !self.failed, "checked": self.n, "counterexamples": self.bad})
    }
}

fn lexical(s: &str) -> bool {
    let mut it = s.chars();
    match it.next() {
        None => false,
        Some(c) => (c == '_' || is_xid_start(c)) && it.all(is_xid_continue),
    }
}

fn audit() -> Value {
    // the hypotheses of ClassesOK, same names as the Coq record fields
    let mut h_start_cont = Hyp::new("ok_start_cont");
    let mut h_case_closed = Hyp::new("ok_case_closed");
    let mut h_ascii_start = Hyp::new("ok_ascii_start");
    let mut h_ascii_cont = Hyp::new("ok_ascii_cont");
    let mut h_consts = Hyp::new("ok_consts");
    // heck on one-character strings behaves as the model says (uses exactly these std functions)
    let mut k_snake1 = Hyp::new("heck_snake_one_char");
    let mut k_pascal1 = Hyp::new("heck_pascal_one_char");
    // heck's split: `a<c>b` is one word iff c is alphanumeric
    let mut k_split = Hyp::new("heck_split_on_non_alphanumeric");
    // the property itself on every one-character name, real sanitize
    let mut d_lex = Hyp::new("direct_one_char_lexical");
    let mut d_syn = Hyp::new("direct_one_char_syn_accepts");
    let mut d_wire = Hyp::new("direct_one_char_recase_wire");
    let mut count = 0u64;
    for c in all_scalars() {
        count += 1;
        let xs = is_xid_start(c);
        let xc = is_xid_continue(c);
        let an = c.is_alphanumeric();
        h_start_cont.check(c, !xs || xc);
        if xc && an {
            h_case_closed.check(
                c,
                c.to_lowercase().all(is_xid_continue) && c.to_uppercase().all(is_xid_continue),
            );
        }
        if c.is_ascii_alphabetic() {
            h_ascii_start.check(c, xs);
        }
        if c.is_ascii_alphanumeric() || c == '_' {
            h_ascii_cont.check(c, xc);
        }
        let s = c.to_string();
        let exp_snake: String = if !an {
            String::new()
        } else if c == 'Σ' {
            "ς".to_string()
        } else {
            c.to_lowercase().collect()
        };
        k_snake1.check(c, s.to_snake_case() == exp_snake);
        let exp_pascal: String = if an { c.to_uppercase().collect() } else { String::new() };
        k_pascal1.check(c, s.to_pascal_case() == exp_pascal);
        let t = format!("a{}b", c);
        let sn = t.to_snake_case();
        if an {
            k_split.check(c, !sn.starts_with("a_") || c.is_uppercase());
        } else {
            k_split.check(c, sn == "a_b");
        }
        for pascal in [false, true] {
            let (id, rn) = typify_impl::verif::recase(&s, pascal);
            d_lex.check(c, lexical(&id) && is_xid_start(id.chars().next().unwrap()));
            d_syn.check(c, syn_ok(&id));
            let wire = rn.clone().unwrap_or(id.clone());
            d_wire.check(c, wire == s && (rn.is_none() == (id == s)));
        }
    }
    h_consts.check('ς', is_xid_continue('ς'));
    h_consts.check('-', !'-'.is_alphanumeric());
    h_consts.check('x', 'x'.is_alphanumeric());
    h_consts.check('x', 'x'.to_uppercase().collect::<String>() == "X");
    h_consts.check('x', 'x'.to_lowercase().collect::<String>() == "x");
    let hyps: Vec<Value> = [
        &h_start_cont, &h_case_closed, &h_ascii_start, &h_ascii_cont, &h_consts, &k_snake1, &k_pascal1,
        &k_split, &d_lex, &d_syn, &d_wire,
    ]
    .iter()
    .map(|h| h.json())
    .collect();
    json!({"r":"ok","scalars":count,"hyps":hyps})
}

fn row(c: char) -> Value {
    let flags = (is_xid_start(c) as u32)
        | (is_xid_continue(c) as u32) << 1
        | (c.is_alphanumeric() as u32) << 2
        | (c.is_lowercase() as u32) << 3
        | (c.is_uppercase() as u32) << 4;
    json!([c as u32, flags, c.to_uppercase().map(|x| x as u32).collect::<Vec<_>>(),
           c.to_lowercase().map(|x| x as u32).collect::<Vec<_>>()])
}

fn classes(case: &Value) -> Value {
    let mut set = std::collections::BTreeSet::new();
    for x in case["chars"].as_array().unwrap() {
        let c = char::from_u32(x.as_u64().unwrap() as u32).expect("scalar value");
        set.insert(c);
        set.extend(c.to_uppercase());
        set.extend(c.to_lowercase());
    }
    json!({"r":"ok","rows": set.into_iter().map(row).collect::<Vec<_>>()})
}

const KEYWORD_CANDIDATES: &[&str] = &[
    // strict
    "as", "break", "const", "continue", "crate", "else", "enum", "extern", "false", "fn", "for", "if", "impl",
    "in", "let", "loop", "match", "mod", "move", "mut", "pub", "ref", "return", "self", "Self", "static",
    "struct", "super", "trait", "true", "type", "unsafe", "use", "where", "while", "async", "await", "dyn",
    // reserved
    "abstract", "become", "box", "do", "final", "macro", "override", "priv", "typeof", "unsized", "virtual",
    "yield", "try", "gen",
    // weak / contextual / special
    "union", "macro_rules", "static_", "raw", "safe", "auto", "default", "_", "__", "r", "main", "std", "core",
    "String", "Option", "Vec", "Box", "Default", "Result", "Ok", "Err", "Some", "None",
];

fn keywords() -> Value {
    json!({"r":"ok","verdicts": KEYWORD_CANDIDATES.iter().map(|k| json!([cps(k), syn_ok(k)])).collect::<Vec<_>>()})
}

fn main() {
    vh::run_lines(|case| match case["op"].as_str().unwrap_or("") {
        "audit" => audit(),
        "classes" => classes(case),
        "keywords" => keywords(),
        "sanitize" => {
            let s = from_cps(&case["s"]);
            let pascal = case["pascal"].as_bool().unwrap_or(false);
            let (id, rn) = typify_impl::verif::recase(&s, pascal);
            let plain = typify_impl::verif::sanitize(&s, pascal);
            json!({"r":"ok","ident":cps(&id),"rename":rn.as_deref().map(cps),"same": plain == id,
                   "syn_in": syn_ok(&s), "syn_out": syn_ok(&id)})
        }
        _ => json!({"r":"badop"}),
    })
}
