//! C07 harness: one JSON case per line.
//!   {"op":"graph","desc":{next_id,lo,hi,nodes:{id:node}}}
//!        -> {"r":"ok","dump":<verif_dump after break_cycles(lo..hi)>}   (channel K2)
//!   {"op":"gen", ...vh gen case...}  -> vh::gen_case (channel K3; same as `vh gen`)
//! Panics are caught by run_lines ({"r":"panic","msg":..}).
use serde_json::{json, Value};
use typify_impl::TypeSpace;

fn one(case: &Value) -> Value {
    match case["op"].as_str().unwrap_or("graph") {
        "gen" => vh::gen_case(case),
        _ => {
            let dump = TypeSpace::verif_break_cycles_graph(&case["desc"]);
            json!({"r":"ok","dump":dump})
        }
    }
}

fn main() {
    vh::run_lines(one);
}
