//! C12 — generated output is a deterministic function of settings and schema.
//!
//! `c12 sites <repo_root> <out.v>`  translator T3: inventory of every mention
//!     of a hash-ordered collection / clock / env / thread / random source in
//!     the non-test sources, written as Coq data (`Gen/HashSites.v`).
//! `c12 run`  JSON lines in, JSON lines out: runs the real typify on the RAW
//!     TEXT of a schema document and reports hashes of the emitted tokens.
//!     The check spawns this binary many times: every process has fresh
//!     `RandomState` seeds.
//! `c12 selftest` parses `{"b":1,"a":2}` through serde_json / schemars to
//!     confirm that object key order is erased by parsing (sorted maps).
use std::collections::{BTreeMap, BTreeSet, HashMap, HashSet};
use std::fmt::Write as _;
use std::hash::Hasher;
use std::path::{Path, PathBuf};

use proc_macro2::{TokenStream, TokenTree};
use quote::ToTokens;
use serde_json::{json, Value};
use syn::visit::Visit;
use typify_impl::{CrateVers, TypeSpace, TypeSpaceImpl, TypeSpaceSettings};

// ---------------------------------------------------------------------------
// translator T3
// ---------------------------------------------------------------------------

#[derive(Clone, Debug, PartialEq, Eq, PartialOrd, Ord)]
struct Site {
    file: String,
    func: String,
    kind: String,
    cons: String,
}

const HASH_NAMES: &[(&str, &str)] = &[
    ("HashMap", "HashMap"),
    ("HashSet", "HashSet"),
    ("RandomState", "RandomState"),
    ("DefaultHasher", "RandomState"),
    ("BuildHasher", "RandomState"),
    ("BuildHasherDefault", "RandomState"),
    ("IndexMap", "IndexMap"),
    ("IndexSet", "IndexMap"),
    ("Instant", "time"),
    ("SystemTime", "time"),
    ("UNIX_EPOCH", "time"),
    ("Duration", "time"),
    ("thread_rng", "rand"),
    ("getrandom", "rand"),
    ("OsRng", "rand"),
    ("StdRng", "rand"),
    // interior mutability / global state: a rendering could observe what an earlier one left behind
    ("RefCell", "state"),
    ("Cell", "state"),
    ("UnsafeCell", "state"),
    ("Mutex", "state"),
    ("RwLock", "state"),
    ("OnceCell", "state"),
    ("OnceLock", "state"),
    ("LazyLock", "state"),
    ("LazyCell", "state"),
    ("lazy_static", "state"),
    ("AtomicUsize", "state"),
    ("AtomicIsize", "state"),
    ("AtomicU64", "state"),
    ("AtomicI64", "state"),
    ("AtomicU32", "state"),
    ("AtomicI32", "state"),
    ("AtomicBool", "state"),
];

/// kind of a path given its segments (first match wins), or None.
fn path_kind(segs: &[String]) -> Option<&'static str> {
    for s in segs {
        for (n, k) in HASH_NAMES {
            if s == n {
                return Some(k);
            }
        }
    }
    for (i, s) in segs.iter().enumerate() {
        // `std::env::var`, `env::args`, ... : the module `env` followed by something
        if s == "env" && (i + 1 < segs.len() || (i > 0 && segs[i - 1] == "std")) {
            return Some("env");
        }
        if s == "time" && i > 0 && (segs[i - 1] == "std" || segs[i - 1] == "core") {
            return Some("time");
        }
        if s == "thread" && (i + 1 < segs.len() || (i > 0 && segs[i - 1] == "std")) {
            return Some("thread");
        }
        if (s == "rand" || s == "fastrand") && i + 1 < segs.len() {
            return Some("rand");
        }
        if s == "process" && i + 1 < segs.len() && segs[i + 1] == "id" {
            return Some("env");
        }
    }
    None
}

fn is_hash_kind(k: &str) -> bool {
    matches!(k, "HashMap" | "HashSet" | "IndexMap" | "RandomState" | "state")
}

fn segs_of(p: &syn::Path) -> Vec<String> {
    p.segments.iter().map(|s| s.ident.to_string()).collect()
}

fn has_cfg_test(attrs: &[syn::Attribute]) -> bool {
    attrs.iter().any(|a| {
        a.path().is_ident("cfg") && a.meta.to_token_stream().to_string().replace(' ', "").contains("cfg(test")
    })
}

/// Does this syntax tree mention a hash-ordered collection type?  Returns the kind.
struct MentionFinder {
    kind: Option<&'static str>,
}
impl<'ast> Visit<'ast> for MentionFinder {
    fn visit_path(&mut self, p: &'ast syn::Path) {
        if self.kind.is_none() {
            if let Some(k) = path_kind(&segs_of(p)) {
                if is_hash_kind(k) {
                    self.kind = Some(k);
                }
            }
        }
        syn::visit::visit_path(self, p);
    }
}
fn mention_in_expr(e: &syn::Expr) -> Option<&'static str> {
    let mut m = MentionFinder { kind: None };
    m.visit_expr(e);
    m.kind
}
fn mention_in_type(t: &syn::Type) -> Option<&'static str> {
    let mut m = MentionFinder { kind: None };
    m.visit_type(t);
    m.kind
}

fn pat_idents(p: &syn::Pat, out: &mut Vec<String>) {
    match p {
        syn::Pat::Ident(i) => out.push(i.ident.to_string()),
        syn::Pat::Type(t) => pat_idents(&t.pat, out),
        syn::Pat::Tuple(t) => t.elems.iter().for_each(|e| pat_idents(e, out)),
        syn::Pat::Reference(r) => pat_idents(&r.pat, out),
        syn::Pat::Paren(r) => pat_idents(&r.pat, out),
        _ => {}
    }
}

struct Scanner {
    file: String,
    fn_stack: Vec<String>,
    ctx_stack: Vec<String>,
    /// names bound to a hash-ordered collection: field names (file-wide) and
    /// locals (per enclosing fn): name -> kind
    fields: BTreeMap<String, &'static str>,
    locals: Vec<BTreeMap<String, &'static str>>,
    sites: Vec<Site>,
    /// `#[cfg(test)] mod x;` declarations: files to skip
    test_mods: Vec<String>,
    /// expressions already recorded as the base of a chain (by pointer)
    chain_bases: HashSet<usize>,
}

impl Scanner {
    fn cur_fn(&self) -> String {
        if let Some(f) = self.fn_stack.last() {
            f.clone()
        } else if let Some(c) = self.ctx_stack.last() {
            format!("<{}>", c)
        } else {
            "<top>".to_string()
        }
    }
    fn push(&mut self, kind: &str, cons: String) {
        let func = self.cur_fn();
        self.sites.push(Site { file: self.file.clone(), func, kind: kind.to_string(), cons });
    }
    fn tracked(&self, name: &str) -> Option<&'static str> {
        if let Some(l) = self.locals.last() {
            if let Some(k) = l.get(name) {
                return Some(k);
            }
        }
        self.fields.get(name).copied()
    }
    fn scan_macro_tokens(&mut self, mac_name: &str, ts: TokenStream) {
        let mut prev: Vec<String> = vec![];
        for tt in ts {
            match tt {
                TokenTree::Group(g) => {
                    self.scan_macro_tokens(mac_name, g.stream());
                    prev.clear();
                }
                TokenTree::Ident(i) => {
                    let s = i.to_string();
                    prev.push(s.clone());
                    let one = [s.clone()];
                    let k = path_kind(&one).or_else(|| {
                        if prev.len() >= 2 {
                            path_kind(&prev[prev.len() - 2..])
                        } else {
                            None
                        }
                    });
                    if let Some(k) = k {
                        self.push(k, format!("in-macro:{}:{}", mac_name, s));
                    }
                }
                TokenTree::Literal(l) => {
                    let s = l.to_string();
                    self.scan_literal_text(&s, &format!("in-macro:{}", mac_name));
                    prev.clear();
                }
                TokenTree::Punct(p) => {
                    if p.as_char() != ':' {
                        prev.clear();
                    }
                }
            }
        }
    }
    fn scan_literal_text(&mut self, s: &str, ctx: &str) {
        if s.contains(":p}") {
            self.push("pointer-fmt", format!("{}:{{:p}}", ctx));
        }
        for n in ["HashMap", "HashSet", "RandomState"] {
            if s.contains(n) {
                self.push(n, format!("{}:string-literal", ctx));
            }
        }
    }
    /// flatten `base.m1(..).m2(..)`: returns (base expr, [m1, m2])
    fn chain<'a>(e: &'a syn::Expr, names: &mut Vec<String>) -> &'a syn::Expr {
        match e {
            syn::Expr::MethodCall(m) => {
                let b = Self::chain(&m.receiver, names);
                names.push(m.method.to_string());
                b
            }
            syn::Expr::Paren(p) => Self::chain(&p.expr, names),
            syn::Expr::Reference(r) => Self::chain(&r.expr, names),
            syn::Expr::Try(t) => Self::chain(&t.expr, names),
            _ => e,
        }
    }
}

fn single_ident(e: &syn::Expr) -> Option<String> {
    match e {
        syn::Expr::Path(p) if p.qself.is_none() && p.path.segments.len() == 1 => {
            Some(p.path.segments[0].ident.to_string())
        }
        syn::Expr::Reference(r) => single_ident(&r.expr),
        syn::Expr::Paren(r) => single_ident(&r.expr),
        _ => None,
    }
}

impl<'ast> Visit<'ast> for Scanner {
    fn visit_item_mod(&mut self, m: &'ast syn::ItemMod) {
        let test = has_cfg_test(&m.attrs) || m.ident == "tests" || m.ident == "test";
        if test {
            if m.content.is_none() {
                self.test_mods.push(m.ident.to_string());
            }
            return;
        }
        syn::visit::visit_item_mod(self, m);
    }
    fn visit_item_fn(&mut self, f: &'ast syn::ItemFn) {
        if has_cfg_test(&f.attrs) {
            return;
        }
        self.fn_stack.push(f.sig.ident.to_string());
        self.locals.push(BTreeMap::new());
        syn::visit::visit_item_fn(self, f);
        self.locals.pop();
        self.fn_stack.pop();
    }
    fn visit_impl_item_fn(&mut self, f: &'ast syn::ImplItemFn) {
        if has_cfg_test(&f.attrs) {
            return;
        }
        let ctx = self.ctx_stack.last().cloned().unwrap_or_default();
        let name = if ctx.is_empty() { f.sig.ident.to_string() } else { format!("{}::{}", ctx, f.sig.ident) };
        self.fn_stack.push(name);
        self.locals.push(BTreeMap::new());
        syn::visit::visit_impl_item_fn(self, f);
        self.locals.pop();
        self.fn_stack.pop();
    }
    fn visit_item_impl(&mut self, i: &'ast syn::ItemImpl) {
        if has_cfg_test(&i.attrs) {
            return;
        }
        let mut ty = i.self_ty.to_token_stream().to_string().replace(' ', "");
        if let Some(p) = ty.find('<') {
            ty.truncate(p);
        }
        self.ctx_stack.push(ty);
        syn::visit::visit_item_impl(self, i);
        self.ctx_stack.pop();
    }
    fn visit_item_struct(&mut self, s: &'ast syn::ItemStruct) {
        if has_cfg_test(&s.attrs) {
            return;
        }
        self.ctx_stack.push(format!("struct {}", s.ident));
        for f in s.fields.iter() {
            if let (Some(id), Some(k)) = (&f.ident, mention_in_type(&f.ty)) {
                self.fields.insert(id.to_string(), k);
                self.push(k, format!("field:{}", id));
            }
        }
        syn::visit::visit_item_struct(self, s);
        self.ctx_stack.pop();
    }
    fn visit_item_enum(&mut self, s: &'ast syn::ItemEnum) {
        if has_cfg_test(&s.attrs) {
            return;
        }
        self.ctx_stack.push(format!("enum {}", s.ident));
        syn::visit::visit_item_enum(self, s);
        self.ctx_stack.pop();
    }
    fn visit_item_use(&mut self, u: &'ast syn::ItemUse) {
        if has_cfg_test(&u.attrs) {
            return;
        }
        fn walk(t: &syn::UseTree, prefix: &mut Vec<String>, out: &mut Vec<Vec<String>>) {
            match t {
                syn::UseTree::Path(p) => {
                    prefix.push(p.ident.to_string());
                    walk(&p.tree, prefix, out);
                    prefix.pop();
                }
                syn::UseTree::Name(n) => {
                    let mut v = prefix.clone();
                    v.push(n.ident.to_string());
                    out.push(v);
                }
                syn::UseTree::Rename(n) => {
                    let mut v = prefix.clone();
                    v.push(n.ident.to_string());
                    out.push(v);
                }
                syn::UseTree::Glob(_) => {
                    let mut v = prefix.clone();
                    v.push("*".to_string());
                    out.push(v);
                }
                syn::UseTree::Group(g) => g.items.iter().for_each(|i| walk(i, prefix, out)),
            }
        }
        let mut out = vec![];
        walk(&u.tree, &mut vec![], &mut out);
        for p in out {
            if let Some(k) = path_kind(&p) {
                self.push(k, format!("import:{}", p.join("::")));
            }
        }
    }
    fn visit_local(&mut self, l: &'ast syn::Local) {
        let mut kind = None;
        if let Some(init) = &l.init {
            kind = mention_in_expr(&init.expr);
        }
        if kind.is_none() {
            if let syn::Pat::Type(t) = &l.pat {
                kind = mention_in_type(&t.ty);
            }
        }
        // visit the initialiser first (uses of previously bound names), then bind
        syn::visit::visit_local(self, l);
        if let Some(k) = kind {
            let mut ids = vec![];
            pat_idents(&l.pat, &mut ids);
            for id in ids {
                self.push(k, format!("bind:{}", id));
                if let Some(m) = self.locals.last_mut() {
                    m.insert(id, k);
                }
            }
        }
    }
    fn visit_fn_arg(&mut self, a: &'ast syn::FnArg) {
        if let syn::FnArg::Typed(t) = a {
            if let Some(k) = mention_in_type(&t.ty) {
                let mut ids = vec![];
                pat_idents(&t.pat, &mut ids);
                for id in ids {
                    self.push(k, format!("param:{}", id));
                    if let Some(m) = self.locals.last_mut() {
                        m.insert(id, k);
                    }
                }
            }
        }
        syn::visit::visit_fn_arg(self, a);
    }
    fn visit_path(&mut self, p: &'ast syn::Path) {
        let segs = segs_of(p);
        if let Some(k) = path_kind(&segs) {
            self.push(k, format!("path:{}", segs.join("::")));
        }
        syn::visit::visit_path(self, p);
    }
    fn visit_expr_for_loop(&mut self, f: &'ast syn::ExprForLoop) {
        if let Some(id) = single_ident(&f.expr) {
            if let Some(k) = self.tracked(&id) {
                self.push(k, format!("for-in:{}", id));
                self.chain_bases.insert(&*f.expr as *const syn::Expr as usize);
            }
        }
        syn::visit::visit_expr_for_loop(self, f);
    }
    fn visit_expr(&mut self, e: &'ast syn::Expr) {
        match e {
            syn::Expr::MethodCall(_) => {
                let mut names = vec![];
                let base = Scanner::chain(e, &mut names);
                if let Some(id) = single_ident(base) {
                    if let Some(k) = self.tracked(&id) {
                        self.push(k, format!("call:{}.{}", id, names.join(".")));
                    }
                }
                // visit base (unless a plain tracked ident, which we just recorded) and all args
                fn walk_args<'a>(s: &mut Scanner, e: &'a syn::Expr) {
                    match e {
                        syn::Expr::MethodCall(m) => {
                            walk_args(s, &m.receiver);
                            if let Some(t) = &m.turbofish {
                                s.visit_angle_bracketed_generic_arguments(t);
                            }
                            for a in m.args.iter() {
                                s.visit_expr(a);
                            }
                        }
                        syn::Expr::Paren(p) => walk_args(s, &p.expr),
                        syn::Expr::Reference(r) => walk_args(s, &r.expr),
                        syn::Expr::Try(t) => walk_args(s, &t.expr),
                        other => {
                            let tracked = single_ident(other).map(|i| s.tracked(&i).is_some()).unwrap_or(false);
                            if !tracked {
                                s.visit_expr(other);
                            }
                        }
                    }
                }
                walk_args(self, e);
            }
            syn::Expr::Path(p) if p.qself.is_none() && p.path.segments.len() == 1 => {
                let id = p.path.segments[0].ident.to_string();
                let is_base = self.chain_bases.contains(&(e as *const syn::Expr as usize));
                if !is_base {
                    if let Some(k) = self.tracked(&id) {
                        self.push(k, format!("ref:{}", id));
                    }
                }
                syn::visit::visit_expr(self, e);
            }
            _ => syn::visit::visit_expr(self, e),
        }
    }
    fn visit_macro(&mut self, m: &'ast syn::Macro) {
        let name = m.path.segments.last().map(|s| s.ident.to_string()).unwrap_or_default();
        match name.as_str() {
            "env" | "option_env" => self.push("env", format!("macro:{}!", name)),
            "thread_local" | "lazy_static" => {
                self.push("thread", format!("macro:{}!", name));
                for n in static_names(m.tokens.clone()) {
                    self.push("thread", format!("static:{}", n));
                }
            }
            _ => {}
        }
        self.scan_macro_tokens(&name, m.tokens.clone());
        syn::visit::visit_macro(self, m);
    }
    fn visit_item_static(&mut self, i: &'ast syn::ItemStatic) {
        if has_cfg_test(&i.attrs) {
            return;
        }
        if matches!(i.mutability, syn::StaticMutability::Mut(_)) {
            self.push("state", format!("static-mut:{}", i.ident));
        }
        syn::visit::visit_item_static(self, i);
    }
    fn visit_expr_cast(&mut self, c: &'ast syn::ExprCast) {
        // `x as *const T (as usize)`: an address becomes a value
        if let syn::Type::Ptr(_) = &*c.ty {
            self.push("pointer-address", format!("cast:{}", c.ty.to_token_stream().to_string().replace(' ', "")));
        }
        syn::visit::visit_expr_cast(self, c);
    }
    fn visit_lit_str(&mut self, l: &'ast syn::LitStr) {
        let v = l.value();
        self.scan_literal_text(&v, "lit");
    }
}

/// names declared by `static [mut] NAME` inside a thread_local!/lazy_static! body
fn static_names(ts: TokenStream) -> Vec<String> {
    let toks: Vec<TokenTree> = ts.into_iter().collect();
    let mut out = vec![];
    let mut i = 0;
    while i < toks.len() {
        if let TokenTree::Ident(id) = &toks[i] {
            if id == "static" {
                let mut j = i + 1;
                while j < toks.len() {
                    match &toks[j] {
                        TokenTree::Ident(x) if x == "mut" || x == "ref" => j += 1,
                        TokenTree::Ident(x) => {
                            out.push(x.to_string());
                            break;
                        }
                        _ => break,
                    }
                }
            }
        }
        i += 1;
    }
    out
}

fn rs_files(dir: &Path, out: &mut Vec<PathBuf>) {
    let mut ents: Vec<_> = match std::fs::read_dir(dir) {
        Ok(r) => r.filter_map(|e| e.ok()).map(|e| e.path()).collect(),
        Err(_) => return,
    };
    ents.sort();
    for p in ents {
        if p.is_dir() {
            rs_files(&p, out);
        } else if p.extension().map(|e| e == "rs").unwrap_or(false) {
            out.push(p);
        }
    }
}

fn coq_str(s: &str) -> String {
    let mut o = String::from("\"");
    for c in s.chars() {
        if c == '"' {
            o.push_str("\"\"");
        } else if (' '..='~').contains(&c) {
            o.push(c);
        } else {
            o.push('?');
        }
    }
    o.push('"');
    o
}

const CRATE_DIRS: &[&str] = &["typify-impl/src", "typify-macro/src", "cargo-typify/src", "typify/src"];

fn collect_sites(root: &Path) -> Result<(Vec<Site>, Vec<String>, Vec<String>), String> {
    let mut all = vec![];
    let mut scanned = vec![];
    let mut skipped = vec![];
    for cd in CRATE_DIRS {
        let base = root.join(cd);
        let mut files = vec![];
        rs_files(&base, &mut files);
        if files.is_empty() {
            return Err(format!("no .rs files under {}", base.display()));
        }
        // first pass: parse all, collect test-only module files
        let mut parsed = vec![];
        let mut test_mods: BTreeSet<PathBuf> = BTreeSet::new();
        for f in &files {
            let txt = std::fs::read_to_string(f).map_err(|e| format!("{}: {}", f.display(), e))?;
            let ast = syn::parse_file(&txt).map_err(|e| format!("{}: {}", f.display(), e))?;
            for it in &ast.items {
                if let syn::Item::Mod(m) = it {
                    if m.content.is_none() && (has_cfg_test(&m.attrs) || m.ident == "tests") {
                        let dir = f.parent().unwrap();
                        test_mods.insert(dir.join(format!("{}.rs", m.ident)));
                        test_mods.insert(dir.join(m.ident.to_string()));
                    }
                }
            }
            parsed.push((f.clone(), ast));
        }
        for (f, ast) in parsed {
            let rel = f.strip_prefix(root).unwrap().to_string_lossy().to_string();
            if test_mods.iter().any(|t| f == *t || f.starts_with(t)) {
                skipped.push(rel);
                continue;
            }
            let mut sc = Scanner {
                file: rel.clone(),
                fn_stack: vec![],
                ctx_stack: vec![],
                fields: BTreeMap::new(),
                locals: vec![],
                sites: vec![],
                test_mods: vec![],
                chain_bases: HashSet::new(),
            };
            // fields first (file-wide tracked names), so that uses before the declaration are seen
            for it in &ast.items {
                if let syn::Item::Struct(s) = it {
                    for fl in s.fields.iter() {
                        if let (Some(id), Some(k)) = (&fl.ident, mention_in_type(&fl.ty)) {
                            sc.fields.insert(id.to_string(), k);
                        }
                    }
                }
                // thread_local!/lazy_static! statics are tracked file-wide by name (`NAME.with(..)`)
                if let syn::Item::Macro(m) = it {
                    let n = m.mac.path.segments.last().map(|s| s.ident.to_string()).unwrap_or_default();
                    if n == "thread_local" || n == "lazy_static" {
                        for name in static_names(m.mac.tokens.clone()) {
                            sc.fields.insert(name, "thread");
                        }
                    }
                }
                if let syn::Item::Static(st) = it {
                    sc.fields.insert(st.ident.to_string(), "state");
                }
            }
            sc.visit_file(&ast);
            scanned.push(rel);
            all.extend(sc.sites);
        }
    }
    Ok((all, scanned, skipped))
}

fn sites_main(args: &[String]) {
    let root = PathBuf::from(args.first().expect("repo root"));
    let out = PathBuf::from(args.get(1).expect("out.v"));
    let (sites, scanned, skipped) = match collect_sites(&root) {
        Ok(x) => x,
        Err(e) => {
            eprintln!("c12 sites: {}", e);
            std::process::exit(1);
        }
    };
    let mut v = String::new();
    writeln!(v, "(* GENERATED by `c12 sites` (translator T3) from the Rust sources; do not edit. *)").unwrap();
    writeln!(v, "(* scanned files: {}; skipped test-only files: {} *)", scanned.len(), skipped.join(" ")).unwrap();
    writeln!(v, "From Coq Require Import String List.\nFrom Typify Require Import Algo.HashOrder.\nImport ListNotations.\nOpen Scope string_scope.\n").unwrap();
    writeln!(v, "Definition scanned_files : list string := [").unwrap();
    writeln!(v, "{}", scanned.iter().map(|s| format!("  {}", coq_str(s))).collect::<Vec<_>>().join(";\n")).unwrap();
    writeln!(v, "].\n").unwrap();
    writeln!(v, "Definition hash_sites : list site := [").unwrap();
    let lines: Vec<String> = sites
        .iter()
        .map(|s| format!("  mk_site {} {} {} {}", coq_str(&s.file), coq_str(&s.func), coq_str(&s.kind), coq_str(&s.cons)))
        .collect();
    writeln!(v, "{}", lines.join(";\n")).unwrap();
    writeln!(v, "].").unwrap();
    let changed = std::fs::read_to_string(&out).map(|o| o != v).unwrap_or(true);
    if changed {
        std::fs::write(&out, &v).expect("write HashSites.v");
    }
    let js: Vec<Value> = sites
        .iter()
        .map(|s| json!({"file": s.file, "fn": s.func, "kind": s.kind, "cons": s.cons}))
        .collect();
    println!("{}", json!({"sites": js, "scanned": scanned, "skipped": skipped, "changed": changed}));
}

// ---------------------------------------------------------------------------
// runner
// ---------------------------------------------------------------------------

fn fnv(s: &str) -> u64 {
    let mut h: u64 = 0xcbf29ce484222325;
    for b in s.as_bytes() {
        h ^= *b as u64;
        h = h.wrapping_mul(0x100000001b3);
    }
    h
}
fn sip(s: &str) -> u64 {
    // DefaultHasher::new() has FIXED keys (unlike RandomState): stable across processes
    #[allow(deprecated)]
    let mut h = std::collections::hash_map::DefaultHasher::new();
    h.write(s.as_bytes());
    h.finish()
}
fn digest(s: &str) -> String {
    format!("{:016x}{:016x}:{}", fnv(s), sip(s), s.len())
}

fn impl_of(s: &str) -> Option<TypeSpaceImpl> {
    s.parse::<TypeSpaceImpl>().ok()
}

/// Mirror of typify-macro/src/token_utils.rs:22-47 (into_name_and_impls) as of fix 9ffca46: the
/// default impls go into a BTreeSet, listed impls are inserted / removed, and the set is turned
/// into an (ascending) iterator.  (Before the fix this was a std HashSet: finding C12-F1.)
fn macro_impls(extra: &Value) -> Vec<TypeSpaceImpl> {
    const DEFAULT_IMPLS: [TypeSpaceImpl; 2] = [TypeSpaceImpl::FromStr, TypeSpaceImpl::Display];
    let mut impls = DEFAULT_IMPLS.into_iter().collect::<BTreeSet<_>>();
    if let Some(a) = extra.as_array() {
        for x in a {
            let s = x.as_str().unwrap_or("");
            if let Some(n) = s.strip_prefix('?') {
                if let Some(i) = impl_of(n) {
                    impls.remove(&i);
                }
            } else if let Some(i) = impl_of(s) {
                impls.insert(i);
            }
        }
    }
    impls.into_iter().collect()
}

fn impl_name(i: &TypeSpaceImpl) -> String {
    format!("{:?}", i)
}

/// Settings: everything `vh::settings_from_json` understands, plus the
/// emulation of the macro front-end's hash-ordered containers:
///   "macro_convert": [{schema, type, impls:[..]}]   impls through a HashSet
///   "macro_replace": {name: {type, impls:[..]}}     map through a HashMap, impls through a HashSet
///   "macro_patch":   {name: {rename, derives}}      through a HashMap
///   "macro_crates":  {name: "orig@version" | "version"}  through a HashMap
/// Returns the settings and a trace of the enumeration orders this process saw.
fn settings_c12(v: &Value) -> (TypeSpaceSettings, Value) {
    let mut s = vh::settings_from_json(v);
    let mut trace = serde_json::Map::new();
    if let Some(o) = v["macro_patch"].as_object() {
        let hm: HashMap<String, Value> = o.iter().map(|(k, v)| (k.clone(), v.clone())).collect();
        let mut order = vec![];
        hm.into_iter().for_each(|(k, p)| {
            let mut tp = typify_impl::TypeSpacePatch::default();
            if let Some(r) = p["rename"].as_str() {
                tp.with_rename(r);
            }
            if let Some(ds) = p["derives"].as_array() {
                for d in ds {
                    tp.with_derive(d.as_str().unwrap());
                }
            }
            s.with_patch(&k, &tp);
            order.push(k);
        });
        trace.insert("patch".into(), json!(order));
    }
    if let Some(o) = v["macro_replace"].as_object() {
        let hm: HashMap<String, Value> = o.iter().map(|(k, v)| (k.clone(), v.clone())).collect();
        let mut order = vec![];
        hm.into_iter().for_each(|(k, p)| {
            let impls = macro_impls(&p["impls"]);
            order.push(json!([k, impls.iter().map(impl_name).collect::<Vec<_>>()]));
            s.with_replacement(&k, p["type"].as_str().unwrap(), impls.into_iter());
        });
        trace.insert("replace".into(), json!(order));
    }
    if let Some(a) = v["macro_convert"].as_array() {
        let mut order = vec![];
        for c in a {
            let so: schemars::schema::SchemaObject = serde_json::from_value(c["schema"].clone()).expect("convert schema");
            let impls = macro_impls(&c["impls"]);
            order.push(json!(impls.iter().map(impl_name).collect::<Vec<_>>()));
            s.with_conversion(so, c["type"].as_str().unwrap(), impls.into_iter());
        }
        trace.insert("convert_impls".into(), json!(order));
    }
    if let Some(o) = v["macro_crates"].as_object() {
        // mirror of typify-macro/src/lib.rs:100-129 (MacroCrateSpec) and 214-222
        let hm: HashMap<String, (Option<String>, CrateVers)> = o
            .iter()
            .map(|(k, v)| {
                let ss = v.as_str().unwrap();
                let (orig, vs) = match ss.find('@') {
                    Some(i) => (Some(ss[..i].to_string()), &ss[i + 1..]),
                    None => (None, ss),
                };
                (k.clone(), (orig, CrateVers::parse(vs).expect("version")))
            })
            .collect();
        let mut order = vec![];
        hm.into_iter().for_each(|(crate_name, (original, version))| {
            order.push(crate_name.clone());
            if let Some(original_crate) = original {
                s.with_crate(original_crate, version, Some(&crate_name));
            } else {
                s.with_crate(crate_name, version, None);
            }
        });
        trace.insert("crates".into(), json!(order));
    }
    (s, Value::Object(trace))
}

struct Built {
    outcome: String,
    ts: Option<TypeSpace>,
}

fn build(settings: &TypeSpaceSettings, text: &str) -> Built {
    // the real entry points parse the document TEXT straight into a RootSchema
    // (macro: serde_json::from_reader, cargo-typify: serde_json::from_str)
    let rs: schemars::schema::RootSchema = match serde_json::from_str(text) {
        Ok(r) => r,
        Err(e) => return Built { outcome: format!("badschema:{}", e), ts: None },
    };
    let mut ts = TypeSpace::new(settings);
    let r = std::panic::catch_unwind(std::panic::AssertUnwindSafe(|| ts.add_root_schema(rs)));
    match r {
        Ok(Ok(_)) => Built { outcome: "ok".into(), ts: Some(ts) },
        Ok(Err(e)) => Built { outcome: format!("err:{}", e), ts: None },
        Err(e) => Built { outcome: format!("panic:{}", vh::panic_msg(&e)), ts: None },
    }
}

fn stream_text(ts: &TypeSpace) -> Result<TokenStream, String> {
    std::panic::catch_unwind(std::panic::AssertUnwindSafe(|| ts.to_stream())).map_err(|e| format!("render-panic:{}", vh::panic_msg(&e)))
}

fn run_case(case: &Value) -> Value {
    let id = case["id"].clone();
    match case["op"].as_str().unwrap_or("gen") {
        // keys of a JSON object after real parsing (serde_json::Map iteration order)
        "keys" => {
            let v: Value = match serde_json::from_str(case["text"].as_str().unwrap_or("")) {
                Ok(v) => v,
                Err(e) => return json!({"id": id, "r": format!("bad:{}", e)}),
            };
            let ks: Vec<String> = v.as_object().map(|o| o.keys().cloned().collect()).unwrap_or_default();
            let vals: Vec<String> = v.as_object().map(|o| o.values().map(|x| x.to_string()).collect()).unwrap_or_default();
            return json!({"id": id, "r": format!("{}|{}", ks.join(","), vals.join(","))});
        }
        // several documents built and rendered one after the other ON THIS THREAD (thread-local state
        // such as value.rs FILLING survives between them): per step `spaces` fresh TypeSpaces, each
        // rendered `renders` times; panics are caught and the sequence goes on
        "seq" => {
            let mut steps = vec![];
            for st in case["steps"].as_array().cloned().unwrap_or_default() {
                let text = st["text"].as_str().unwrap_or("");
                let spaces = st["spaces"].as_u64().unwrap_or(1);
                let renders = st["renders"].as_u64().unwrap_or(1);
                let mut outs = vec![];
                for _ in 0..spaces {
                    let settings = match std::panic::catch_unwind(|| settings_c12(&st["settings"])) {
                        Ok((s, _)) => s,
                        Err(e) => {
                            outs.push(format!("settings-panic:{}", vh::panic_msg(&e)));
                            continue;
                        }
                    };
                    let b = build(&settings, text);
                    match b.ts {
                        None => outs.push(b.outcome),
                        Some(ts) => {
                            for _ in 0..renders {
                                outs.push(match stream_text(&ts) {
                                    Ok(t) => digest(&t.to_string()),
                                    Err(m) => m,
                                });
                            }
                        }
                    }
                }
                steps.push(json!({"name": st["name"], "outs": outs}));
            }
            return json!({"id": id, "steps": steps, "pid": std::process::id()});
        }
        // util.rs all_mutually_exclusive on two object schemas (hook view of the is_subset site)
        "mutex" => {
            let a: schemars::schema::Schema = serde_json::from_value(case["a"].clone()).expect("schema a");
            let b: schemars::schema::Schema = serde_json::from_value(case["b"].clone()).expect("schema b");
            let defs = BTreeMap::new();
            let r = typify_impl::verif::all_mutually_exclusive(&[a, b], &defs);
            return json!({"id": id, "r": if r { "true" } else { "false" }});
        }
        _ => {}
    }
    let text = case["text"].as_str().unwrap_or("");
    let full = case["full"].as_bool().unwrap_or(false);
    let (settings, trace) = match std::panic::catch_unwind(|| settings_c12(&case["settings"])) {
        Ok(s) => s,
        Err(e) => return json!({"id": id, "outcome": format!("settings-panic:{}", vh::panic_msg(&e))}),
    };
    let b = build(&settings, text);
    let mut out = json!({"id": id, "outcome": b.outcome, "trace": trace, "pid": std::process::id()});
    let Some(ts) = b.ts else {
        return out;
    };
    let t1 = match stream_text(&ts) {
        Ok(t) => t,
        Err(m) => {
            out["outcome"] = json!(m);
            return out;
        }
    };
    let s1 = t1.to_string();
    // repeated rendering of one type space
    let s2 = stream_text(&ts).map(|t| t.to_string()).unwrap_or_else(|m| m);
    // a second type space built in the same process (other RandomState keys: k0 advances per instance);
    // skipped for "light" cases (the re-encoded variants: the original bytes are always run in full)
    let light = case["light"].as_bool().unwrap_or(false);
    let s3 = if light {
        s1.clone()
    } else {
        let (settings_b, _) = settings_c12(&case["settings"]);
        let b2 = build(&settings_b, text);
        match &b2.ts {
            Some(ts2) => stream_text(ts2).map(|t| t.to_string()).unwrap_or_else(|m| m),
            None => b2.outcome.clone(),
        }
    };
    let pretty = match syn::parse2::<syn::File>(t1) {
        Ok(f) => prettyplease::unparse(&f),
        Err(e) => format!("unparsable:{}", e),
    };
    // `impl ToTokens for TypeSpace` (what the macro interpolates) must agree with to_stream
    let s4 = std::panic::catch_unwind(std::panic::AssertUnwindSafe(|| ts.to_token_stream().to_string())).unwrap_or_else(|_| "panic".into());
    out["tokens_digest"] = json!(digest(&s1));
    out["pretty_digest"] = json!(digest(&pretty));
    out["render_twice_same"] = json!(s1 == s2);
    out["second_space_same"] = json!(s1 == s3);
    out["light"] = json!(light);
    out["second_space_digest"] = json!(digest(&s3));
    out["to_tokens_same"] = json!(s1 == s4);
    out["len"] = json!(s1.len());
    if let Ok(f) = syn::parse_file(&pretty) {
        // top-level type items in emission order (OutputSpace: sorted by (module, name))
        let names: Vec<String> = f
            .items
            .iter()
            .filter_map(|it| match it {
                syn::Item::Struct(s) => Some(s.ident.to_string()),
                syn::Item::Enum(e) => Some(e.ident.to_string()),
                _ => None,
            })
            .collect();
        let mods: Vec<String> = f
            .items
            .iter()
            .filter_map(|it| match it {
                syn::Item::Mod(m) => Some(m.ident.to_string()),
                _ => None,
            })
            .collect();
        out["item_names"] = json!(names);
        out["mods"] = json!(mods);
    }
    out["n_items"] = json!(pretty.matches("\npub struct ").count() + pretty.matches("\npub enum ").count());
    if full {
        out["tokens"] = json!(s1);
        out["pretty"] = json!(pretty);
        if s1 != s2 {
            out["tokens_second_render"] = json!(s2);
        }
        if s1 != s3 {
            out["tokens_second_space"] = json!(s3);
        }
    }
    out
}

fn selftest() {
    let v: Value = serde_json::from_str(r#"{"b":1,"a":{"z":0,"y":1},"c":[{"k":1,"j":2}]}"#).unwrap();
    let json_sorted = serde_json::to_string(&v).unwrap();
    let rs: schemars::schema::RootSchema = serde_json::from_str(
        r#"{"definitions":{"Zed":{"type":"string"},"Alpha":{"type":"integer"}},"type":"object","properties":{"q":{},"b":{},"m":{}},"zext":1,"aext":2}"#,
    )
    .unwrap();
    let defs: Vec<String> = rs.definitions.keys().cloned().collect();
    let props: Vec<String> = rs.schema.object.as_ref().unwrap().properties.keys().cloned().collect();
    let ext: Vec<String> = rs.schema.extensions.keys().cloned().collect();
    // last duplicate key wins (serde_json map visitor inserts in document order)
    let d: Value = serde_json::from_str(r#"{"a":1,"a":2}"#).unwrap();
    println!(
        "{}",
        json!({"json_sorted": json_sorted, "definitions": defs, "properties": props, "extensions": ext, "dup_last_wins": d["a"] == json!(2)})
    );
}

fn main() {
    let args: Vec<String> = std::env::args().collect();
    match args.get(1).map(String::as_str).unwrap_or("") {
        "sites" => sites_main(&args[2..]),
        "run" => vh::run_lines(run_case),
        "selftest" => selftest(),
        _ => {
            eprintln!("usage: c12 <sites repo out.v | run | selftest>");
            std::process::exit(2);
        }
    }
}
