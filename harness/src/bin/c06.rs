//! C06: probe `validate_value` / `output_value` of the REAL typify on (type id, JSON value) pairs.
//!
//! case:   {"settings":{..}, "steps":[step..], "probes":[[id, value]..], "render":bool}
//! result: {"r":"done","steps":[..],"all_ok":bool,"dump":verif_dump(),
//!          "render":{"r":"ok"|"render-panic"|..} (when asked),
//!          "probes":[{"v":"ok:<DefaultKind debug>"|"err"|"panic","o":[[kind,text]..]|null|"panic"}..]}
//! case:   {"re_pairs":[[pattern, string]..]} -> {"r":"re","re":[bool..]}  (regress find, as validate_value uses it)
//! Tokens are flattened: ["i",ident] ["p",punct char] ["s",decoded string literal] ["l",other literal text]
//! ["g","(" | ")" | "[" | "]" | "{" | "}"].
use std::str::FromStr;

use proc_macro2::{Delimiter, TokenStream, TokenTree};
use serde_json::{json, Value};
use typify_impl::TypeSpace;

fn flat(ts: TokenStream, out: &mut Vec<Value>) {
    for t in ts {
        match t {
            TokenTree::Ident(i) => out.push(json!(["i", i.to_string()])),
            TokenTree::Punct(p) => out.push(json!(["p", p.as_char().to_string()])),
            TokenTree::Literal(l) => {
                let text = l.to_string();
                match syn::parse_str::<syn::LitStr>(&text) {
                    Ok(s) => out.push(json!(["s", s.value()])),
                    Err(_) => out.push(json!(["l", text])),
                }
            }
            TokenTree::Group(g) => {
                let (a, b) = match g.delimiter() {
                    Delimiter::Parenthesis => ("(", ")"),
                    Delimiter::Bracket => ("[", "]"),
                    Delimiter::Brace => ("{", "}"),
                    Delimiter::None => ("", ""),
                };
                if !a.is_empty() {
                    out.push(json!(["g", a]));
                }
                flat(g.stream(), out);
                if !b.is_empty() {
                    out.push(json!(["g", b]));
                }
            }
        }
    }
}

fn probe(ts: &TypeSpace, id: u64, value: &Value) -> Value {
    let tid = TypeSpace::verif_type_id(id);
    let v = match std::panic::catch_unwind(std::panic::AssertUnwindSafe(|| ts.verif_validate_value(&tid, value))) {
        Ok(Ok(k)) => json!(format!("ok:{}", k)),
        Ok(Err(_)) => json!("err"),
        Err(_) => json!("panic"),
    };
    let o = match std::panic::catch_unwind(std::panic::AssertUnwindSafe(|| ts.verif_output_value(&tid, value))) {
        Ok(Some(text)) => match TokenStream::from_str(&text) {
            Ok(t) => {
                let mut out = vec![];
                flat(t, &mut out);
                Value::Array(out)
            }
            Err(_) => json!("unlexable"),
        },
        Ok(None) => Value::Null,
        Err(_) => json!("panic"),
    };
    json!({"v": v, "o": o})
}

fn main() {
    vh::run_lines(|case| {
        // regex table for the model's `re` parameter, computed by the real regress crate exactly as the
        // Newtype arm of validate_value does: Regex::new(p).map(|r| r.find(s).is_some()).unwrap_or(false)
        if let Some(pairs) = case["re_pairs"].as_array() {
            let out: Vec<Value> = pairs
                .iter()
                .map(|p| {
                    let pat = p[0].as_str().unwrap_or("");
                    let s = p[1].as_str().unwrap_or("");
                    json!(regress::Regex::new(pat)
                        .map(|re| re.find(s).is_some())
                        .unwrap_or(false))
                })
                .collect();
            return json!({"r":"re","re":out});
        }
        let settings = vh::settings_from_json(&case["settings"]);
        let mut ts = TypeSpace::new(&settings);
        let empty = vec![];
        let mut steps = vec![];
        for st in case["steps"].as_array().unwrap_or(&empty) {
            steps.push(vh::ingest_step(&mut ts, st));
        }
        let all_ok = steps.iter().all(|s| s["r"] == "ok");
        let mut out = json!({"r":"done","steps":steps,"all_ok":all_ok});
        out["dump"] = ts.verif_dump();
        if case["render"].as_bool().unwrap_or(false) {
            let mut r = vh::render(&ts, false);
            if let Some(o) = r.as_object_mut() {
                o.remove("scan");
                o.remove("tokens");
            }
            out["render"] = r;
        }
        let probes: Vec<Value> = case["probes"]
            .as_array()
            .unwrap_or(&empty)
            .iter()
            .map(|p| probe(&ts, p[0].as_u64().unwrap_or(0), &p[1]))
            .collect();
        out["probes"] = Value::Array(probes);
        out
    });
}
