//! C04 harness: `vh gen` with the source location of a panic attached.
//! One JSON case per line (the `vh gen` case format); result = vh::gen_case(case)
//! plus, when a step panicked, "panic_at": ["file:line:col", ...] (in order).
//! Used to classify universes that typify REJECTS by panic site (notes/C04.md).
use std::io::{BufRead, Write};
use std::sync::Mutex;

use serde_json::{json, Value};

static SITES: Mutex<Vec<String>> = Mutex::new(Vec::new());

fn main() {
    std::panic::set_hook(Box::new(|info| {
        let loc = info
            .location()
            .map(|l| format!("{}:{}:{}", l.file(), l.line(), l.column()))
            .unwrap_or_else(|| "?".to_string());
        if let Ok(mut s) = SITES.lock() {
            s.push(loc);
        }
    }));
    let stdin = std::io::stdin();
    let stdout = std::io::stdout();
    let mut out = std::io::BufWriter::new(stdout.lock());
    for line in stdin.lock().lines() {
        let line = line.expect("stdin");
        if line.trim().is_empty() {
            continue;
        }
        let v: Value = match serde_json::from_str(&line) {
            Ok(v) => v,
            Err(e) => {
                writeln!(out, "{}", json!({"r":"badcase","msg":e.to_string()})).unwrap();
                continue;
            }
        };
        SITES.lock().unwrap().clear();
        let res = std::panic::catch_unwind(|| vh::gen_case(&v));
        let mut res = match res {
            Ok(r) => r,
            Err(e) => json!({"r":"panic","msg":vh::panic_msg(&e)}),
        };
        let sites = SITES.lock().unwrap().clone();
        if !sites.is_empty() {
            res["panic_at"] = json!(sites);
        }
        writeln!(out, "{}", res).unwrap();
    }
}
