//! C19 harness.
//!
//! `c19 tables <repo_root> <out.v>` — translator T2: regenerates
//! `coq/theories/Gen/DeriveTable.v` from `typify-impl/src/type_entry.rs` with syn:
//!   * the base derive array of `TypeEntry::output`,
//!   * every operation on `derive_set` in `output_enum` / `output_struct` /
//!     `output_newtype` (the `extend([...])` for all-simple-variant enums and for
//!     string newtypes, the `remove("...")` per `TypeEntryNewtypeConstraints` arm),
//!     together with the condition / match arm that guards it,
//!   * the assembly order of `strings_to_derives`,
//!   * the visibility tokens of the three item templates and of the newtype field.
//! Anything it does not recognise (another use of `derive_set`, a different
//! shape of the initialiser, a wildcard arm, a conditional `remove`) makes it
//! exit non-zero with a message: a changed shape is a broken obligation, never an
//! empty table.
//!
//! Without a subcommand it behaves like `vh gen` (JSON lines in / out).
use quote::ToTokens;
use std::fmt::Write as _;
use syn::visit::Visit;

fn die(msg: &str) -> ! {
    eprintln!("c19 tables: {}", msg);
    std::process::exit(3);
}

fn toks<T: ToTokens>(t: &T) -> String {
    t.to_token_stream().to_string()
}

fn coq_str(s: &str) -> String {
    if !s.is_ascii() {
        die(&format!("non-ASCII string in table: {:?}", s));
    }
    format!("\"{}\"", s.replace('"', "\"\""))
}

fn coq_list(xs: &[String]) -> String {
    if xs.is_empty() {
        "(@nil string)".to_string()
    } else {
        format!("[{}]", xs.iter().map(|s| coq_str(s)).collect::<Vec<_>>().join("; "))
    }
}

// ---------------------------------------------------------------- finders
struct ImplFns<'a> {
    name: &'a str,
    found: Vec<syn::ImplItemFn>,
}
impl<'ast, 'a> Visit<'ast> for ImplFns<'a> {
    fn visit_impl_item_fn(&mut self, i: &'ast syn::ImplItemFn) {
        if i.sig.ident == self.name {
            self.found.push(i.clone());
        }
        syn::visit::visit_impl_item_fn(self, i);
    }
}

fn impl_fn(file: &syn::File, name: &str) -> syn::ImplItemFn {
    let mut f = ImplFns { name, found: vec![] };
    for it in &file.items {
        // only `impl TypeEntry { .. }` (not test modules)
        if let syn::Item::Impl(i) = it {
            if i.trait_.is_none() && toks(&i.self_ty) == "TypeEntry" {
                f.visit_item_impl(i);
            }
        }
    }
    if f.found.len() != 1 {
        die(&format!("expected exactly one `fn {}` in `impl TypeEntry`, found {}", name, f.found.len()));
    }
    f.found.pop().unwrap()
}

fn free_fn(file: &syn::File, name: &str) -> syn::ItemFn {
    let v: Vec<_> = file
        .items
        .iter()
        .filter_map(|i| match i {
            syn::Item::Fn(f) if f.sig.ident == name => Some(f.clone()),
            _ => None,
        })
        .collect();
    if v.len() != 1 {
        die(&format!("expected exactly one top-level `fn {}`, found {}", name, v.len()));
    }
    v.into_iter().next().unwrap()
}

fn str_lits(e: &syn::Expr, what: &str) -> Vec<String> {
    match e {
        syn::Expr::Lit(syn::ExprLit { lit: syn::Lit::Str(s), .. }) => vec![s.value()],
        syn::Expr::Array(a) => a
            .elems
            .iter()
            .map(|x| match x {
                syn::Expr::Lit(syn::ExprLit { lit: syn::Lit::Str(s), .. }) => s.value(),
                o => die(&format!("{}: array element is not a string literal: {}", what, toks(o))),
            })
            .collect(),
        syn::Expr::Reference(r) => str_lits(&r.expr, what),
        o => die(&format!("{}: expected string literal(s), got {}", what, toks(o))),
    }
}

fn is_ident(e: &syn::Expr, name: &str) -> bool {
    matches!(e, syn::Expr::Path(p) if p.path.is_ident(name))
}

// ---------------------------------------------------------------- derive_set operations
#[derive(Debug, Clone)]
struct Op {
    method: String,
    args: Vec<String>,
    ctx: Vec<String>,
}

struct Ops<'a> {
    var: &'a str,
    ctx: Vec<String>,
    ops: Vec<Op>,
    mentions: usize,
    locals: Vec<(String, String)>,
}

impl<'ast, 'a> Visit<'ast> for Ops<'a> {
    fn visit_expr_if(&mut self, i: &'ast syn::ExprIf) {
        self.visit_expr(&i.cond);
        self.ctx.push(format!("if {}", toks(&*i.cond)));
        self.visit_block(&i.then_branch);
        self.ctx.pop();
        if let Some((_, e)) = &i.else_branch {
            self.ctx.push(format!("else {}", toks(&*i.cond)));
            self.visit_expr(e);
            self.ctx.pop();
        }
    }
    fn visit_arm(&mut self, a: &'ast syn::Arm) {
        let g = a.guard.as_ref().map(|(_, g)| format!(" if {}", toks(&**g))).unwrap_or_default();
        self.ctx.push(format!("arm {}{}", toks(&a.pat), g));
        self.visit_expr(&a.body);
        self.ctx.pop();
    }
    fn visit_expr_closure(&mut self, c: &'ast syn::ExprClosure) {
        self.ctx.push("closure".to_string());
        self.visit_expr(&c.body);
        self.ctx.pop();
    }
    fn visit_expr_while(&mut self, w: &'ast syn::ExprWhile) {
        self.ctx.push("while".to_string());
        syn::visit::visit_expr_while(self, w);
        self.ctx.pop();
    }
    fn visit_expr_for_loop(&mut self, w: &'ast syn::ExprForLoop) {
        self.ctx.push("for".to_string());
        syn::visit::visit_expr_for_loop(self, w);
        self.ctx.pop();
    }
    fn visit_expr_loop(&mut self, w: &'ast syn::ExprLoop) {
        self.ctx.push("loop".to_string());
        syn::visit::visit_expr_loop(self, w);
        self.ctx.pop();
    }
    fn visit_expr_method_call(&mut self, m: &'ast syn::ExprMethodCall) {
        if is_ident(&m.receiver, self.var) {
            let what = format!("{}.{}", self.var, m.method);
            let args: Vec<String> = m.args.iter().flat_map(|a| str_lits(a, &what)).collect();
            self.ops.push(Op { method: m.method.to_string(), args, ctx: self.ctx.clone() });
        }
        syn::visit::visit_expr_method_call(self, m);
    }
    fn visit_expr_path(&mut self, p: &'ast syn::ExprPath) {
        if p.path.is_ident(self.var) {
            self.mentions += 1;
        }
    }
    fn visit_macro(&mut self, m: &'ast syn::Macro) {
        // macro bodies are opaque to syn: the variable must not be touched there
        let body = m.tokens.to_string();
        if body.split(|c: char| !(c.is_alphanumeric() || c == '_')).any(|w| w == self.var) {
            die(&format!("`{}` is used inside a `{}!` macro body: cannot translate", self.var, toks(&m.path)));
        }
    }
    fn visit_local(&mut self, l: &'ast syn::Local) {
        let pat = match &l.pat {
            syn::Pat::Type(t) => &*t.pat,
            p => p,
        };
        if let (syn::Pat::Ident(id), Some(init)) = (pat, &l.init) {
            self.locals.push((id.ident.to_string(), toks(&*init.expr)));
        }
        syn::visit::visit_local(self, l);
    }
}

fn ops_of_fn(f: &syn::ImplItemFn, var: &str) -> Ops<'static> {
    // lifetimes: var is a literal everywhere below
    let var: &'static str = Box::leak(var.to_string().into_boxed_str());
    let mut o = Ops { var, ctx: vec![], ops: vec![], mentions: 0, locals: vec![] };
    o.visit_block(&f.block);
    o
}

fn local_of(o: &Ops, name: &str, fname: &str) -> String {
    let v: Vec<_> = o.locals.iter().filter(|(n, _)| n == name).collect();
    if v.len() != 1 {
        die(&format!("{}: expected exactly one `let {}`, found {}", fname, name, v.len()));
    }
    v[0].1.clone()
}

/// constraint kinds named by a match-arm pattern over `TypeEntryNewtypeConstraints`
fn arm_kinds(p: &syn::Pat) -> Vec<String> {
    fn last(path: &syn::Path) -> String {
        let segs: Vec<String> = path.segments.iter().map(|s| s.ident.to_string()).collect();
        if segs.len() != 2 || segs[0] != "TypeEntryNewtypeConstraints" {
            die(&format!("newtype constraint arm: unexpected path {}", toks(path)));
        }
        segs[1].clone()
    }
    match p {
        syn::Pat::Or(o) => o.cases.iter().flat_map(arm_kinds).collect(),
        syn::Pat::TupleStruct(t) => vec![last(&t.path)],
        syn::Pat::Struct(s) => vec![last(&s.path)],
        syn::Pat::Path(p) => vec![last(&p.path)],
        syn::Pat::Paren(p) => arm_kinds(&p.pat),
        o => die(&format!("newtype constraint arm: cannot enumerate pattern `{}`", toks(o))),
    }
}

struct MatchLocal<'a> {
    name: &'a str,
    found: Vec<syn::ExprMatch>,
}
impl<'ast, 'a> Visit<'ast> for MatchLocal<'a> {
    fn visit_local(&mut self, l: &'ast syn::Local) {
        if let syn::Pat::Ident(id) = &l.pat {
            if id.ident == self.name {
                if let Some(init) = &l.init {
                    if let syn::Expr::Match(m) = &*init.expr {
                        self.found.push(m.clone());
                    }
                }
            }
        }
        syn::visit::visit_local(self, l);
    }
}

fn match_local(f: &syn::ImplItemFn, name: &str) -> syn::ExprMatch {
    let mut m = MatchLocal { name, found: vec![] };
    m.visit_block(&f.block);
    if m.found.len() != 1 {
        die(&format!("{}: expected exactly one `let {} = match ..`, found {}", f.sig.ident, name, m.found.len()));
    }
    m.found.pop().unwrap()
}

struct Quotes(Vec<String>);
impl<'ast> Visit<'ast> for Quotes {
    fn visit_macro(&mut self, m: &'ast syn::Macro) {
        if m.path.is_ident("quote") {
            let s = m.tokens.to_string();
            // nested quote! inside the token stream are plain tokens: keep the text
            self.0.push(s);
        }
    }
}

fn quotes_of(f: &syn::ImplItemFn) -> Vec<String> {
    let mut q = Quotes(vec![]);
    q.visit_block(&f.block);
    q.0
}

/// token text with ALL whitespace removed (proc_macro2 spacing depends on joint punctuation)
fn squash(s: &str) -> String {
    s.chars().filter(|c| !c.is_whitespace()).collect()
}

fn norm(s: &str) -> String {
    s.split_whitespace().collect::<Vec<_>>().join(" ")
}

const KINDS: [&str; 4] = ["None", "EnumValue", "DenyValue", "String"];

pub fn derive_table(repo: &str) -> String {
    let path = format!("{}/typify-impl/src/type_entry.rs", repo);
    let src = std::fs::read_to_string(&path).unwrap_or_else(|e| die(&format!("read {}: {}", path, e)));
    let file = syn::parse_file(&src).unwrap_or_else(|e| die(&format!("parse {}: {}", path, e)));

    // ---- TypeEntry::output: base set and dispatch
    let f_out = impl_fn(&file, "output");
    let o = ops_of_fn(&f_out, "derive_set");
    if !o.ops.is_empty() {
        die(&format!("output: unexpected operation on derive_set: {:?}", o.ops));
    }
    let base: Option<Vec<String>>;
    struct DL(Vec<syn::Local>);
    impl<'ast> Visit<'ast> for DL {
        fn visit_local(&mut self, l: &'ast syn::Local) {
            let pat = match &l.pat {
                syn::Pat::Type(t) => &*t.pat,
                p => p,
            };
            if let syn::Pat::Ident(id) = pat {
                if id.ident == "derive_set" {
                    self.0.push(l.clone());
                }
            }
            syn::visit::visit_local(self, l);
        }
    }
    let mut dl = DL(vec![]);
    dl.visit_block(&f_out.block);
    if dl.0.len() != 1 {
        die(&format!("output: expected exactly one `let derive_set`, found {}", dl.0.len()));
    }
    {
        let l = &dl.0[0];
        if let syn::Pat::Ident(id) = &l.pat {
            if id.mutability.is_some() {
                die("output: `derive_set` became mutable: re-inspect");
            }
        }
        let init = l.init.as_ref().unwrap_or_else(|| die("output: derive_set has no initialiser"));
        // [..].into_iter().collect::<BTreeSet<_>>()
        let mut e: &syn::Expr = &init.expr;
        let mut chain = vec![];
        while let syn::Expr::MethodCall(m) = e {
            if !m.args.is_empty() {
                die(&format!("output: derive_set initialiser calls {}(..) with arguments", m.method));
            }
            chain.push(m.method.to_string());
            e = &m.receiver;
        }
        chain.reverse();
        if chain != ["into_iter", "collect"] {
            die(&format!("output: derive_set initialiser chain is {:?}, expected [into_iter, collect]", chain));
        }
        if let syn::Expr::MethodCall(m) = &*init.expr {
            let tf = m.turbofish.as_ref().map(|t| norm(&toks(t))).unwrap_or_default();
            if !tf.contains("BTreeSet") {
                die(&format!("output: derive_set is collected into `{}`, not a BTreeSet", tf));
            }
        }
        match e {
            syn::Expr::Array(_) => base = Some(str_lits(e, "output: base derive array")),
            o => die(&format!("output: derive_set initialiser does not start from an array: {}", toks(o))),
        }
    }
    let base = base.unwrap();
    if base.is_empty() {
        die("output: base derive array is empty");
    }
    let body = norm(&toks(&f_out.block));
    for (call, arg) in [("output_enum", "enum_details"), ("output_struct", "struct_details"), ("output_newtype", "newtype_details")] {
        let want = format!("self . {} (type_space , output , {} , derive_set)", call, arg);
        if !body.contains(&want) {
            die(&format!("output: dispatch `{}` not found", want));
        }
    }
    if o.mentions != 3 {
        die(&format!("output: derive_set is mentioned {} times, expected 3 (one per kind)", o.mentions));
    }

    // ---- output_enum
    let f_enum = impl_fn(&file, "output_enum");
    let oe = ops_of_fn(&f_enum, "derive_set");
    if oe.ops.len() != 1 || oe.ops[0].method != "extend" || oe.ops[0].ctx.len() != 1 || !oe.ops[0].ctx[0].starts_with("if ") {
        die(&format!("output_enum: expected exactly one `if <cond> {{ derive_set.extend([..]) }}`, found {:?}", oe.ops));
    }
    if oe.mentions != 2 {
        die(&format!("output_enum: derive_set mentioned {} times, expected 2 (extend + strings_to_derives)", oe.mentions));
    }
    let enum_ext = oe.ops[0].args.clone();
    let enum_cond = norm(&oe.ops[0].ctx[0][3..]);
    if enum_ext.is_empty() {
        die("output_enum: extension array is empty");
    }

    // ---- output_struct
    let f_struct = impl_fn(&file, "output_struct");
    let os = ops_of_fn(&f_struct, "derive_set");
    if !os.ops.is_empty() || os.mentions != 1 {
        die(&format!("output_struct: expected derive_set to be passed on untouched, found ops {:?}, {} mentions", os.ops, os.mentions));
    }

    // ---- output_newtype
    let f_nt = impl_fn(&file, "output_newtype");
    let on = ops_of_fn(&f_nt, "derive_set");
    let is_str_def = norm(&local_of(&on, "is_str", "output_newtype"));
    let inner_def = norm(&local_of(&on, "inner_type", "output_newtype"));
    if on.ops.is_empty() || on.ops[0].method != "extend" || on.ops[0].ctx.len() != 1 || !on.ops[0].ctx[0].starts_with("if ") {
        die(&format!("output_newtype: first derive_set operation is not `if <cond> {{ derive_set.extend([..]) }}`: {:?}", on.ops.first()));
    }
    // the condition text goes into the table (pinned by the check): a changed condition is a changed table
    let str_cond = norm(&on.ops[0].ctx[0][3..]);
    let str_ext = on.ops[0].args.clone();
    if str_ext.is_empty() {
        die("output_newtype: extension array is empty");
    }
    let m = match_local(&f_nt, "constraint_impl");
    if norm(&toks(&*m.expr)) != "constraints" {
        die(&format!("output_newtype: constraint_impl matches on `{}`, expected `constraints`", toks(&*m.expr)));
    }
    let mut removed: Vec<(String, Vec<String>)> = vec![];
    let mut arm_ops_total = 0;
    for arm in &m.arms {
        if arm.guard.is_some() {
            die("output_newtype: guarded arm in constraint_impl");
        }
        let kinds = arm_kinds(&arm.pat);
        let mut ao = Ops { var: "derive_set", ctx: vec![], ops: vec![], mentions: 0, locals: vec![] };
        ao.visit_expr(&arm.body);
        let mut rm = vec![];
        for op in &ao.ops {
            if op.method != "remove" || !op.ctx.is_empty() || op.args.len() != 1 {
                die(&format!("output_newtype: arm {:?}: unrecognised derive_set operation {:?}", kinds, op));
            }
            rm.push(op.args[0].clone());
        }
        arm_ops_total += ao.ops.len();
        for k in kinds {
            if removed.iter().any(|(n, _)| *n == k) {
                die(&format!("output_newtype: constraint kind {} matched twice", k));
            }
            removed.push((k, rm.clone()));
        }
    }
    for k in KINDS {
        if !removed.iter().any(|(n, _)| n == k) {
            die(&format!("output_newtype: no arm for TypeEntryNewtypeConstraints::{}", k));
        }
    }
    if removed.len() != KINDS.len() {
        die(&format!("output_newtype: constraint kinds are {:?}, expected {:?}: the IR changed", removed.iter().map(|x| &x.0).collect::<Vec<_>>(), KINDS));
    }
    // operations that are neither the first extend nor an unconditional remove inside a constraint arm
    // (e.g. a remove hoisted out of the match under an `if`): tabled verbatim in `newtype_other_ops`, which the
    // check pins to the empty list - the model does not interpret them, so the obligation breaks, but the
    // table is still regenerated and every other obligation keeps running.
    let mut other_ops: Vec<String> = vec![];
    {
        let arm_ctx = |op: &Op| op.ctx.iter().any(|c| c.starts_with("arm TypeEntryNewtypeConstraints") || c.starts_with("arm _"));
        for op in on.ops.iter().skip(1) {
            let in_constraint_match = arm_ctx(op) && op.method == "remove" && op.ctx.len() == 1;
            if !in_constraint_match {
                other_ops.push(format!("{}({}) under [{}]", op.method, op.args.join(", "), op.ctx.join(" / ")));
            }
        }
    }
    if on.ops.len() != 1 + arm_ops_total + other_ops.len() {
        die(&format!("output_newtype: {} derive_set operations, {} understood: {:?}", on.ops.len(), 1 + arm_ops_total + other_ops.len(), on.ops));
    }
    if on.mentions != on.ops.len() + 1 {
        die(&format!("output_newtype: derive_set mentioned {} times, expected {}", on.mentions, on.ops.len() + 1));
    }
    // field visibility: `let vis = match constraints { None => Some(quote!{pub}), _ => None }`
    let vm = match_local(&f_nt, "vis");
    if norm(&toks(&*vm.expr)) != "constraints" {
        die("output_newtype: `vis` does not match on `constraints`");
    }
    let mut field_pub: Vec<(String, bool)> = vec![];
    for arm in &vm.arms {
        if arm.guard.is_some() {
            die("output_newtype: guarded arm in vis");
        }
        let b = norm(&toks(&*arm.body));
        let is_pub = if b == "Some (quote ! { pub })" {
            true
        } else if b == "None" {
            false
        } else {
            die(&format!("output_newtype: vis arm body `{}` not understood", b))
        };
        if let syn::Pat::Wild(_) = &arm.pat {
            for k in KINDS {
                if !field_pub.iter().any(|(n, _)| n == k) {
                    field_pub.push((k.to_string(), is_pub));
                }
            }
        } else {
            for k in arm_kinds(&arm.pat) {
                if !field_pub.iter().any(|(n, _)| *n == k) {
                    field_pub.push((k, is_pub));
                }
            }
        }
    }
    for k in KINDS {
        if !field_pub.iter().any(|(n, _)| n == k) {
            die(&format!("output_newtype: vis has no arm covering {}", k));
        }
    }

    // ---- item templates (quote! bodies are token text)
    let has = |f: &syn::ImplItemFn, pat: &str| quotes_of(f).iter().any(|q| squash(q).contains(&squash(pat)));
    let enum_pub = has(&f_enum, "# [derive (# (# derives) , *)] # serde pub enum # type_name {");
    let enum_any = has(&f_enum, "enum # type_name {");
    let struct_pub = has(&f_struct, "# [derive (# (# derives) , *)] # serde pub struct # type_name {");
    let struct_any = has(&f_struct, "struct # type_name {");
    let sfield_pub = has(&f_struct, "# prop_serde pub # prop_name : # prop_type ,");
    let sfield_any = has(&f_struct, "# prop_name : # prop_type ,");
    let nt_pub = has(&f_nt, "# [derive (# (# derives) , *)] # [serde (transparent)] pub struct # type_name (# vis # inner_type_name) ;");
    let nt_any = has(&f_nt, "struct # type_name (# vis # inner_type_name) ;");
    if !(enum_any && struct_any && sfield_any && nt_any) {
        die(&format!(
            "item templates not recognised (enum {}, struct {}, struct field {}, newtype {}): re-inspect output_*",
            enum_any, struct_any, sfield_any, nt_any
        ));
    }
    let from_enum = has(&f_enum, "impl :: std :: convert :: From < & Self > for # type_name {");
    let from_struct = has(&f_struct, "impl :: std :: convert :: From < & # type_name > for # type_name {");
    let from_nt = has(&f_nt, "impl :: std :: convert :: From < & # type_name > for # type_name {");
    // the validating Deserialize impl sits in the constraint arms that remove the derive
    let mut de_impl: Vec<(String, bool)> = vec![];
    for arm in &m.arms {
        let mut q = Quotes(vec![]);
        q.visit_expr(&arm.body);
        let h = q.0.iter().any(|s| squash(s).contains(&squash("impl < 'de > :: serde :: Deserialize < 'de > for # type_name {")));
        for k in arm_kinds(&arm.pat) {
            de_impl.push((k, h));
        }
    }

    // ---- strings_to_derives
    let f_s2d = free_fn(&file, "strings_to_derives");
    let params: Vec<String> = f_s2d
        .sig
        .inputs
        .iter()
        .map(|a| match a {
            syn::FnArg::Typed(t) => norm(&toks(&*t.pat)),
            _ => die("strings_to_derives: receiver?"),
        })
        .collect();
    if params != ["derive_set", "type_derives", "extra_derives"] {
        die(&format!("strings_to_derives: parameters are {:?}", params));
    }
    let call_ok = |f: &syn::ImplItemFn| {
        let b = squash(&toks(&f.block));
        b.contains("strings_to_derives(derive_set,&self.extra_derives,&type_space.settings.extra_derives,)")
            || b.contains("strings_to_derives(derive_set,&self.extra_derives,&type_space.settings.extra_derives)")
    };
    if !(call_ok(&f_enum) && call_ok(&f_struct) && call_ok(&f_nt)) {
        die("strings_to_derives is not called as (derive_set, &self.extra_derives, &type_space.settings.extra_derives) in all three output fns");
    }
    struct S2D {
        ops: Vec<String>,
    }
    impl<'ast> Visit<'ast> for S2D {
        fn visit_local(&mut self, l: &'ast syn::Local) {
            if let syn::Pat::Ident(id) = &l.pat {
                if id.ident == "combined_derives" {
                    self.ops.push(format!("let {}", norm(&l.init.as_ref().map(|i| toks(&*i.expr)).unwrap_or_default())));
                }
            }
            syn::visit::visit_local(self, l);
        }
        fn visit_expr_method_call(&mut self, m: &'ast syn::ExprMethodCall) {
            if is_ident(&m.receiver, "combined_derives") {
                let arg0 = m.args.first().map(|a| {
                    // first identifier of the argument expression
                    let s = toks(a);
                    s.split(|c: char| !(c.is_alphanumeric() || c == '_')).find(|w| !w.is_empty()).unwrap_or("").to_string()
                });
                self.ops.push(format!("{} {}", m.method, arg0.unwrap_or_default()).trim().to_string());
            }
            syn::visit::visit_expr_method_call(self, m);
        }
    }
    let mut s2d = S2D { ops: vec![] };
    s2d.visit_block(&f_s2d.block);

    // ---- emit
    let mut out = String::new();
    out.push_str("(* REGENERATED by `c19 tables` from typify-impl/src/type_entry.rs - do not edit. *)\n");
    out.push_str("From Coq Require Import String List Bool.\nImport ListNotations.\nOpen Scope string_scope.\n\n");
    writeln!(out, "(* TypeEntry::output: `let derive_set = [..].into_iter().collect::<BTreeSet<_>>()` *)").unwrap();
    writeln!(out, "Definition base_derives : list string := {}.\n", coq_list(&base)).unwrap();
    writeln!(out, "(* output_enum: `if <cond> {{ derive_set.extend([..]) }}` *)").unwrap();
    writeln!(out, "Definition simple_enum_cond : string := {}.", coq_str(&enum_cond)).unwrap();
    writeln!(out, "Definition simple_enum_derives : list string := {}.\n", coq_list(&enum_ext)).unwrap();
    writeln!(out, "(* output_struct: no operation on derive_set *)").unwrap();
    writeln!(out, "Definition struct_derive_ops : list string := (@nil string).\n").unwrap();
    writeln!(out, "(* output_newtype: `if <string_newtype_cond> {{ derive_set.extend([..]) }}` *)").unwrap();
    writeln!(out, "Definition newtype_inner_def : string := {}.", coq_str(&inner_def)).unwrap();
    writeln!(out, "Definition is_str_def : string := {}.", coq_str(&is_str_def)).unwrap();
    writeln!(out, "Definition string_newtype_cond : string := {}.", coq_str(&str_cond)).unwrap();
    writeln!(out, "Definition string_newtype_derives : list string := {}.\n", coq_list(&str_ext)).unwrap();
    writeln!(out, "(* output_newtype: `derive_set.remove(..)` per arm of `match constraints` (after the extend) *)").unwrap();
    let rows: Vec<String> = KINDS
        .iter()
        .map(|k| {
            let r = &removed.iter().find(|(n, _)| n == k).unwrap().1;
            format!("({}, {})", coq_str(k), coq_list(r))
        })
        .collect();
    writeln!(out, "Definition newtype_removed : list (string * list string) :=\n  [ {} ].\n", rows.join("\n  ; ")).unwrap();
    writeln!(out, "(* output_newtype: derive_set operations the translator does not interpret (must be none) *)").unwrap();
    writeln!(out, "Definition newtype_other_ops : list string := {}.\n", coq_list(&other_ops.iter().map(|s| norm(s)).collect::<Vec<_>>())).unwrap();
    writeln!(out, "(* output_newtype: arms of `match constraints` whose quote! holds `impl<'de> ::serde::Deserialize<'de> for #type_name` *)").unwrap();
    let rows: Vec<String> = KINDS
        .iter()
        .map(|k| format!("({}, {})", coq_str(k), de_impl.iter().find(|(n, _)| n == k).map(|x| x.1).unwrap_or(false)))
        .collect();
    writeln!(out, "Definition newtype_deserialize_impl : list (string * bool) :=\n  [ {} ].\n", rows.join("; ")).unwrap();
    writeln!(out, "(* output_newtype: `let vis = match constraints {{ .. }}`: is the inner field `pub`? *)").unwrap();
    let rows: Vec<String> = KINDS
        .iter()
        .map(|k| format!("({}, {})", coq_str(k), field_pub.iter().find(|(n, _)| n == k).unwrap().1))
        .collect();
    writeln!(out, "Definition newtype_field_pub : list (string * bool) :=\n  [ {} ].\n", rows.join("; ")).unwrap();
    writeln!(out, "(* item templates: does the quote! text read `pub enum #type_name`, `pub struct #type_name {{`,\n   `pub #prop_name: #prop_type`, `pub struct #type_name(#vis #inner_type_name);` ? *)").unwrap();
    writeln!(out, "Definition enum_item_pub : bool := {}.", enum_pub).unwrap();
    writeln!(out, "Definition struct_item_pub : bool := {}.", struct_pub).unwrap();
    writeln!(out, "Definition struct_field_pub : bool := {}.", sfield_pub).unwrap();
    writeln!(out, "Definition newtype_item_pub : bool := {}.\n", nt_pub).unwrap();
    writeln!(out, "(* `impl From<&Self> for #type_name` (enum) / `impl From<&#type_name> for #type_name` (struct, newtype) present in the template *)").unwrap();
    writeln!(out, "Definition enum_from_ref : bool := {}.", from_enum).unwrap();
    writeln!(out, "Definition struct_from_ref : bool := {}.", from_struct).unwrap();
    writeln!(out, "Definition newtype_from_ref : bool := {}.\n", from_nt).unwrap();
    writeln!(out, "(* strings_to_derives(derive_set, type_derives = &self.extra_derives, extra_derives = &settings.extra_derives):\n   operations on `combined_derives`, in order *)").unwrap();
    writeln!(out, "Definition assembly_ops : list string := {}.", coq_list(&s2d.ops)).unwrap();
    out
}

fn main() {
    let args: Vec<String> = std::env::args().collect();
    match args.get(1).map(String::as_str) {
        Some("tables") => {
            let repo = args.get(2).map(String::as_str).unwrap_or("/repo");
            let out = args.get(3).map(String::as_str).unwrap_or("/verif/coq/theories/Gen/DeriveTable.v");
            let text = derive_table(repo);
            let changed = std::fs::read_to_string(out).map(|o| o != text).unwrap_or(true);
            if changed {
                if let Some(p) = std::path::Path::new(out).parent() {
                    let _ = std::fs::create_dir_all(p);
                }
                std::fs::write(out, &text).unwrap_or_else(|e| die(&format!("write {}: {}", out, e)));
            }
            println!("{}", if changed { "changed" } else { "unchanged" });
        }
        _ => vh::run_lines(vh::gen_case),
    }
}
