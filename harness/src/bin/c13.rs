//! C13 harness: x-rust-type decision table and semver matching.
//!
//! {"op":"req","req":<str>,"versions":[<str>..]}
//!    -> {"r":"ok","comparators":[{op,major,minor,patch,pre}],"versions":[{r,major,minor,patch,pre,matches}]}
//!     | {"r":"err","msg":..}
//!    `semver::VersionReq::parse` (the parser typify calls) printed field by
//!    field, and `req.matches(&v)` (what typify calls) for every version.
//! {"op":"paths","paths":[<str>..]} -> {"r":"ok","type_path":[bool..]}
//!    `syn::parse_str::<syn::TypePath>(p).is_ok()`, the test convert_rust_extension
//!    applies to the extension's `path` (same syn version through Cargo.lock).
//! {"op":"pipe", "settings":.., "steps":[..]}
//!    -> the real pipeline (`vh::gen_case`) reduced to what C13 observes:
//!       step results, top-level items (kind, name, field types), the public
//!       API view (`types`: id, name, ident, details), and the type-space
//!       entries (`ir`, from the verif_dump hook) for cases where rendering
//!       panics.
use serde_json::{json, Value};

fn req_case(case: &Value) -> Value {
    let text = case["req"].as_str().unwrap_or("");
    let req = match semver::VersionReq::parse(text) {
        Ok(r) => r,
        Err(e) => return json!({"r":"err","msg":e.to_string()}),
    };
    let comps: Vec<Value> = req
        .comparators
        .iter()
        .map(|c| {
            json!({
                "op": format!("{:?}", c.op),
                "major": c.major,
                "minor": c.minor,
                "patch": c.patch,
                "pre": c.pre.as_str(),
            })
        })
        .collect();
    let empty = vec![];
    let vers: Vec<Value> = case["versions"]
        .as_array()
        .unwrap_or(&empty)
        .iter()
        .map(|v| match semver::Version::parse(v.as_str().unwrap_or("")) {
            Ok(v) => json!({
                "r":"ok","major":v.major,"minor":v.minor,"patch":v.patch,"pre":v.pre.as_str(),
                "matches": req.matches(&v),
            }),
            Err(e) => json!({"r":"err","msg":e.to_string()}),
        })
        .collect();
    json!({"r":"ok","comparators":comps,"versions":vers})
}

fn paths_case(case: &Value) -> Value {
    let empty = vec![];
    let v: Vec<bool> = case["paths"]
        .as_array()
        .unwrap_or(&empty)
        .iter()
        .map(|p| syn::parse_str::<syn::TypePath>(p.as_str().unwrap_or("")).is_ok())
        .collect();
    json!({"r":"ok","type_path":v})
}

fn pipe_case(case: &Value) -> Value {
    let mut c = case.clone();
    c["code"] = json!(false);
    c["render_anyway"] = json!(true);
    let full = vh::gen_case(&c);
    let mut out = json!({"r": full["r"], "steps": full["steps"], "all_ok": full["all_ok"]});
    if let Some(msg) = full.get("msg") {
        out["msg"] = msg.clone();
    }
    if let Some(r) = full.get("render") {
        out["render"] = r["r"].clone();
        if let Some(items) = r["scan"]["items"].as_array() {
            let keep: Vec<Value> = items
                .iter()
                .filter(|i| i["mod"] == "" && (i["kind"] == "struct" || i["kind"] == "enum"))
                .map(|i| {
                    json!({"kind": i["kind"], "name": i["name"], "serde": i["serde"],
                           "fields": i.get("fields").cloned().unwrap_or(Value::Null),
                           "variants": i.get("variants").cloned().unwrap_or(Value::Null)})
                })
                .collect();
            out["items"] = json!(keep);
        }
    }
    // the type space itself (hook view), for cases where rendering panics
    if let Some(entries) = full.get("dump").and_then(|d| d["entries"].as_object()) {
        let mut ir = serde_json::Map::new();
        for (k, e) in entries {
            ir.insert(
                k.clone(),
                json!({"kind": e["kind"], "name": e["name"], "type_name": e["type_name"],
                       "params": e["params"], "type_id": e["type_id"],
                       "props": e["props"].as_array().map(|ps| ps.iter().map(|p| json!([p["name"], p["type_id"]])).collect::<Vec<_>>())}),
            );
        }
        out["ir"] = Value::Object(ir);
    }
    if let Some(t) = full.get("types").and_then(|t| t.as_array()) {
        let keep: Vec<Value> = t
            .iter()
            .map(|t| json!({"id": t["id"], "name": t["name"], "ident": t["ident"], "details": t["details"]}))
            .collect();
        out["types"] = json!(keep);
    }
    out
}

fn main() {
    vh::run_lines(|case| match case["op"].as_str().unwrap_or("") {
        "req" => req_case(case),
        "pipe" => pipe_case(case),
        "paths" => paths_case(case),
        _ => json!({"r":"badcase","msg":"op must be req|pipe|paths"}),
    });
}
