//! C11 harness.  `c11 regress`: one JSON case per line
//!   {"pattern": p, "strings": [s..]}
//!     -> {"r":"ok","find":[bool..]}   (regress::Regex::new(p).unwrap().find(s).is_some(),
//!                                       exactly the call the generated FromStr makes)
//!      | {"r":"badpattern","msg":..}
//! Panics are caught by run_lines.
use serde_json::{json, Value};

fn regress_case(case: &Value) -> Value {
    let p = case["pattern"].as_str().unwrap_or("");
    let re = match regress::Regex::new(p) {
        Ok(r) => r,
        Err(e) => return json!({"r":"badpattern","msg":e.to_string()}),
    };
    let empty = vec![];
    let find: Vec<bool> = case["strings"]
        .as_array()
        .unwrap_or(&empty)
        .iter()
        .map(|s| re.find(s.as_str().unwrap_or("")).is_some())
        .collect();
    json!({"r":"ok","find":find})
}

fn main() {
    let sub = std::env::args().nth(1).unwrap_or_default();
    match sub.as_str() {
        "regress" => vh::run_lines(regress_case),
        _ => {
            eprintln!("usage: c11 regress");
            std::process::exit(2);
        }
    }
}
