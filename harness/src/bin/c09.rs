//! C09: probe the REAL typify merge (`typify_impl::verif::merge_all`, feature verif-hooks).
//!
//! case:   {"op":"merge","schemas":[schema..],"defs":{name:schema..}}
//! result: {"r":"ok","schema":<merged schema JSON; `false` = never>}
//!       | {"r":"panic","msg":..}           (unimplemented!/todo!/assert in merge.rs: a rejection)
//!       | {"r":"badschema","msg":..}
//! case:   {"op":"validate","schema":s,"values":[v..],"defs":{..}}
//! result: {"r":"ok","valid":[bool..]}      (validate.rs `schema_value_validate`, the enum filter)
//! case:   {"op":"mutex","schemas":[..],"defs":{..}} -> {"r":"ok","mutex":bool}
use std::collections::BTreeMap;

use schemars::schema::Schema;
use serde_json::{json, Value};

fn schemas_of(v: &Value) -> Result<Vec<Schema>, String> {
    v.as_array()
        .ok_or_else(|| "schemas: not an array".to_string())?
        .iter()
        .map(|s| serde_json::from_value::<Schema>(s.clone()).map_err(|e| e.to_string()))
        .collect()
}

fn defs_of(v: &Value) -> Result<BTreeMap<String, Schema>, String> {
    let mut out = BTreeMap::new();
    if let Some(m) = v.as_object() {
        for (k, s) in m {
            out.insert(
                k.clone(),
                serde_json::from_value::<Schema>(s.clone()).map_err(|e| e.to_string())?,
            );
        }
    }
    Ok(out)
}

fn one(case: &Value) -> Value {
    let defs = match defs_of(&case["defs"]) {
        Ok(d) => d,
        Err(e) => return json!({"r":"badschema","msg":e}),
    };
    match case["op"].as_str().unwrap_or("merge") {
        "merge" => {
            let schemas = match schemas_of(&case["schemas"]) {
                Ok(s) => s,
                Err(e) => return json!({"r":"badschema","msg":e}),
            };
            let m = typify_impl::verif::merge_all(&schemas, &defs);
            json!({"r":"ok","schema": serde_json::to_value(&m).unwrap()})
        }
        "validate" => {
            let schema = match serde_json::from_value::<Schema>(case["schema"].clone()) {
                Ok(s) => s,
                Err(e) => return json!({"r":"badschema","msg":e.to_string()}),
            };
            let empty = vec![];
            let vals = case["values"].as_array().unwrap_or(&empty);
            let out: Vec<bool> = vals
                .iter()
                .map(|v| typify_impl::verif::schema_value_validate(&schema, v, &defs).is_ok())
                .collect();
            json!({"r":"ok","valid":out})
        }
        "mutex" => {
            let schemas = match schemas_of(&case["schemas"]) {
                Ok(s) => s,
                Err(e) => return json!({"r":"badschema","msg":e}),
            };
            json!({"r":"ok","mutex": typify_impl::verif::all_mutually_exclusive(&schemas, &defs)})
        }
        other => json!({"r":"badcase","msg":format!("op {}", other)}),
    }
}

fn main() {
    vh::run_lines(one);
}
