//! C16: histories of API calls against ONE TypeSpace, observed after EVERY call.
//!
//! case:   {"settings":{..}, "steps":[step..], "scan":"names"|"full"}
//!         step = {"op":"root","doc":..} | {"op":"refs","defs":{..}} |
//!                {"op":"add","schema":..,"name":opt}
//! result: {"r":"done","steps":[{
//!            "res":   {"r":"ok","id":..} | {"r":"err",..} | {"r":"panic",..},
//!            "dump":  verif_dump() after the call (settings dropped),
//!            "pre":   [{"base_id","def_len","next_id","entries":{id:children}}]  (state right before break_cycles),
//!            "views": {id: {"name","ident","details","has_impl"}}   public API for every entry | {"panic":..},
//!            "render": {"r":"ok","items":[[mod,kind,name]..],"impls":[[mod,trait,for]..], "scan":<full>?} | {"r":"render-panic"|..}
//!         }..]}
use serde_json::{json, Value};
use typify_impl::TypeSpace;

fn slim_dump(mut d: Value) -> Value {
    if let Some(o) = d.as_object_mut() {
        o.remove("settings");
    }
    d
}

fn views(ts: &TypeSpace) -> Value {
    match std::panic::catch_unwind(std::panic::AssertUnwindSafe(|| vh::api_types(ts))) {
        Ok(v) => {
            let mut m = serde_json::Map::new();
            for t in v {
                m.insert(
                    t["id"].as_u64().unwrap().to_string(),
                    json!({"name": t["name"], "ident": t["ident"], "details": t["details"],
                           "has_impl": t["has_impl"]}),
                );
            }
            Value::Object(m)
        }
        Err(e) => json!({"panic": vh::panic_msg(&e)}),
    }
}

fn render(ts: &TypeSpace, full: bool) -> Value {
    let r = vh::render(ts, false);
    if r["r"] != "ok" {
        return json!({"r": r["r"], "msg": r["msg"]});
    }
    let items: Vec<Value> = r["scan"]["items"]
        .as_array()
        .unwrap()
        .iter()
        .map(|i| json!([i["mod"], i["kind"], i["name"]]))
        .collect();
    let impls: Vec<Value> = r["scan"]["impls"]
        .as_array()
        .unwrap()
        .iter()
        .map(|i| json!([i["mod"], i["trait"], i["for"]]))
        .collect();
    // token-level fingerprint of every rendered item / impl: [mod, kind|trait, name|for, hash]
    let h = |v: &Value| -> String {
        use std::hash::{Hash, Hasher};
        let mut hs = std::collections::hash_map::DefaultHasher::new();
        v.to_string().hash(&mut hs);
        format!("{:016x}", hs.finish())
    };
    let mut sigs: Vec<Value> = r["scan"]["items"]
        .as_array()
        .unwrap()
        .iter()
        .map(|i| json!([i["mod"], i["kind"], i["name"], h(i)]))
        .collect();
    sigs.extend(
        r["scan"]["impls"]
            .as_array()
            .unwrap()
            .iter()
            .map(|i| json!([i["mod"], i["trait"], i["for"], h(i)])),
    );
    let mut out = json!({"r":"ok","items":items,"impls":impls,"sigs":sigs});
    if full {
        out["scan"] = r["scan"].clone();
    }
    out
}

fn pre_slim(pre: Vec<Value>) -> Value {
    Value::Array(
        pre.into_iter()
            .map(|p| {
                json!({
                    "base_id": p["base_id"],
                    "def_len": p["def_len"],
                    "space": slim_dump(p["space"].clone()),
                })
            })
            .collect(),
    )
}

fn main() {
    vh::run_lines(|case| {
        let settings = match std::panic::catch_unwind(|| vh::settings_from_json(&case["settings"])) {
            Ok(s) => s,
            Err(e) => return json!({"r":"settings-panic","msg":vh::panic_msg(&e)}),
        };
        let full = case["scan"].as_str() == Some("full");
        let mut ts = TypeSpace::new(&settings);
        let _ = typify_impl::verif::take_pre_cycles();
        let mut out = vec![];
        let empty = vec![];
        let steps = case["steps"].as_array().unwrap_or(&empty);
        for (i, st) in steps.iter().enumerate() {
            let res = vh::ingest_step(&mut ts, st);
            let pre = typify_impl::verif::take_pre_cycles();
            let last = i + 1 == steps.len();
            out.push(json!({
                "res": res,
                "dump": slim_dump(ts.verif_dump()),
                "pre": pre_slim(pre),
                "views": views(&ts),
                "render": render(&ts, full && last),
            }));
        }
        json!({"r":"done","steps":out})
    });
}
