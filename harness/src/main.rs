//! `vh` — verification harness: runs /repo's typify on JSON-lines cases.
//! Every subcommand reads one JSON case per stdin line and writes one JSON
//! result per stdout line (same order).  Panics are caught and reported.

mod c10;
mod tables;

pub use vh::{err_kind, run_lines};

fn main() {
    let args: Vec<String> = std::env::args().collect();
    let cmd = args.get(1).map(String::as_str).unwrap_or("");
    match cmd {
        "c10" => c10::main(),
        "tables" => tables::main(&args[2..]),
        "gen" => vh::run_lines(vh::gen_case),
        "strfacts" => vh::run_lines(vh::strfacts),
        _ => {
            eprintln!("usage: vh <c10|tables> ...");
            std::process::exit(2);
        }
    }
}
