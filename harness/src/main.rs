//! `vh` — verification harness: runs /repo's typify on JSON-lines cases.
//! Every subcommand reads one JSON case per stdin line and writes one JSON
//! result per stdout line (same order).  Panics are caught and reported.
use std::io::{BufRead, Write};

mod c10;
mod tables;

pub fn run_lines<F>(f: F)
where
    F: Fn(&serde_json::Value) -> serde_json::Value + std::panic::RefUnwindSafe,
{
    std::panic::set_hook(Box::new(|_| {}));
    let stdin = std::io::stdin();
    let stdout = std::io::stdout();
    let mut out = std::io::BufWriter::new(stdout.lock());
    for line in stdin.lock().lines() {
        let line = line.expect("stdin");
        if line.trim().is_empty() {
            continue;
        }
        let v: serde_json::Value = match serde_json::from_str(&line) {
            Ok(v) => v,
            Err(e) => {
                writeln!(out, "{}", serde_json::json!({"r":"badcase","msg":e.to_string()})).unwrap();
                continue;
            }
        };
        let res = std::panic::catch_unwind(|| f(&v));
        let res = match res {
            Ok(r) => r,
            Err(e) => {
                let msg = if let Some(s) = e.downcast_ref::<String>() {
                    s.clone()
                } else if let Some(s) = e.downcast_ref::<&str>() {
                    s.to_string()
                } else {
                    "?".to_string()
                };
                serde_json::json!({"r":"panic","msg":msg})
            }
        };
        writeln!(out, "{}", res).unwrap();
    }
}

pub fn err_kind(e: &typify_impl::Error) -> serde_json::Value {
    use typify_impl::Error::*;
    match e {
        BadValue(a, _) => serde_json::json!({"r":"err","kind":"BadValue","msg":a}),
        InvalidTypeId => serde_json::json!({"r":"err","kind":"InvalidTypeId"}),
        InvalidValue => serde_json::json!({"r":"err","kind":"InvalidValue"}),
        InvalidSchema { reason, .. } => {
            serde_json::json!({"r":"err","kind":"InvalidSchema","msg":reason})
        }
    }
}

fn main() {
    let args: Vec<String> = std::env::args().collect();
    let cmd = args.get(1).map(String::as_str).unwrap_or("");
    match cmd {
        "c10" => c10::main(),
        "tables" => tables::main(&args[2..]),
        _ => {
            eprintln!("usage: vh <c10|tables> ...");
            std::process::exit(2);
        }
    }
}
