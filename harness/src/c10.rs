//! C10: scalar selection through the public API only.
//! case: {"schema": <schema json>}  ->  {"r":"ok","ty":<builtin name | "String" | kind>}
use typify_impl::{TypeDetails, TypeSpace, TypeSpaceSettings};

pub fn describe(ts: &TypeSpace, id: &typify_impl::TypeId) -> String {
    let ty = ts.get_type(id).unwrap();
    let s = match ty.details() {
        TypeDetails::Builtin(n) => n.to_string(),
        TypeDetails::String => "String".to_string(),
        TypeDetails::Unit => "()".to_string(),
        TypeDetails::Option(_) => "<option>".to_string(),
        TypeDetails::Vec(_) => "<vec>".to_string(),
        TypeDetails::Map(_, _) => "<map>".to_string(),
        TypeDetails::Set(_) => "<set>".to_string(),
        TypeDetails::Box(_) => "<box>".to_string(),
        TypeDetails::Tuple(_) => "<tuple>".to_string(),
        TypeDetails::Array(_, _) => "<array>".to_string(),
        TypeDetails::Enum(_) => "<enum>".to_string(),
        TypeDetails::Struct(_) => "<struct>".to_string(),
        TypeDetails::Newtype(_) => "<newtype>".to_string(),
    };
    s
}

pub fn main() {
    crate::run_lines(|case| {
        let schema: schemars::schema::Schema = match serde_json::from_value(case["schema"].clone())
        {
            Ok(s) => s,
            Err(e) => return serde_json::json!({"r":"badschema","msg":e.to_string()}),
        };
        // what the real parser (schemars + serde_json) made of the numbers
        let mut seen = serde_json::Map::new();
        if let schemars::schema::Schema::Object(o) = &schema {
            let b = |x: Option<f64>| match x {
                Some(f) => serde_json::json!(f.to_bits().to_string()),
                None => serde_json::Value::Null,
            };
            if let Some(n) = &o.number {
                seen.insert("minimum".into(), b(n.minimum));
                seen.insert("maximum".into(), b(n.maximum));
                seen.insert("exclusiveMinimum".into(), b(n.exclusive_minimum));
                seen.insert("exclusiveMaximum".into(), b(n.exclusive_maximum));
                seen.insert("multipleOf".into(), b(n.multiple_of));
            }
            if let Some(d) = o.metadata.as_ref().and_then(|m| m.default.as_ref()) {
                seen.insert("has_default".into(), serde_json::json!(true));
                seen.insert("default".into(), b(d.as_f64()));
            }
        }
        let mut ts = TypeSpace::new(&TypeSpaceSettings::default());
        let mut r = match ts.add_type(&schema) {
            Ok(id) => serde_json::json!({"r":"ok","ty":describe(&ts,&id)}),
            Err(e) => crate::err_kind(&e),
        };
        r["seen"] = serde_json::Value::Object(seen);
        r
    });
}
