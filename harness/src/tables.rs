//! Translators T1..: regenerate Coq data from /repo's Rust sources with syn.
//! `vh tables <repo_root> <out_dir>` rewrites <out_dir>/IntTable.v (and others)
//! only when the content changed.
use quote::ToTokens;
use std::fmt::Write as _;
use syn::visit::Visit;

fn write_if_changed(path: &std::path::Path, content: &str) {
    if let Ok(old) = std::fs::read_to_string(path) {
        if old == content {
            return;
        }
    }
    std::fs::write(path, content).expect("write table");
}

struct FnFinder<'a> {
    name: &'a str,
    found: Option<syn::ImplItemFn>,
}
impl<'ast, 'a> Visit<'ast> for FnFinder<'a> {
    fn visit_impl_item_fn(&mut self, i: &'ast syn::ImplItemFn) {
        if i.sig.ident == self.name {
            self.found = Some(i.clone());
        }
        syn::visit::visit_impl_item_fn(self, i);
    }
}

fn find_fn(file: &syn::File, name: &str) -> syn::ImplItemFn {
    let mut f = FnFinder { name, found: None };
    f.visit_file(file);
    f.found.unwrap_or_else(|| panic!("fn {} not found", name))
}

/// Evaluate `<int>::MIN as f64` / `<int>::MAX as f64` / float literal.
fn eval_f64(e: &syn::Expr) -> f64 {
    match e {
        syn::Expr::Cast(c) => {
            let ty = c.ty.to_token_stream().to_string();
            assert_eq!(ty, "f64", "cast target");
            eval_int(&c.expr) as f64
        }
        syn::Expr::Lit(l) => match &l.lit {
            syn::Lit::Float(f) => f.base10_parse::<f64>().unwrap(),
            syn::Lit::Int(i) => i.base10_parse::<i128>().unwrap() as f64,
            _ => panic!("literal"),
        },
        syn::Expr::Unary(u) if matches!(u.op, syn::UnOp::Neg(_)) => -eval_f64(&u.expr),
        syn::Expr::Paren(p) => eval_f64(&p.expr),
        _ => panic!("unsupported f64 expr {}", e.to_token_stream()),
    }
}

fn eval_int(e: &syn::Expr) -> i128 {
    match e {
        syn::Expr::Path(p) => {
            let s = p.to_token_stream().to_string().replace(' ', "");
            let (ty, c) = s.split_once("::").expect("T::C");
            let bits: u32 = ty[1..].parse().expect("int width");
            let signed = ty.starts_with('i');
            match (signed, c) {
                (true, "MIN") => -(1i128 << (bits - 1)),
                (true, "MAX") => (1i128 << (bits - 1)) - 1,
                (false, "MIN") => 0,
                (false, "MAX") => (1i128 << bits) - 1,
                _ => panic!("unsupported const {}", s),
            }
        }
        syn::Expr::Lit(l) => match &l.lit {
            syn::Lit::Int(i) => i.base10_parse::<i128>().unwrap(),
            _ => panic!("int literal"),
        },
        syn::Expr::Paren(p) => eval_int(&p.expr),
        _ => panic!("unsupported int expr {}", e.to_token_stream()),
    }
}

fn lit_str(e: &syn::Expr) -> String {
    match e {
        syn::Expr::Lit(l) => match &l.lit {
            syn::Lit::Str(s) => s.value(),
            _ => panic!("str literal"),
        },
        _ => panic!("expected string literal, got {}", e.to_token_stream()),
    }
}

struct LocalFinder<'a> {
    name: &'a str,
    found: Option<syn::Expr>,
}
impl<'ast, 'a> Visit<'ast> for LocalFinder<'a> {
    fn visit_local(&mut self, l: &'ast syn::Local) {
        let pat = match &l.pat {
            syn::Pat::Type(t) => &*t.pat,
            p => p,
        };
        if let syn::Pat::Ident(id) = pat {
            if id.ident == self.name {
                if let Some(init) = &l.init {
                    self.found = Some((*init.expr).clone());
                }
            }
        }
        syn::visit::visit_local(self, l);
    }
}

struct ArmFinder {
    arms: Vec<(String, String)>, // literal pattern -> first string literal in the body
}
struct FirstStr(Option<String>);
impl<'ast> Visit<'ast> for FirstStr {
    fn visit_lit_str(&mut self, s: &'ast syn::LitStr) {
        if self.0.is_none() {
            self.0 = Some(s.value());
        }
    }
}
impl<'ast> Visit<'ast> for ArmFinder {
    fn visit_arm(&mut self, a: &'ast syn::Arm) {
        // Some("lit") => body
        if let syn::Pat::TupleStruct(ts) = &a.pat {
            if ts.path.is_ident("Some") && ts.elems.len() == 1 {
                if let syn::Pat::Lit(l) = &ts.elems[0] {
                    if let syn::Lit::Str(s) = &l.lit {
                        let mut fs = FirstStr(None);
                        fs.visit_expr(&a.body);
                        self.arms.push((s.value(), fs.0.unwrap_or_default()));
                    }
                }
            }
        }
        syn::visit::visit_arm(self, a);
    }
}

fn coq_str(s: &str) -> String {
    assert!(s.is_ascii() && !s.contains('"'));
    format!("\"{}\"", s)
}

pub fn int_table(repo: &str) -> String {
    let src = std::fs::read_to_string(format!("{}/typify-impl/src/convert.rs", repo)).unwrap();
    let file = syn::parse_file(&src).expect("parse convert.rs");
    let f = find_fn(&file, "convert_integer");
    let mut lf = LocalFinder { name: "formats", found: None };
    lf.visit_impl_item_fn(&f);
    let init = lf.found.expect("let formats");
    // &[ (..), (..) ]
    let arr = match &init {
        syn::Expr::Reference(r) => match &*r.expr {
            syn::Expr::Array(a) => a.clone(),
            _ => panic!("formats is not &[..]"),
        },
        syn::Expr::Array(a) => a.clone(),
        _ => panic!("formats is not an array"),
    };
    let mut out = String::new();
    out.push_str("(* REGENERATED by `vh tables` from typify-impl/src/convert.rs — do not edit. *)\n");
    out.push_str("From Coq Require Import String ZArith List.\nImport ListNotations.\nOpen Scope string_scope.\nOpen Scope Z_scope.\n\n");
    out.push_str("(* (format, type, nonzero type, bits of `imin as f64`, bits of `imax as f64`) *)\n");
    out.push_str("Definition int_formats_raw : list (string * string * string * Z * Z) :=\n  [ ");
    let mut first = true;
    for el in arr.elems.iter() {
        let t = match el {
            syn::Expr::Tuple(t) => t,
            _ => panic!("format row is not a tuple"),
        };
        assert_eq!(t.elems.len(), 5);
        let fmt = lit_str(&t.elems[0]);
        let ty = lit_str(&t.elems[1]);
        let nz = lit_str(&t.elems[2]);
        let imin = eval_f64(&t.elems[3]);
        let imax = eval_f64(&t.elems[4]);
        if !first {
            out.push_str("  ; ");
        }
        first = false;
        writeln!(
            out,
            "({}, {}, {}, {}, {})",
            coq_str(&fmt),
            coq_str(&ty),
            coq_str(&nz),
            imin.to_bits(),
            imax.to_bits()
        )
        .unwrap();
    }
    out.push_str("  ].\n\n");

    // string formats: arms of the match in convert_string
    let f = find_fn(&file, "convert_string");
    let mut af = ArmFinder { arms: vec![] };
    af.visit_impl_item_fn(&f);
    out.push_str("(* recognised string formats of convert_string and the native type each selects *)\n");
    out.push_str("Definition string_formats : list (string * string) :=\n  [ ");
    let mut first = true;
    for (k, v) in af.arms.iter() {
        if !first {
            out.push_str("  ; ");
        }
        first = false;
        writeln!(out, "({}, {})", coq_str(k), coq_str(v)).unwrap();
    }
    out.push_str("  ].\n\n");

    // float formats: arms of convert_number
    let f = find_fn(&file, "convert_number");
    let mut af = ArmFinder { arms: vec![] };
    af.visit_impl_item_fn(&f);
    out.push_str("(* recognised number formats of convert_number *)\n");
    out.push_str("Definition number_formats : list (string * string) :=\n  [ ");
    let mut first = true;
    for (k, v) in af.arms.iter() {
        if !first {
            out.push_str("  ; ");
        }
        first = false;
        writeln!(out, "({}, {})", coq_str(k), coq_str(v)).unwrap();
    }
    out.push_str("  ].\n");
    out
}

pub fn main(args: &[String]) {
    let repo = args.get(0).map(String::as_str).unwrap_or("/repo");
    let out_dir = args.get(1).map(String::as_str).unwrap_or("/verif/coq/theories/Gen");
    let which = args.get(2).map(String::as_str).unwrap_or("all");
    let out_dir = std::path::Path::new(out_dir);
    if which == "all" || which == "int" {
        write_if_changed(&out_dir.join("IntTable.v"), &int_table(repo));
    }
}
